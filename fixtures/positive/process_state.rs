// Positive example for the `no process-wide state` rule: every construct below must be reported by the rule on each run.
use std::collections::HashSet;
use std::sync::OnceLock;

static mut COUNTER: usize = 0;

thread_local! {
    static SEEN: std::cell::RefCell<Vec<String>> = std::cell::RefCell::new(Vec::new());
}

pub fn table(curve: u8) -> &'static HashSet<&'static str> {
    static TABLE: OnceLock<HashSet<&'static str>> = OnceLock::new();
    TABLE.get_or_init(|| if curve == 0 { HashSet::from(["a"]) } else { HashSet::from(["b"]) })
}

pub struct Pass {
    cache: std::sync::Mutex<Vec<u8>>,
}

static NAME: &str = "harmless";
