//! astq: dump the syntax tree of Rust source files as generic JSON.
//!
//!   astq files <root> <file>...      -> {"files":[{file, items}]}
//!   astq exprs                       -> stdin: JSON array of strings (Rust expressions or blocks),
//!                                       stdout: JSON array of ASTs (or {"k":"ParseError"})
//!
//! Nothing here knows about circomspect; all rules live in /verif/rules.
use proc_macro2::{Delimiter, TokenStream, TokenTree};
use serde_json::{json, Map, Value};
use syn::punctuated::Punctuated;
use syn::spanned::Spanned;
use syn::*;

fn ln<T: Spanned>(t: &T) -> usize {
    t.span().start().line
}

fn ts<T: quote::ToTokens>(t: &T) -> String {
    compact(&t.to_token_stream().to_string())
}

fn compact(s: &str) -> String {
    // normalise token-stream spacing a little: "a :: b" -> "a::b", "& mut x" stays readable
    s.replace(" :: ", "::").replace(" < ", "<").replace(" >", ">").replace("& ", "&").replace(" ,", ",")
}

fn node(k: &str, line: usize) -> Map<String, Value> {
    let mut m = Map::new();
    m.insert("k".into(), json!(k));
    m.insert("line".into(), json!(line));
    m
}

fn path_str(p: &Path) -> String {
    let mut s = String::new();
    if p.leading_colon.is_some() {
        s.push_str("::");
    }
    for (i, seg) in p.segments.iter().enumerate() {
        if i > 0 {
            s.push_str("::");
        }
        s.push_str(&seg.ident.to_string());
    }
    s
}

fn path_generics(p: &Path) -> Vec<String> {
    let mut v = vec![];
    for seg in p.segments.iter() {
        if let PathArguments::AngleBracketed(a) = &seg.arguments {
            for g in a.args.iter() {
                v.push(ts(&g));
            }
        }
    }
    v
}

fn qpath(q: &Option<QSelf>, p: &Path) -> String {
    match q {
        Some(q) => format!("<{}>::{}", ts(&&*q.ty), path_str(p)),
        None => path_str(p),
    }
}

fn lit(l: &Lit) -> Value {
    let line = ln(l);
    let mut m = node("Lit", line);
    match l {
        Lit::Str(s) => {
            m.insert("lit".into(), json!("str"));
            m.insert("value".into(), json!(s.value()));
        }
        Lit::ByteStr(s) => {
            m.insert("lit".into(), json!("bytes"));
            m.insert("value".into(), json!(String::from_utf8_lossy(&s.value()).to_string()));
        }
        Lit::Byte(b) => {
            m.insert("lit".into(), json!("byte"));
            m.insert("value".into(), json!(b.value()));
        }
        Lit::Char(c) => {
            m.insert("lit".into(), json!("char"));
            m.insert("value".into(), json!(c.value().to_string()));
        }
        Lit::Int(i) => {
            m.insert("lit".into(), json!("int"));
            m.insert("value".into(), json!(i.base10_digits()));
            m.insert("suffix".into(), json!(i.suffix()));
        }
        Lit::Float(f) => {
            m.insert("lit".into(), json!("float"));
            m.insert("value".into(), json!(f.base10_digits()));
        }
        Lit::Bool(b) => {
            m.insert("lit".into(), json!("bool"));
            m.insert("value".into(), json!(b.value));
        }
        _ => {
            m.insert("lit".into(), json!("other"));
            m.insert("value".into(), json!(ts(&l)));
        }
    }
    Value::Object(m)
}

fn block(b: &Block) -> Value {
    let mut m = node("Block", ln(b));
    m.insert("stmts".into(), Value::Array(b.stmts.iter().map(stmt).collect()));
    m.insert("end_line".into(), json!(b.brace_token.span.close().start().line));
    Value::Object(m)
}

fn stmt(s: &Stmt) -> Value {
    match s {
        Stmt::Local(l) => {
            let mut m = node("Local", ln(l));
            let (p, ty) = match &l.pat {
                Pat::Type(pt) => (pat(&pt.pat), json!(ts(&&*pt.ty))),
                p => (pat(p), Value::Null),
            };
            m.insert("pat".into(), p);
            m.insert("ty".into(), ty);
            match &l.init {
                Some(i) => {
                    m.insert("init".into(), expr(&i.expr));
                    m.insert(
                        "else".into(),
                        match &i.diverge {
                            Some((_, e)) => expr(e),
                            None => Value::Null,
                        },
                    );
                }
                None => {
                    m.insert("init".into(), Value::Null);
                    m.insert("else".into(), Value::Null);
                }
            }
            Value::Object(m)
        }
        Stmt::Item(i) => {
            let mut m = node("ItemStmt", ln(i));
            m.insert("item".into(), item(i));
            Value::Object(m)
        }
        Stmt::Expr(e, semi) => {
            let mut m = node("ExprStmt", ln(e));
            m.insert("e".into(), expr(e));
            m.insert("semi".into(), json!(semi.is_some()));
            Value::Object(m)
        }
        Stmt::Macro(mc) => {
            let mut m = node("ExprStmt", ln(mc));
            m.insert("e".into(), mac(&mc.mac));
            m.insert("semi".into(), json!(mc.semi_token.is_some()));
            Value::Object(m)
        }
    }
}

fn split_commas(tokens: TokenStream) -> Vec<TokenStream> {
    let mut out = vec![];
    let mut cur = TokenStream::new();
    let mut any = false;
    for t in tokens {
        if let TokenTree::Punct(p) = &t {
            if p.as_char() == ',' {
                out.push(std::mem::take(&mut cur));
                any = false;
                continue;
            }
        }
        cur.extend(std::iter::once(t));
        any = true;
    }
    if any {
        out.push(cur);
    }
    out
}

fn mac(mc: &Macro) -> Value {
    let mut m = node("Macro", ln(mc));
    let name = path_str(&mc.path);
    m.insert("name".into(), json!(name));
    m.insert("raw".into(), json!(compact(&mc.tokens.to_string())));
    let last = name.rsplit("::").next().unwrap_or("").to_string();
    let mut args: Vec<Value> = vec![];
    let mut parsed = true;
    if last == "matches" {
        // matches!(expr, pat [if guard])
        let parts = split_commas(mc.tokens.clone());
        if parts.len() >= 2 {
            match syn::parse2::<Expr>(parts[0].clone()) {
                Ok(e) => args.push(expr(&e)),
                Err(_) => parsed = false,
            }
            let mut rest = TokenStream::new();
            for (i, p) in parts[1..].iter().enumerate() {
                if i > 0 {
                    rest.extend(std::iter::once(TokenTree::Punct(proc_macro2::Punct::new(
                        ',',
                        proc_macro2::Spacing::Alone,
                    ))));
                }
                rest.extend(p.clone());
            }
            // pattern with optional guard: parse as a match arm "PAT => ()"
            let armsrc: TokenStream = format!("match x {{ {} => () }}", rest).parse().unwrap_or_default();
            match syn::parse2::<ExprMatch>(armsrc) {
                Ok(em) if em.arms.len() == 1 => {
                    let a = &em.arms[0];
                    m.insert("pat".into(), pat(&a.pat));
                    m.insert(
                        "guard".into(),
                        match &a.guard {
                            Some((_, g)) => expr(g),
                            None => Value::Null,
                        },
                    );
                }
                _ => parsed = false,
            }
        } else {
            parsed = false;
        }
    } else if last == "vec" {
        // vec![a, b] or vec![x; n]
        if let Ok(p) = mc.parse_body_with(Punctuated::<Expr, Token![,]>::parse_terminated) {
            args = p.iter().map(expr).collect();
        } else if let Ok(r) = syn::parse2::<ExprRepeatInner>(mc.tokens.clone()) {
            args = vec![expr(&r.e), expr(&r.n)];
            m.insert("repeat".into(), json!(true));
        } else {
            parsed = false;
        }
    } else {
        match mc.parse_body_with(Punctuated::<Expr, Token![,]>::parse_terminated) {
            Ok(p) => args = p.iter().map(expr).collect(),
            Err(_) => parsed = false,
        }
    }
    m.insert("parsed".into(), json!(parsed));
    m.insert("args".into(), Value::Array(args));
    let delim = match &mc.delimiter {
        MacroDelimiter::Paren(_) => Delimiter::Parenthesis,
        MacroDelimiter::Brace(_) => Delimiter::Brace,
        MacroDelimiter::Bracket(_) => Delimiter::Bracket,
    };
    m.insert("delim".into(), json!(format!("{:?}", delim)));
    Value::Object(m)
}

struct ExprRepeatInner {
    e: Expr,
    n: Expr,
}
impl syn::parse::Parse for ExprRepeatInner {
    fn parse(input: syn::parse::ParseStream) -> Result<Self> {
        let e: Expr = input.parse()?;
        let _: Token![;] = input.parse()?;
        let n: Expr = input.parse()?;
        Ok(ExprRepeatInner { e, n })
    }
}

fn opt_expr(e: &Option<Box<Expr>>) -> Value {
    match e {
        Some(e) => expr(e),
        None => Value::Null,
    }
}

fn expr(e: &Expr) -> Value {
    let line = ln(e);
    match e {
        Expr::Paren(p) => expr(&p.expr),
        Expr::Group(g) => expr(&g.expr),
        Expr::Lit(l) => lit(&l.lit),
        Expr::Path(p) => {
            let mut m = node("Path", line);
            m.insert("path".into(), json!(qpath(&p.qself, &p.path)));
            let g = path_generics(&p.path);
            if !g.is_empty() {
                m.insert("generics".into(), json!(g));
            }
            Value::Object(m)
        }
        Expr::Call(c) => {
            let mut m = node("Call", line);
            m.insert("func".into(), expr(&c.func));
            m.insert("args".into(), Value::Array(c.args.iter().map(expr).collect()));
            Value::Object(m)
        }
        Expr::MethodCall(c) => {
            let mut m = node("MethodCall", line);
            m.insert("recv".into(), expr(&c.receiver));
            m.insert("method".into(), json!(c.method.to_string()));
            m.insert(
                "turbofish".into(),
                match &c.turbofish {
                    Some(t) => json!(t.args.iter().map(|a| ts(&a)).collect::<Vec<_>>()),
                    None => Value::Null,
                },
            );
            m.insert("args".into(), Value::Array(c.args.iter().map(expr).collect()));
            m.insert("mline".into(), json!(ln(&c.method)));
            Value::Object(m)
        }
        Expr::Macro(mc) => mac(&mc.mac),
        Expr::Binary(b) => {
            let mut m = node("Binary", line);
            m.insert("op".into(), json!(ts(&&b.op)));
            m.insert("l".into(), expr(&b.left));
            m.insert("r".into(), expr(&b.right));
            Value::Object(m)
        }
        Expr::Unary(u) => {
            let mut m = node("Unary", line);
            m.insert("op".into(), json!(ts(&&u.op)));
            m.insert("e".into(), expr(&u.expr));
            Value::Object(m)
        }
        Expr::Field(f) => {
            let mut m = node("Field", line);
            m.insert("base".into(), expr(&f.base));
            m.insert(
                "member".into(),
                json!(match &f.member {
                    Member::Named(i) => i.to_string(),
                    Member::Unnamed(i) => i.index.to_string(),
                }),
            );
            Value::Object(m)
        }
        Expr::Index(i) => {
            let mut m = node("Index", line);
            m.insert("base".into(), expr(&i.expr));
            m.insert("index".into(), expr(&i.index));
            Value::Object(m)
        }
        Expr::Reference(r) => {
            let mut m = node("Ref", line);
            m.insert("mut".into(), json!(r.mutability.is_some()));
            m.insert("e".into(), expr(&r.expr));
            Value::Object(m)
        }
        Expr::If(i) => {
            let mut m = node("If", line);
            m.insert("cond".into(), expr(&i.cond));
            m.insert("then".into(), block(&i.then_branch));
            m.insert(
                "else".into(),
                match &i.else_branch {
                    Some((_, e)) => expr(e),
                    None => Value::Null,
                },
            );
            Value::Object(m)
        }
        Expr::Let(l) => {
            let mut m = node("Let", line);
            m.insert("pat".into(), pat(&l.pat));
            m.insert("e".into(), expr(&l.expr));
            Value::Object(m)
        }
        Expr::Match(mt) => {
            let mut m = node("Match", line);
            m.insert("scrut".into(), expr(&mt.expr));
            let arms: Vec<Value> = mt
                .arms
                .iter()
                .map(|a| {
                    let mut am = node("Arm", ln(a));
                    am.insert("pat".into(), pat(&a.pat));
                    am.insert(
                        "guard".into(),
                        match &a.guard {
                            Some((_, g)) => expr(g),
                            None => Value::Null,
                        },
                    );
                    am.insert("body".into(), expr(&a.body));
                    Value::Object(am)
                })
                .collect();
            m.insert("arms".into(), Value::Array(arms));
            Value::Object(m)
        }
        Expr::Block(b) => block(&b.block),
        Expr::Unsafe(b) => block(&b.block),
        Expr::Closure(c) => {
            let mut m = node("Closure", line);
            m.insert("inputs".into(), Value::Array(c.inputs.iter().map(pat).collect()));
            m.insert("body".into(), expr(&c.body));
            m.insert("move".into(), json!(c.capture.is_some()));
            Value::Object(m)
        }
        Expr::Return(r) => {
            let mut m = node("Return", line);
            m.insert("e".into(), opt_expr(&r.expr));
            Value::Object(m)
        }
        Expr::Break(b) => {
            let mut m = node("Break", line);
            m.insert("e".into(), opt_expr(&b.expr));
            Value::Object(m)
        }
        Expr::Continue(_) => Value::Object(node("Continue", line)),
        Expr::Try(t) => {
            let mut m = node("Try", line);
            m.insert("e".into(), expr(&t.expr));
            Value::Object(m)
        }
        Expr::Assign(a) => {
            let mut m = node("Assign", line);
            m.insert("l".into(), expr(&a.left));
            m.insert("r".into(), expr(&a.right));
            Value::Object(m)
        }
        Expr::Struct(s) => {
            let mut m = node("Struct", line);
            m.insert("path".into(), json!(qpath(&s.qself, &s.path)));
            let fields: Vec<Value> = s
                .fields
                .iter()
                .map(|f| {
                    json!({"name": match &f.member { Member::Named(i) => i.to_string(), Member::Unnamed(i) => i.index.to_string() },
                           "e": expr(&f.expr), "shorthand": f.colon_token.is_none(), "line": ln(f)})
                })
                .collect();
            m.insert("fields".into(), Value::Array(fields));
            m.insert("rest".into(), opt_expr(&s.rest));
            Value::Object(m)
        }
        Expr::Tuple(t) => {
            let mut m = node("Tuple", line);
            m.insert("elems".into(), Value::Array(t.elems.iter().map(expr).collect()));
            Value::Object(m)
        }
        Expr::Array(t) => {
            let mut m = node("Array", line);
            m.insert("elems".into(), Value::Array(t.elems.iter().map(expr).collect()));
            Value::Object(m)
        }
        Expr::Repeat(r) => {
            let mut m = node("Repeat", line);
            m.insert("e".into(), expr(&r.expr));
            m.insert("len".into(), expr(&r.len));
            Value::Object(m)
        }
        Expr::Range(r) => {
            let mut m = node("Range", line);
            m.insert("from".into(), opt_expr(&r.start));
            m.insert("to".into(), opt_expr(&r.end));
            m.insert("inclusive".into(), json!(matches!(r.limits, RangeLimits::Closed(_))));
            Value::Object(m)
        }
        Expr::Cast(c) => {
            let mut m = node("Cast", line);
            m.insert("e".into(), expr(&c.expr));
            m.insert("ty".into(), json!(ts(&&*c.ty)));
            Value::Object(m)
        }
        Expr::While(w) => {
            let mut m = node("While", line);
            m.insert("cond".into(), expr(&w.cond));
            m.insert("body".into(), block(&w.body));
            Value::Object(m)
        }
        Expr::ForLoop(f) => {
            let mut m = node("For", line);
            m.insert("pat".into(), pat(&f.pat));
            m.insert("iter".into(), expr(&f.expr));
            m.insert("body".into(), block(&f.body));
            Value::Object(m)
        }
        Expr::Loop(l) => {
            let mut m = node("Loop", line);
            m.insert("body".into(), block(&l.body));
            Value::Object(m)
        }
        other => {
            let mut m = node("Other", line);
            m.insert("raw".into(), json!(ts(&other)));
            Value::Object(m)
        }
    }
}

fn pat(p: &Pat) -> Value {
    let line = ln(p);
    match p {
        Pat::Ident(i) => {
            let mut m = node("PIdent", line);
            m.insert("name".into(), json!(i.ident.to_string()));
            m.insert("by_ref".into(), json!(i.by_ref.is_some()));
            m.insert("mut".into(), json!(i.mutability.is_some()));
            m.insert(
                "sub".into(),
                match &i.subpat {
                    Some((_, s)) => pat(s),
                    None => Value::Null,
                },
            );
            Value::Object(m)
        }
        Pat::Wild(_) => Value::Object(node("PWild", line)),
        Pat::Rest(_) => Value::Object(node("PRest", line)),
        Pat::Lit(l) => {
            let mut m = node("PLit", line);
            m.insert("lit".into(), lit(&l.lit));
            Value::Object(m)
        }
        Pat::Path(pp) => {
            let mut m = node("PPath", line);
            m.insert("path".into(), json!(qpath(&pp.qself, &pp.path)));
            Value::Object(m)
        }
        Pat::TupleStruct(t) => {
            let mut m = node("PTupleStruct", line);
            m.insert("path".into(), json!(qpath(&t.qself, &t.path)));
            m.insert("elems".into(), Value::Array(t.elems.iter().map(pat).collect()));
            Value::Object(m)
        }
        Pat::Struct(s) => {
            let mut m = node("PStruct", line);
            m.insert("path".into(), json!(qpath(&s.qself, &s.path)));
            let fields: Vec<Value> = s
                .fields
                .iter()
                .map(|f| {
                    json!({"name": match &f.member { Member::Named(i) => i.to_string(), Member::Unnamed(i) => i.index.to_string() },
                           "pat": pat(&f.pat), "shorthand": f.colon_token.is_none()})
                })
                .collect();
            m.insert("fields".into(), Value::Array(fields));
            m.insert("rest".into(), json!(s.rest.is_some()));
            Value::Object(m)
        }
        Pat::Tuple(t) => {
            let mut m = node("PTuple", line);
            m.insert("elems".into(), Value::Array(t.elems.iter().map(pat).collect()));
            Value::Object(m)
        }
        Pat::Slice(t) => {
            let mut m = node("PSlice", line);
            m.insert("elems".into(), Value::Array(t.elems.iter().map(pat).collect()));
            Value::Object(m)
        }
        Pat::Or(o) => {
            let mut m = node("POr", line);
            m.insert("cases".into(), Value::Array(o.cases.iter().map(pat).collect()));
            Value::Object(m)
        }
        Pat::Reference(r) => {
            let mut m = node("PRef", line);
            m.insert("pat".into(), pat(&r.pat));
            Value::Object(m)
        }
        Pat::Paren(pp) => pat(&pp.pat),
        Pat::Type(t) => {
            let mut m = node("PType", line);
            m.insert("pat".into(), pat(&t.pat));
            m.insert("ty".into(), json!(ts(&&*t.ty)));
            Value::Object(m)
        }
        Pat::Range(r) => {
            let mut m = node("PRange", line);
            m.insert("raw".into(), json!(ts(&r)));
            Value::Object(m)
        }
        other => {
            let mut m = node("POther", line);
            m.insert("raw".into(), json!(ts(&other)));
            Value::Object(m)
        }
    }
}

fn attrs(a: &[Attribute]) -> Value {
    Value::Array(a.iter().map(|x| json!(compact(&x.meta.to_token_stream_string()))).collect())
}

trait MetaStr {
    fn to_token_stream_string(&self) -> String;
}
impl MetaStr for Meta {
    fn to_token_stream_string(&self) -> String {
        ts(&self)
    }
}

fn vis(v: &Visibility) -> Value {
    match v {
        Visibility::Public(_) => json!("pub"),
        Visibility::Restricted(r) => json!(format!("pub({})", path_str(&r.path))),
        Visibility::Inherited => json!(""),
    }
}

fn sig(s: &Signature) -> Value {
    let mut inputs = vec![];
    for a in s.inputs.iter() {
        match a {
            FnArg::Receiver(r) => inputs.push(json!({"self": true, "ref": r.reference.is_some(), "mut": r.mutability.is_some()})),
            FnArg::Typed(t) => inputs.push(json!({"pat": pat(&t.pat), "ty": ts(&&*t.ty)})),
        }
    }
    json!({
        "inputs": inputs,
        "output": match &s.output { ReturnType::Default => Value::Null, ReturnType::Type(_, t) => json!(ts(&&**t)) },
        "generics": ts(&&s.generics),
    })
}

fn fields(f: &Fields) -> Value {
    Value::Array(
        f.iter()
            .enumerate()
            .map(|(i, f)| {
                json!({"name": f.ident.as_ref().map(|x| x.to_string()).unwrap_or(i.to_string()), "ty": ts(&&f.ty), "vis": vis(&f.vis)})
            })
            .collect(),
    )
}

fn use_tree(prefix: &str, t: &UseTree, out: &mut Vec<Value>) {
    match t {
        UseTree::Path(p) => {
            let np = if prefix.is_empty() { p.ident.to_string() } else { format!("{}::{}", prefix, p.ident) };
            use_tree(&np, &p.tree, out);
        }
        UseTree::Name(n) => {
            let full = if prefix.is_empty() { n.ident.to_string() } else { format!("{}::{}", prefix, n.ident) };
            let (full, name) = if n.ident == "self" { (prefix.to_string(), prefix.rsplit("::").next().unwrap_or("").to_string()) } else { (full, n.ident.to_string()) };
            out.push(json!({"path": full, "name": name}));
        }
        UseTree::Rename(r) => {
            let full = if prefix.is_empty() { r.ident.to_string() } else { format!("{}::{}", prefix, r.ident) };
            let full = if r.ident == "self" { prefix.to_string() } else { full };
            out.push(json!({"path": full, "name": r.rename.to_string()}));
        }
        UseTree::Glob(_) => out.push(json!({"path": prefix, "name": "*"})),
        UseTree::Group(g) => {
            for i in g.items.iter() {
                use_tree(prefix, i, out);
            }
        }
    }
}

fn impl_item(i: &ImplItem) -> Value {
    match i {
        ImplItem::Fn(f) => {
            let mut m = node("Fn", ln(f));
            m.insert("name".into(), json!(f.sig.ident.to_string()));
            m.insert("sig".into(), sig(&f.sig));
            m.insert("body".into(), block(&f.block));
            m.insert("attrs".into(), attrs(&f.attrs));
            m.insert("vis".into(), vis(&f.vis));
            Value::Object(m)
        }
        ImplItem::Const(c) => {
            let mut m = node("Const", ln(c));
            m.insert("name".into(), json!(c.ident.to_string()));
            m.insert("ty".into(), json!(ts(&&c.ty)));
            m.insert("expr".into(), expr(&c.expr));
            Value::Object(m)
        }
        ImplItem::Type(t) => {
            let mut m = node("TypeAlias", ln(t));
            m.insert("name".into(), json!(t.ident.to_string()));
            m.insert("ty".into(), json!(ts(&&t.ty)));
            Value::Object(m)
        }
        other => {
            let mut m = node("OtherItem", ln(other));
            m.insert("raw".into(), json!(ts(&other)));
            Value::Object(m)
        }
    }
}

fn item(i: &Item) -> Value {
    let line = ln(i);
    match i {
        Item::Fn(f) => {
            let mut m = node("Fn", line);
            m.insert("name".into(), json!(f.sig.ident.to_string()));
            m.insert("sig".into(), sig(&f.sig));
            m.insert("body".into(), block(&f.block));
            m.insert("attrs".into(), attrs(&f.attrs));
            m.insert("vis".into(), vis(&f.vis));
            Value::Object(m)
        }
        Item::Impl(im) => {
            let mut m = node("Impl", line);
            m.insert("self_ty".into(), json!(ts(&&*im.self_ty)));
            m.insert(
                "trait".into(),
                match &im.trait_ {
                    Some((_, p, _)) => json!(ts(&p)),
                    None => Value::Null,
                },
            );
            m.insert("items".into(), Value::Array(im.items.iter().map(impl_item).collect()));
            m.insert("attrs".into(), attrs(&im.attrs));
            Value::Object(m)
        }
        Item::Const(c) => {
            let mut m = node("Const", line);
            m.insert("name".into(), json!(c.ident.to_string()));
            m.insert("ty".into(), json!(ts(&&*c.ty)));
            m.insert("expr".into(), expr(&c.expr));
            m.insert("attrs".into(), attrs(&c.attrs));
            Value::Object(m)
        }
        Item::Static(c) => {
            let mut m = node("Const", line);
            m.insert("static".into(), json!(true));
            m.insert("mut".into(), json!(matches!(c.mutability, syn::StaticMutability::Mut(_))));
            m.insert("name".into(), json!(c.ident.to_string()));
            m.insert("ty".into(), json!(ts(&&*c.ty)));
            m.insert("expr".into(), expr(&c.expr));
            m.insert("attrs".into(), attrs(&c.attrs));
            Value::Object(m)
        }
        Item::Enum(e) => {
            let mut m = node("Enum", line);
            m.insert("name".into(), json!(e.ident.to_string()));
            m.insert("attrs".into(), attrs(&e.attrs));
            m.insert(
                "variants".into(),
                Value::Array(
                    e.variants
                        .iter()
                        .map(|v| {
                            json!({"name": v.ident.to_string(), "fields": fields(&v.fields),
                                   "style": match &v.fields { Fields::Named(_) => "named", Fields::Unnamed(_) => "tuple", Fields::Unit => "unit" }})
                        })
                        .collect(),
                ),
            );
            Value::Object(m)
        }
        Item::Struct(s) => {
            let mut m = node("StructDef", line);
            m.insert("name".into(), json!(s.ident.to_string()));
            m.insert("attrs".into(), attrs(&s.attrs));
            m.insert("fields".into(), fields(&s.fields));
            Value::Object(m)
        }
        Item::Use(u) => {
            let mut m = node("Use", line);
            let mut out = vec![];
            use_tree("", &u.tree, &mut out);
            m.insert("uses".into(), Value::Array(out));
            m.insert("vis".into(), vis(&u.vis));
            Value::Object(m)
        }
        Item::Mod(md) => {
            let mut m = node("Mod", line);
            m.insert("name".into(), json!(md.ident.to_string()));
            m.insert("attrs".into(), attrs(&md.attrs));
            m.insert(
                "items".into(),
                match &md.content {
                    Some((_, items)) => Value::Array(items.iter().map(item).collect()),
                    None => Value::Null,
                },
            );
            Value::Object(m)
        }
        Item::Trait(t) => {
            let mut m = node("Trait", line);
            m.insert("name".into(), json!(t.ident.to_string()));
            let items: Vec<Value> = t
                .items
                .iter()
                .map(|ti| match ti {
                    TraitItem::Fn(f) => {
                        let mut fm = node("Fn", ln(f));
                        fm.insert("name".into(), json!(f.sig.ident.to_string()));
                        fm.insert("sig".into(), sig(&f.sig));
                        fm.insert(
                            "body".into(),
                            match &f.default {
                                Some(b) => block(b),
                                None => Value::Null,
                            },
                        );
                        fm.insert("attrs".into(), attrs(&f.attrs));
                        Value::Object(fm)
                    }
                    other => {
                        let mut om = node("OtherItem", ln(other));
                        om.insert("raw".into(), json!(ts(&other)));
                        Value::Object(om)
                    }
                })
                .collect();
            m.insert("items".into(), Value::Array(items));
            Value::Object(m)
        }
        Item::Type(t) => {
            let mut m = node("TypeAlias", line);
            m.insert("name".into(), json!(t.ident.to_string()));
            m.insert("ty".into(), json!(ts(&&*t.ty)));
            Value::Object(m)
        }
        Item::Macro(mc) => {
            let mut m = node("ItemMacro", line);
            m.insert("mac".into(), mac(&mc.mac));
            Value::Object(m)
        }
        other => {
            let mut m = node("OtherItem", line);
            m.insert("raw".into(), json!(ts(&other)));
            Value::Object(m)
        }
    }
}

fn main() {
    let args: Vec<String> = std::env::args().collect();
    if args.len() < 2 {
        eprintln!("usage: astq files <root> <file>... | astq exprs");
        std::process::exit(2);
    }
    match args[1].as_str() {
        "files" => {
            let root = &args[2];
            let mut files = vec![];
            for f in &args[3..] {
                let full = format!("{}/{}", root, f);
                let src = match std::fs::read_to_string(&full) {
                    Ok(s) => s,
                    Err(e) => {
                        files.push(json!({"file": f, "error": e.to_string()}));
                        continue;
                    }
                };
                match syn::parse_file(&src) {
                    Ok(ast) => {
                        files.push(json!({"file": f, "items": ast.items.iter().map(item).collect::<Vec<_>>()}));
                    }
                    Err(e) => files.push(json!({"file": f, "error": e.to_string()})),
                }
            }
            println!("{}", json!({ "files": files }));
        }
        "exprs" => {
            let mut s = String::new();
            use std::io::Read;
            std::io::stdin().read_to_string(&mut s).unwrap();
            let v: Vec<String> = serde_json::from_str(&s).expect("json array of strings");
            let mut out = vec![];
            for src in v {
                let r = syn::parse_str::<Expr>(&src)
                    .map(|e| expr(&e))
                    .or_else(|_| syn::parse_str::<Block>(&format!("{{ {} }}", src)).map(|b| block(&b)));
                match r {
                    Ok(v) => out.push(v),
                    Err(e) => out.push(json!({"k": "ParseError", "error": e.to_string(), "src": src})),
                }
            }
            println!("{}", Value::Array(out));
        }
        _ => {
            eprintln!("unknown mode");
            std::process::exit(2);
        }
    }
}
