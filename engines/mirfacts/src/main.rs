//! mirfacts: rustc_private driver used as RUSTC_WORKSPACE_WRAPPER.
//! For every function of the crate being compiled it writes MIR facts
//! (CFG, resolved callees, assignments, enum constructions, switch targets)
//! as one JSON file per compilation unit into $MIRFACTS_OUT.
#![feature(rustc_private)]
extern crate rustc_driver;
extern crate rustc_hir;
extern crate rustc_interface;
extern crate rustc_middle;
extern crate rustc_span;

use rustc_hir::def::DefKind;
use rustc_hir::def_id::DefId;
use rustc_middle::mir::*;
use rustc_middle::ty::{self, Instance, InstanceKind, TyCtxt, TypingEnv};
use std::fmt::Write as _;

fn esc(s: &str) -> String {
    let mut o = String::with_capacity(s.len() + 2);
    o.push('"');
    for c in s.chars() {
        match c {
            '"' => o.push_str("\\\""),
            '\\' => o.push_str("\\\\"),
            '\n' => o.push_str("\\n"),
            '\r' => o.push_str("\\r"),
            '\t' => o.push_str("\\t"),
            c if (c as u32) < 0x20 => {
                let _ = write!(o, "\\u{:04x}", c as u32);
            }
            c => o.push(c),
        }
    }
    o.push('"');
    o
}

fn canon(tcx: TyCtxt<'_>, d: DefId) -> String {
    format!("{}{}", tcx.crate_name(d.krate), tcx.def_path(d).to_string_no_crate_verbose())
}

struct Cb;

fn place_json<'tcx>(tcx: TyCtxt<'tcx>, body: &Body<'tcx>, p: &Place<'tcx>) -> String {
    let mut s = format!("{{\"l\":{}", p.local.as_usize());
    if !p.projection.is_empty() {
        s.push_str(",\"p\":[");
        let mut ty = PlaceTy::from_ty(body.local_decls[p.local].ty);
        for (i, e) in p.projection.iter().enumerate() {
            if i > 0 {
                s.push(',');
            }
            let txt = match e {
                ProjectionElem::Deref => "*".to_string(),
                ProjectionElem::Field(f, _) => {
                    // try to name the field
                    let mut name = format!(".{}", f.as_usize());
                    if let ty::Adt(adt, _) = ty.ty.kind() {
                        let vidx = ty.variant_index.unwrap_or(rustc_abi_first());
                        if vidx.as_usize() < adt.variants().len() {
                            let v = adt.variant(vidx);
                            if f.as_usize() < v.fields.len() {
                                name = format!(".{}", v.fields[f].name);
                            }
                        }
                    }
                    name
                }
                ProjectionElem::Downcast(n, idx) => match n {
                    Some(n) => format!("as {}", n),
                    None => format!("as #{}", idx.as_usize()),
                },
                ProjectionElem::Index(l) => format!("[_{}]", l.as_usize()),
                ProjectionElem::ConstantIndex { offset, from_end, .. } => format!("[c{}{}]", if from_end { "-" } else { "" }, offset),
                ProjectionElem::Subslice { .. } => "[..]".to_string(),
                _ => "?".to_string(),
            };
            s.push_str(&esc(&txt));
            ty = ty.projection_ty(tcx, e);
        }
        s.push(']');
    }
    s.push('}');
    s
}

fn rustc_abi_first() -> rustc_abi_variant::VariantIdx {
    rustc_abi_variant::VariantIdx::from_u32(0)
}
mod rustc_abi_variant {
    extern crate rustc_abi;
    pub use rustc_abi::VariantIdx;
}

fn const_str<'tcx>(tcx: TyCtxt<'tcx>, c: &ConstOperand<'tcx>) -> (String, Option<DefId>) {
    // function items: report the def; named constants: report the def path; literals: pretty text
    let ty = c.const_.ty();
    if let ty::FnDef(d, _) = ty.kind() {
        return (format!("fn {}", canon(tcx, *d)), Some(*d));
    }
    match c.const_ {
        Const::Unevaluated(u, _) => (format!("const {}", canon(tcx, u.def)), Some(u.def)),
        _ => (format!("{}", c.const_), None),
    }
}

fn operand_json<'tcx>(tcx: TyCtxt<'tcx>, body: &Body<'tcx>, o: &Operand<'tcx>) -> String {
    match o {
        Operand::Copy(p) => place_json(tcx, body, p),
        Operand::Move(p) => {
            let mut s = place_json(tcx, body, p);
            s.pop();
            s.push_str(",\"mv\":1}");
            s
        }
        Operand::Constant(c) => {
            let (t, _) = const_str(tcx, c);
            format!("{{\"c\":{},\"ty\":{}}}", esc(&t), esc(&c.const_.ty().to_string()))
        }
        #[allow(unreachable_patterns)]
        _ => "{\"c\":\"?\"}".to_string(),
    }
}

fn rvalue_json<'tcx>(tcx: TyCtxt<'tcx>, body: &Body<'tcx>, r: &Rvalue<'tcx>, closures: &mut Vec<DefId>) -> String {
    let ops = |v: Vec<&Operand<'tcx>>| -> String {
        let mut s = String::from("[");
        for (i, o) in v.iter().enumerate() {
            if i > 0 {
                s.push(',');
            }
            s.push_str(&operand_json(tcx, body, o));
        }
        s.push(']');
        s
    };
    match r {
        Rvalue::Use(o, ..) => format!("{{\"k\":\"use\",\"ops\":{}}}", ops(vec![o])),
        Rvalue::Ref(_, bk, p) => format!(
            "{{\"k\":\"ref\",\"mut\":{},\"place\":{}}}",
            matches!(bk, BorrowKind::Mut { .. }),
            place_json(tcx, body, p)
        ),
        Rvalue::RawPtr(_, p) => format!("{{\"k\":\"rawptr\",\"place\":{}}}", place_json(tcx, body, p)),
        Rvalue::Cast(ck, o, t) => format!(
            "{{\"k\":\"cast\",\"cast\":{},\"ty\":{},\"ops\":{}}}",
            esc(&format!("{:?}", ck)),
            esc(&t.to_string()),
            ops(vec![o])
        ),
        Rvalue::BinaryOp(op, b) => format!("{{\"k\":\"bin\",\"op\":{},\"ops\":{}}}", esc(&format!("{:?}", op)), ops(vec![&b.0, &b.1])),
        Rvalue::UnaryOp(op, o) => format!("{{\"k\":\"un\",\"op\":{},\"ops\":{}}}", esc(&format!("{:?}", op)), ops(vec![o])),
        Rvalue::Discriminant(p) => format!("{{\"k\":\"discr\",\"place\":{}}}", place_json(tcx, body, p)),
        Rvalue::Aggregate(ak, fields) => {
            let (kind, name) = match &**ak {
                AggregateKind::Adt(did, vidx, _, _, _) => {
                    let adt = tcx.adt_def(*did);
                    let v = adt.variant(*vidx);
                    ("adt", format!("{}::{}", canon(tcx, *did), v.name))
                }
                AggregateKind::Closure(did, _) => {
                    closures.push(*did);
                    ("closure", canon(tcx, *did))
                }
                AggregateKind::Tuple => ("tuple", String::new()),
                AggregateKind::Array(_) => ("array", String::new()),
                _ => ("other", String::new()),
            };
            format!(
                "{{\"k\":\"agg\",\"agg\":{},\"name\":{},\"ops\":{}}}",
                esc(kind),
                esc(&name),
                ops(fields.iter().collect())
            )
        }
        Rvalue::Repeat(o, _) => format!("{{\"k\":\"repeat\",\"ops\":{}}}", ops(vec![o])),
        Rvalue::CopyForDeref(p) => format!("{{\"k\":\"use\",\"ops\":[{}]}}", place_json(tcx, body, p)),
        _ => format!("{{\"k\":\"other\",\"txt\":{}}}", esc(&format!("{:?}", r))),
    }
}

fn macro_chain(sp: rustc_span::Span) -> String {
    // names of the macros in the expansion backtrace, innermost first
    let mut s = String::from("[");
    let mut first = true;
    for ed in sp.macro_backtrace() {
        if let rustc_span::ExpnKind::Macro(_, name) = ed.kind {
            if !first {
                s.push(',');
            }
            first = false;
            s.push_str(&esc(&name.to_string()));
        }
    }
    s.push(']');
    s
}

fn line_of(tcx: TyCtxt<'_>, sp: rustc_span::Span) -> (String, usize, bool) {
    let exp = sp.from_expansion();
    let sp2 = sp.source_callsite();
    let sm = tcx.sess.source_map();
    let loc = sm.lookup_char_pos(sp2.lo());
    let fname = match &loc.file.name {
        rustc_span::FileName::Real(r) => match r.local_path() {
            Some(p) => p.to_string_lossy().to_string(),
            None => format!("{:?}", r),
        },
        other => format!("{:?}", other),
    };
    (fname, loc.line, exp)
}

impl rustc_driver::Callbacks for Cb {
    fn after_analysis<'tcx>(&mut self, _c: &rustc_interface::interface::Compiler, tcx: TyCtxt<'tcx>) -> rustc_driver::Compilation {
        let out_dir = match std::env::var("MIRFACTS_OUT") {
            Ok(d) => d,
            Err(_) => return rustc_driver::Compilation::Continue,
        };
        let krate = tcx.crate_name(rustc_hir::def_id::LOCAL_CRATE).to_string();
        let mut out = String::new();
        let _ = write!(out, "{{\"crate\":{},\"fns\":[", esc(&krate));
        let mut first_fn = true;
        let mut nfn = 0usize;
        for ldid in tcx.hir_body_owners() {
            let did = ldid.to_def_id();
            let kind = tcx.def_kind(did);
            if !matches!(kind, DefKind::Fn | DefKind::AssocFn | DefKind::Closure) {
                continue;
            }
            let body = tcx.optimized_mir(did);
            let (file, line, fexp) = line_of(tcx, body.span);
            let generated = file.contains("/out/") || file.contains("/target/");
            if !first_fn {
                out.push(',');
            }
            first_fn = false;
            nfn += 1;
            let trait_item = tcx.trait_item_of(did).map(|d| canon(tcx, d));
            let impl_of_trait = match tcx.opt_associated_item(did) {
                Some(ai) => match ai.container {
                    ty::AssocContainer::TraitImpl(_) => tcx.trait_of_assoc(tcx.trait_item_of(did).unwrap_or(did)).map(|t| canon(tcx, t)),
                    _ => None,
                },
                None => None,
            };
            let _ = write!(
                out,
                "{{\"id\":{},\"pretty\":{},\"kind\":{},\"file\":{},\"line\":{},\"exp\":{},\"gen\":{},\"trait_item\":{},\"trait\":{},\"argc\":{}",
                esc(&canon(tcx, did)),
                esc(&tcx.def_path_str(did)),
                esc(&format!("{:?}", kind)),
                esc(&file),
                line,
                fexp,
                generated,
                trait_item.as_deref().map(esc).unwrap_or("null".into()),
                impl_of_trait.as_deref().map(esc).unwrap_or("null".into()),
                body.arg_count
            );
            // locals
            if !generated {
                out.push_str(",\"locals\":[");
                for (i, d) in body.local_decls.iter().enumerate() {
                    if i > 0 {
                        out.push(',');
                    }
                    out.push_str(&esc(&d.ty.to_string()));
                }
                out.push_str("],\"names\":{");
                let mut firstn = true;
                for v in body.var_debug_info.iter() {
                    if let VarDebugInfoContents::Place(p) = &v.value {
                        if !firstn {
                            out.push(',');
                        }
                        firstn = false;
                        let _ = write!(out, "{}:{}", esc(&format!("{}@{}", v.name, v.source_info.scope.as_usize())), place_json(tcx, body, p));
                    }
                }
                out.push('}');
            }
            out.push_str(",\"blocks\":[");
            let mut closures: Vec<DefId> = vec![];
            for (bi, data) in body.basic_blocks.iter_enumerated() {
                if bi.as_usize() > 0 {
                    out.push(',');
                }
                let _ = write!(out, "{{\"cleanup\":{}", data.is_cleanup);
                if !generated {
                    out.push_str(",\"stmts\":[");
                    let mut firsts = true;
                    for st in data.statements.iter() {
                        if let StatementKind::Assign(b) = &st.kind {
                            let (pl, rv) = &**b;
                            if !firsts {
                                out.push(',');
                            }
                            firsts = false;
                            let (_, l, _) = line_of(tcx, st.source_info.span);
                            let _ = write!(
                                out,
                                "{{\"dst\":{},\"rv\":{},\"line\":{}}}",
                                place_json(tcx, body, pl),
                                rvalue_json(tcx, body, rv, &mut closures),
                                l
                            );
                        }
                    }
                    out.push(']');
                } else {
                    for st in data.statements.iter() {
                        if let StatementKind::Assign(b) = &st.kind {
                            if let Rvalue::Aggregate(ak, _) = &b.1 {
                                if let AggregateKind::Closure(d, _) = &**ak {
                                    closures.push(*d);
                                }
                            }
                        }
                    }
                }
                let term = data.terminator();
                let (_, tl, texp) = line_of(tcx, term.source_info.span);
                out.push_str(",\"term\":");
                match &term.kind {
                    TerminatorKind::Call { func, args, destination, target, unwind, .. } => {
                        let mut callee = String::from("null");
                        let mut cpretty = String::from("null");
                        let mut res = "indirect";
                        let mut gargs = String::from("[]");
                        let mut decl = String::from("null");
                        if let Operand::Constant(c) = func {
                            if let ty::FnDef(cd, ga) = c.const_.ty().kind() {
                                decl = esc(&canon(tcx, *cd));
                                let mut target_did = *cd;
                                res = "static";
                                let tenv = TypingEnv::post_analysis(tcx, did);
                                match Instance::try_resolve(tcx, tenv, *cd, ga) {
                                    Ok(Some(inst)) => {
                                        target_did = inst.def_id();
                                        match inst.def {
                                            InstanceKind::Virtual(..) => res = "virtual",
                                            InstanceKind::Item(_) => {
                                                if tcx.trait_of_assoc(target_did).is_some() && tcx.opt_associated_item(target_did).map(|a| matches!(a.container, ty::AssocContainer::Trait)).unwrap_or(false) {
                                                    // resolved to the trait's own item: either default body or unresolved
                                                    res = "trait";
                                                }
                                            }
                                            _ => res = "shim",
                                        }
                                    }
                                    _ => {
                                        if tcx.trait_of_assoc(*cd).is_some() {
                                            res = "trait";
                                        }
                                    }
                                }
                                callee = esc(&canon(tcx, target_did));
                                cpretty = esc(&tcx.def_path_str(target_did));
                                let mut g = String::from("[");
                                for (i, a) in ga.iter().enumerate() {
                                    if i > 0 {
                                        g.push(',');
                                    }
                                    g.push_str(&esc(&a.to_string()));
                                }
                                g.push(']');
                                gargs = g;
                            }
                        }
                        let mut a = String::from("[");
                        for (i, x) in args.iter().enumerate() {
                            if i > 0 {
                                a.push(',');
                            }
                            a.push_str(&operand_json(tcx, body, &x.node));
                        }
                        a.push(']');
                        let fop = if callee == "null" { operand_json(tcx, body, func) } else { "null".into() };
                        let _ = write!(
                            out,
                            "{{\"k\":\"call\",\"callee\":{},\"decl\":{},\"pretty\":{},\"res\":{},\"gargs\":{},\"args\":{},\"dst\":{},\"target\":{},\"unwind\":{},\"fop\":{},\"line\":{},\"exp\":{},\"mac\":{}}}",
                            callee,
                            decl,
                            cpretty,
                            esc(res),
                            gargs,
                            a,
                            place_json(tcx, body, destination),
                            target.map(|t| t.as_usize().to_string()).unwrap_or("null".into()),
                            match unwind {
                                UnwindAction::Cleanup(b) => b.as_usize().to_string(),
                                _ => "null".into(),
                            },
                            fop,
                            tl,
                            texp,
                            if texp { macro_chain(term.source_info.span) } else { "[]".to_string() }
                        );
                    }
                    TerminatorKind::SwitchInt { discr, targets } => {
                        let mut t = String::from("[");
                        for (i, (v, b)) in targets.iter().enumerate() {
                            if i > 0 {
                                t.push(',');
                            }
                            let _ = write!(t, "[{},{}]", v, b.as_usize());
                        }
                        t.push(']');
                        let _ = write!(
                            out,
                            "{{\"k\":\"switch\",\"discr\":{},\"targets\":{},\"otherwise\":{},\"line\":{}}}",
                            operand_json(tcx, body, discr),
                            t,
                            targets.otherwise().as_usize(),
                            tl
                        );
                    }
                    TerminatorKind::Goto { target } => {
                        let _ = write!(out, "{{\"k\":\"goto\",\"target\":{}}}", target.as_usize());
                    }
                    TerminatorKind::Return => out.push_str("{\"k\":\"return\"}"),
                    TerminatorKind::Unreachable => out.push_str("{\"k\":\"unreachable\"}"),
                    TerminatorKind::UnwindResume => out.push_str("{\"k\":\"resume\"}"),
                    TerminatorKind::Drop { place, target, unwind, .. } => {
                        let _ = write!(
                            out,
                            "{{\"k\":\"drop\",\"place\":{},\"target\":{},\"unwind\":{}}}",
                            place_json(tcx, body, place),
                            target.as_usize(),
                            match unwind {
                                UnwindAction::Cleanup(b) => b.as_usize().to_string(),
                                _ => "null".into(),
                            }
                        );
                    }
                    TerminatorKind::Assert { cond, expected, msg, target, .. } => {
                        let kind = format!("{:?}", std::mem::discriminant(&**msg));
                        let _ = kind;
                        let mk = match &**msg {
                            AssertKind::BoundsCheck { .. } => "BoundsCheck",
                            AssertKind::Overflow(..) => "Overflow",
                            AssertKind::OverflowNeg(..) => "OverflowNeg",
                            AssertKind::DivisionByZero(..) => "DivisionByZero",
                            AssertKind::RemainderByZero(..) => "RemainderByZero",
                            AssertKind::MisalignedPointerDereference { .. } => "MisalignedPointerDereference",
                            AssertKind::NullPointerDereference => "NullPointerDereference",
                            _ => "Other",
                        };
                        let _ = write!(
                            out,
                            "{{\"k\":\"assert\",\"cond\":{},\"expected\":{},\"msg\":{},\"target\":{},\"line\":{},\"exp\":{}}}",
                            operand_json(tcx, body, cond),
                            expected,
                            esc(mk),
                            target.as_usize(),
                            tl,
                            texp
                        );
                    }
                    TerminatorKind::FalseEdge { real_target, .. } => {
                        let _ = write!(out, "{{\"k\":\"goto\",\"target\":{}}}", real_target.as_usize());
                    }
                    TerminatorKind::FalseUnwind { real_target, .. } => {
                        let _ = write!(out, "{{\"k\":\"goto\",\"target\":{}}}", real_target.as_usize());
                    }
                    other => {
                        let succ: Vec<String> = other.successors().map(|b| b.as_usize().to_string()).collect();
                        let _ = write!(out, "{{\"k\":\"other\",\"succ\":[{}]}}", succ.join(","));
                    }
                }
                out.push('}');
            }
            out.push_str("],\"closures\":[");
            for (i, c) in closures.iter().enumerate() {
                if i > 0 {
                    out.push(',');
                }
                out.push_str(&esc(&canon(tcx, *c)));
            }
            out.push_str("]}");
        }
        out.push_str("],\"adts\":[");
        // ADT definitions of this crate
        let mut first = true;
        for id in tcx.hir_free_items() {
            let did = id.owner_id.to_def_id();
            if matches!(tcx.def_kind(did), DefKind::Enum | DefKind::Struct) {
                let adt = tcx.adt_def(did);
                if !first {
                    out.push(',');
                }
                first = false;
                let _ = write!(out, "{{\"id\":{},\"enum\":{},\"variants\":[", esc(&canon(tcx, did)), adt.is_enum());
                for (vi, v) in adt.variants().iter().enumerate() {
                    if vi > 0 {
                        out.push(',');
                    }
                    let _ = write!(out, "{{\"name\":{},\"fields\":[", esc(&v.name.to_string()));
                    for (fi, f) in v.fields.iter().enumerate() {
                        if fi > 0 {
                            out.push(',');
                        }
                        let fty = tcx.type_of(f.did).instantiate_identity().skip_norm_wip();
                        let _ = write!(out, "[{},{}]", esc(&f.name.to_string()), esc(&fty.to_string()));
                    }
                    out.push_str("]}");
                }
                out.push_str("]}");
            }
        }
        out.push_str("]}");
        let ctype = format!("{:?}", tcx.crate_types());
        let tag = format!("{:x}", tcx.stable_crate_id(rustc_hir::def_id::LOCAL_CRATE).as_u64());
        let fname = format!("{}/{}-{}-{}.json", out_dir, krate, ctype.replace(|c: char| !c.is_alphanumeric(), ""), tag);
        let _ = std::fs::create_dir_all(&out_dir);
        std::fs::write(&fname, out).expect("write facts");
        eprintln!("mirfacts: {} fns -> {}", nfn, fname);
        rustc_driver::Compilation::Continue
    }
}

fn main() {
    // RUSTC_WORKSPACE_WRAPPER: argv[1] is the real rustc path
    let mut args: Vec<String> = vec!["rustc".to_string()];
    args.extend(std::env::args().skip(2));
    let mut cb = Cb;
    rustc_driver::run_compiler(&args, &mut cb);
}
