#!/bin/bash
# run all quick checks in parallel, print the summary lines
cd /verif
for p in C01 C02 C03 C04 C05 C06 C07 C08 C09 C10 C11 C12 C13 C14 C16 C17 C18 C19 C20; do
  ( bin/check $p --quick > /tmp/q-$p.log 2>&1; echo "$p rc=$? $(tail -1 /tmp/q-$p.log | cut -c1-150)" ) &
done
wait
