#!/bin/bash
# tools/verify_seeded.sh <Cxx> : re-confirm every mutation under /tmp/wt/out/<Cxx>/<n> in the scratch worktree /tmp/wt/<Cxx>
# (tests pass with the patch, demo fails with it, demo passes without it) and copy confirmed ones to /verif/seeded/<Cxx>-<n>/
P=$1
WT=/tmp/wt/$P
cd $WT || exit 2
for d in /tmp/wt/out/$P/*/; do
  n=$(basename $d)
  [ -f $d/patch.diff ] || continue
  git checkout -q -- . ; git clean -fdq -e target
  if ! git apply $d/patch.diff; then echo "$P-$n: PATCH DOES NOT APPLY"; continue; fi
  tests=$(cargo test --workspace --offline 2>&1 | grep -E "^test result" | awk '{p+=$4; f+=$6} END {print p" passed "f" failed"}')
  if [ -f $d/demo.sh ]; then
    bash $d/demo.sh >/tmp/wt/out/$P/$n/with.log 2>&1; with=$?
    git checkout -q -- . ; git clean -fdq -e target
    bash $d/demo.sh >/tmp/wt/out/$P/$n/without.log 2>&1; without=$?
  else
    with=NA; without=NA; git checkout -q -- .
  fi
  echo "$P-$n: tests[$tests] demo_with_patch=$with demo_without_patch=$without"
  if [[ "$tests" == *" 0 failed" && "$with" != "0" && "$with" != "NA" && "$without" == "0" ]]; then
    mkdir -p /verif/seeded/$P-$n
    cp $d/patch.diff $d/meta.json /verif/seeded/$P-$n/ 2>/dev/null
    cp $d/demo.sh /verif/seeded/$P-$n/ 2>/dev/null
    python3 - "$P" "$n" "$tests" "$with" "$without" <<'PY'
import json,sys
P,n,tests,w,wo=sys.argv[1:]
p='/verif/seeded/%s-%s/meta.json'%(P,n)
try: m=json.load(open(p))
except Exception: m={}
m['confirmed_by_framework_author']={'worktree':'/tmp/wt/%s at pinned commit'%P,'cargo_test_with_patch':tests,'demo_exit_with_patch':int(w),'demo_exit_without_patch':int(wo),'commands':['git apply patch.diff','cargo test --workspace --offline','bash demo.sh','git checkout -- .','bash demo.sh']}
json.dump(m,open(p,'w'),indent=1)
PY
  fi
done
git checkout -q -- . ; git clean -fdq -e target
