#!/usr/bin/env python3
"""tools/run_seeded.py [Cxx-n ...]  : apply each seeded mutation to a scratch copy of /repo's current tree and run the
checks (the mutation's own property first, then all others); prints which checks fire.  Developer tool.
OWN=1: only the mutation's own property.  JOBS=n: n mutations at a time, each worker with its own MIR cache
(/verif/.cache/w<i>, seeded with a copy of the shared cargo target directory)."""
import json, os, shutil, subprocess, sys, tempfile, glob, threading, queue
from concurrent.futures import ThreadPoolExecutor
VERIF = os.path.dirname(os.path.dirname(os.path.abspath(__file__)))
man = json.load(open(os.path.join(VERIF, "MANIFEST.json")))
claimed = [c["property_id"] for c in man["checks"]]
names = sys.argv[1:] or sorted(os.path.basename(d) for d in glob.glob(os.path.join(VERIF, "seeded", "C*-*")))
only_own = os.environ.get("OWN") == "1"
JOBS = int(os.environ.get("JOBS", "1"))
caches = queue.Queue()
for i in range(JOBS):
    if JOBS == 1:
        caches.put(os.path.join(VERIF, ".cache"))
    else:
        c = os.path.join(VERIF, ".cache", "w%d" % i)
        if not os.path.exists(os.path.join(c, "target")) and os.path.exists(os.path.join(VERIF, ".cache", "target")):
            os.makedirs(c, exist_ok=True)
            subprocess.check_call(["cp", "-r", os.path.join(VERIF, ".cache", "target"), os.path.join(c, "target")])
        caches.put(c)


def one(name):
    d = os.path.join(VERIF, "seeded", name)
    patch = os.path.join(d, "patch.current.diff") if os.path.exists(os.path.join(d, "patch.current.diff")) else os.path.join(d, "patch.diff")
    tmp = tempfile.mkdtemp(prefix="vseed-", dir="/tmp")
    etmp = tempfile.mkdtemp(prefix="vseedev-", dir="/tmp")
    cache = caches.get()
    try:
        subprocess.check_call(["rsync", "-a", "--exclude", "target", "--exclude", ".git", "/repo/", tmp + "/"])
        r = subprocess.run(["patch", "-p1", "--no-backup-if-mismatch", "-s", "-i", patch], cwd=tmp, capture_output=True, text=True)
        if r.returncode != 0:
            return "%s: PATCH DOES NOT APPLY to the current tree (%s)" % (name, (r.stdout + r.stderr).strip().splitlines()[:2])
        own = name.split("-")[0]
        order = [own] + ([] if only_own else [p for p in claimed if p != own])
        fired = []
        for pid in order:
            if pid not in claimed:
                continue
            env = dict(os.environ, VERIF_REPO=tmp, VERIF_CACHE=cache, VERIF_EVIDENCE_DIR=etmp)
            rr = subprocess.run([os.path.join(VERIF, "bin/check"), pid, "--quick"], env=env, capture_output=True, text=True)
            if rr.returncode != 0:
                keys = [l.strip()[len("construct: "):] for l in rr.stdout.splitlines() if l.strip().startswith("construct:")]
                fired.append((pid, keys[:3]))
        return "%s: %s" % (name, "CAUGHT by " + "; ".join("%s %s" % (p, k) for p, k in fired) if fired else "MISSED")
    finally:
        caches.put(cache)
        shutil.rmtree(tmp, ignore_errors=True)
        shutil.rmtree(etmp, ignore_errors=True)


with ThreadPoolExecutor(max_workers=JOBS) as ex:
    for line in ex.map(one, names):
        print(line, flush=True)
