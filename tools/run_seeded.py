#!/usr/bin/env python3
"""tools/run_seeded.py [Cxx-n ...]  : apply each seeded mutation to a scratch copy of /repo's current tree and run the
checks (the mutation's own property first, then all others); prints which checks fire.  Developer tool."""
import json, os, shutil, subprocess, sys, tempfile, glob
VERIF = os.path.dirname(os.path.dirname(os.path.abspath(__file__)))
man = json.load(open(os.path.join(VERIF, "MANIFEST.json")))
claimed = [c["property_id"] for c in man["checks"]]
names = sys.argv[1:] or sorted(os.path.basename(d) for d in glob.glob(os.path.join(VERIF, "seeded", "C*-*")))
only_own = os.environ.get("OWN") == "1"
for name in names:
    d = os.path.join(VERIF, "seeded", name)
    patch = os.path.join(d, "patch.current.diff") if os.path.exists(os.path.join(d, "patch.current.diff")) else os.path.join(d, "patch.diff")
    tmp = tempfile.mkdtemp(prefix="vseed-", dir="/tmp")
    etmp = tempfile.mkdtemp(prefix="vseedev-", dir="/tmp")
    try:
        subprocess.check_call(["rsync", "-a", "--exclude", "target", "--exclude", ".git", "/repo/", tmp + "/"])
        r = subprocess.run(["patch", "-p1", "--no-backup-if-mismatch", "-s", "-i", patch], cwd=tmp, capture_output=True, text=True)
        if r.returncode != 0:
            print("%s: PATCH DOES NOT APPLY to the current tree (%s)" % (name, (r.stdout + r.stderr).strip().splitlines()[:2]))
            continue
        own = name.split("-")[0]
        order = [own] + ([] if only_own else [p for p in claimed if p != own])
        fired = []
        for pid in order:
            if pid not in claimed:
                continue
            env = dict(os.environ, VERIF_REPO=tmp, VERIF_CACHE=os.path.join(VERIF, ".cache"), VERIF_EVIDENCE_DIR=etmp)
            rr = subprocess.run([os.path.join(VERIF, "bin/check"), pid, "--quick"], env=env, capture_output=True, text=True)
            if rr.returncode != 0:
                keys = [l.strip()[len("construct: "):] for l in rr.stdout.splitlines() if l.strip().startswith("construct:")]
                fired.append((pid, keys[:3]))
        print("%s: %s" % (name, "CAUGHT by " + "; ".join("%s %s" % (p, k) for p, k in fired) if fired else "MISSED"))
    finally:
        shutil.rmtree(tmp, ignore_errors=True)
        shutil.rmtree(etmp, ignore_errors=True)
