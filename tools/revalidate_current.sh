#!/bin/bash
# tools/revalidate_current.sh : in the scratch worktree /tmp/wt/cur (current /repo HEAD) apply each seeded patch and run its
# demo.sh again: does the mutation still break the behaviour on the tree with the fix: commits?
cd /tmp/wt/cur || exit 2
for d in /verif/seeded/C*-*/; do
  n=$(basename $d)
  [ -f $d/demo.sh ] || continue
  p=$d/patch.current.diff; [ -f $p ] || p=$d/patch.diff
  git checkout -q -- . ; git clean -fdq -e target
  if ! patch -p1 -s --no-backup-if-mismatch -i $p >/dev/null 2>&1; then echo "$n: patch does not apply"; git checkout -q -- .; continue; fi
  timeout 600 bash $d/demo.sh >/tmp/wt/reval-$n.log 2>&1; rc=$?
  echo "$n: demo_exit_with_patch_on_current_tree=$rc"
done
git checkout -q -- . ; git clean -fdq -e target
