#!/usr/bin/env python3
"""tools/run_benign.py [names]: apply each behaviour-preserving refactoring under /verif/benign/<Gx-n>/patch.diff to a
scratch copy of /repo's current tree and run ALL quick checks: every alarm is a false alarm of the checker."""
import glob, json, os, shutil, subprocess, sys, tempfile
from concurrent.futures import ThreadPoolExecutor
VERIF = os.path.dirname(os.path.dirname(os.path.abspath(__file__)))
man = json.load(open(os.path.join(VERIF, "MANIFEST.json")))
claimed = [c["property_id"] for c in man["checks"]]
names = sys.argv[1:] or sorted(os.path.basename(d) for d in glob.glob(os.path.join(VERIF, "benign", "*-*")))
mir_props = ["C01", "C17"]  # SKIP_MIR=1: these are skipped; MIR-based rules of other properties are switched off (VERIF_SKIP_MIR_RULES)

import queue
JOBS = int(os.environ.get("JOBS", "4"))
caches = queue.Queue()
for i in range(JOBS):
    c = os.path.join(VERIF, ".cache", "w%d" % i)
    if os.environ.get("SKIP_MIR") != "1" and not os.path.exists(os.path.join(c, "target")) and os.path.exists(os.path.join(VERIF, ".cache", "target")):
        os.makedirs(c, exist_ok=True)
        subprocess.check_call(["cp", "-r", os.path.join(VERIF, ".cache", "target"), os.path.join(c, "target")])
    caches.put(c)


def one(name):
    cache = caches.get()
    try:
        return one_(name, cache)
    finally:
        caches.put(cache)


def one_(name, cache):
    d = os.path.join(VERIF, "benign", name)
    tmp = tempfile.mkdtemp(prefix="vben-", dir="/tmp")
    etmp = tempfile.mkdtemp(prefix="vbenev-", dir="/tmp")
    try:
        subprocess.check_call(["rsync", "-a", "--exclude", "target", "--exclude", ".git", "/repo/", tmp + "/"])
        pf = os.path.join(d, "patch.current.diff") if os.path.exists(os.path.join(d, "patch.current.diff")) else os.path.join(d, "patch.diff")  # re-expressed when a fix: commit touched the same lines
        r = subprocess.run(["patch", "-p1", "--no-backup-if-mismatch", "-s", "-i", pf], cwd=tmp, capture_output=True, text=True)
        if r.returncode != 0:
            return name, "PATCH DOES NOT APPLY", []
        alarms = []
        for pid in claimed:
            if os.environ.get("SKIP_MIR") == "1" and pid in mir_props:
                continue
            if os.environ.get("ONLY") and pid not in os.environ["ONLY"].split(","):
                continue
            env = dict(os.environ, VERIF_REPO=tmp, VERIF_EVIDENCE_DIR=etmp, VERIF_CACHE=cache)
            if os.environ.get("SKIP_MIR") == "1":
                env["VERIF_SKIP_MIR_RULES"] = "1"
            rr = subprocess.run([os.path.join(VERIF, "bin/check"), pid, "--quick"], env=env, capture_output=True, text=True)
            if rr.returncode != 0:
                keys = [l.strip()[len("construct: "):] for l in rr.stdout.splitlines() if l.strip().startswith("construct:")]
                alarms.append((pid, keys[:6] or [rr.stdout[-300:] + rr.stderr[-300:]]))
        return name, "ok" if not alarms else "FALSE ALARM", alarms
    finally:
        shutil.rmtree(tmp, ignore_errors=True); shutil.rmtree(etmp, ignore_errors=True)

tot = fa = 0
with ThreadPoolExecutor(max_workers=JOBS) as ex:
    for name, status, alarms in ex.map(one, names):
        tot += 1
        if alarms: fa += 1
        print("%s: %s" % (name, status))
        for pid, keys in alarms:
            for k in keys:
                print("      %s  %s" % (pid, k))
print("%d refactorings, %d with false alarms" % (tot, fa))
