#!/usr/bin/env python3
"""tools/verify_seeded_test.py <Cxx> : like verify_seeded.sh but for demonstrations given as demo_test.rs
(a #[test] to paste into an existing test module)."""
import json, os, re, shutil, subprocess, sys
P = sys.argv[1]
WT = "/tmp/wt/" + P
PKG = {"program_structure_tests": "circomspect-program-structure-tests", "circom_algebra": "circomspect-circom-algebra", "parser": "circomspect-parser",
       "program_analysis": "circomspect-program-analysis", "program_structure": "circomspect-program-structure", "cli": "circomspect"}

def sh(cmd, **kw):
    return subprocess.run(cmd, shell=True, cwd=WT, capture_output=True, text=True, **kw)

def clean():
    sh("git checkout -q -- . && git clean -fdq -e target")

def inject(demo):
    src = open(demo).read()
    m = re.search(r"([\w/]+\.rs)", "\n".join(l for l in src.splitlines() if l.lstrip().startswith("//")))
    target = m.group(1)
    path = os.path.join(WT, target)
    body = open(path).read()
    head = "\n".join(l for l in src.splitlines()[:12])
    inside = re.search(r"mod tests\s*\{", body) is not None and (re.search(r"`tests` module|tests module|mod tests", head) is not None or "mod tests" in "\n".join(l for l in src.splitlines()[:12]) or src.lstrip().startswith("//") and src.split("#[test]")[0].count("    ") and re.search(r"^    #\[test\]", src, re.M))
    if inside:
        idx = body.rstrip().rfind("}")
        body = body[:idx] + "\n" + src + "\n}\n"
    else:
        body = body + "\n" + src + "\n"
    open(path, "w").write(body)
    names = re.findall(r"#\[test\]\s*(?:#\[[^\]]*\]\s*)*fn\s+(\w+)", src)
    return target, names

def run_demo(demo):
    target, names = inject(demo)
    pkg = PKG[target.split("/")[0]]
    # common prefix of the test names
    pref = os.path.commonprefix(names) if names else ""
    r = sh("cargo test --offline -p %s %s 2>&1 | tail -30" % (pkg, pref))
    out = r.stdout
    m = re.findall(r"test result: (\w+)\. (\d+) passed; (\d+) failed", out)
    ran = sum(int(a) + int(b) for _, a, b in m)
    failed = sum(int(b) for _, a, b in m)
    if "error" in out and "could not compile" in out:
        return "compile-error", out[-600:]
    if ran == 0:
        return "no-test-ran", out[-400:]
    return ("fail" if failed else "pass"), ""

for n in sorted(os.listdir("/tmp/wt/out/" + P)):
    d = "/tmp/wt/out/%s/%s" % (P, n)
    demo = os.path.join(d, "demo_test.rs")
    if not os.path.isfile(demo) or not os.path.isfile(os.path.join(d, "patch.diff")):
        continue
    clean()
    if sh("git apply %s/patch.diff" % d).returncode != 0:
        print("%s-%s: PATCH DOES NOT APPLY" % (P, n)); continue
    t = sh("cargo test --workspace --offline 2>&1 | grep -E '^test result'").stdout
    passed = sum(int(x) for x in re.findall(r"(\d+) passed", t)); failed = sum(int(x) for x in re.findall(r"(\d+) failed", t))
    w, wlog = run_demo(demo)
    clean()
    wo, wolog = run_demo(demo)
    clean()
    print("%s-%s: tests[%d passed %d failed] demo_with_patch=%s demo_without_patch=%s %s" % (P, n, passed, failed, w, wo, (wlog or wolog).replace("\n", " | ")[:300]))
    if failed == 0 and passed >= 54 and w == "fail" and wo == "pass":
        dst = "/verif/seeded/%s-%s" % (P, n)
        os.makedirs(dst, exist_ok=True)
        for f in ("patch.diff", "demo_test.rs", "meta.json"):
            if os.path.exists(os.path.join(d, f)):
                shutil.copy(os.path.join(d, f), dst)
        try:
            meta = json.load(open(os.path.join(dst, "meta.json")))
        except Exception:
            meta = {}
        meta["confirmed_by_framework_author"] = {"worktree": WT + " at pinned commit", "cargo_test_with_patch": "%d passed %d failed" % (passed, failed), "demo_with_patch": w, "demo_without_patch": wo,
            "commands": ["git apply patch.diff", "cargo test --workspace --offline", "paste demo_test.rs into the module named in its header; cargo test -p <pkg> <demo name>", "git checkout -- .", "same demo again"]}
        json.dump(meta, open(os.path.join(dst, "meta.json"), "w"), indent=1)
clean()
