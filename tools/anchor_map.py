#!/usr/bin/env python3
"""tools/anchor_map.py: which functions do the rules anchor obligations in, and which of them has no benign refactoring
touched yet?  (sites of all obligations of all properties -> enclosing function; hunks of benign patches -> functions)"""
import glob, importlib, json, os, re, sys, collections
VERIF = os.path.dirname(os.path.dirname(os.path.abspath(__file__)))
sys.path.insert(0, os.path.join(VERIF, "rules"))
import core, facts
from astlib import fns_in_file

ast = facts.ast()
starts = {}
for f in ast:
    L = []
    for q, fn in fns_in_file(f):
        if fn.get("line"):
            L.append((fn["line"], "%s::%s" % (q, fn["name"]) if q else fn["name"]))
    starts[f] = sorted(L)

def enclosing(f, line):
    best = None
    for s, name in starts.get(f, []):
        if s <= line:
            best = name
    return best

anchors = collections.defaultdict(set)  # (file, fn) -> props
counts = collections.Counter()
man = json.load(open(os.path.join(VERIF, "MANIFEST.json")))
for c in man["checks"]:
    pid = c["property_id"]
    if os.environ.get("SKIP_MIR") == "1" and "mirfacts" in c.get("engine", ""):
        continue
    mod = importlib.import_module(pid.lower())
    ctx = core.Ctx(pid, "quick")
    try:
        mod.run(ctx)
    except Exception as e:
        print("!!", pid, e)
    for o in ctx.obs:
        if o.site and isinstance(o.site, (tuple, list)) and len(o.site) >= 2 and o.site[1]:
            f, line = o.site[0], o.site[1]
            if f.endswith(".rs"):
                fn = enclosing(f, int(line))
                if fn:
                    anchors[(f, fn)].add(pid)
                    counts[(f, fn)] += 1

touched = collections.defaultdict(set)
for d in sorted(glob.glob(os.path.join(VERIF, "benign", "*-*"))):
    name = os.path.basename(d)
    cur = None
    for ln in open(os.path.join(d, "patch.diff"), encoding="utf-8", errors="replace"):
        m = re.match(r"--- a/(.*)", ln)
        if m:
            cur = m.group(1).strip()
        m = re.match(r"@@ -(\d+)(?:,(\d+))? ", ln)
        if m and cur:
            a, n = int(m.group(1)), int(m.group(2) or 1)
            for line in range(a + 3, a + max(n - 3, 1) + 1):
                fn = enclosing(cur, line)
                if fn:
                    touched[(cur, fn)].add(name)
un = sorted(k for k in anchors if k not in touched)
print("%d anchor functions, %d touched by a benign refactoring, %d untouched" % (len(anchors), len([k for k in anchors if k in touched]), len(un)))
for f, fn in un:
    print("  %s :: %s   [%s]" % (f, fn, ",".join(sorted(anchors[(f, fn)]))))

if os.environ.get("TOP"):
    print("--- anchor functions by number of obligations")
    for (f, fn), c in counts.most_common(int(os.environ["TOP"])):
        print("  %s :: %s   [%d obligations; %s; touched by %d]" % (f, fn, c, ",".join(sorted(anchors[(f, fn)])), len(touched.get((f, fn), ()))))
