#!/usr/bin/env python3
"""tools/port_seeded.py <Cxx-n> <file> <old> <new> [...]: write seeded/<Cxx-n>/patch.current.diff = the same mutation
re-expressed on /repo's current tree (used when the original patch.diff, made against the pinned commit, no longer applies
because a fix: commit touched the same lines)."""
import os, shutil, subprocess, sys, tempfile
name = sys.argv[1]; edits = sys.argv[2:]
tmp = tempfile.mkdtemp(prefix="vport-", dir="/tmp")
try:
    a, b = os.path.join(tmp, "a"), os.path.join(tmp, "b")
    files = sorted({edits[i] for i in range(0, len(edits), 3)})
    for f in files:
        for d in (a, b):
            os.makedirs(os.path.dirname(os.path.join(d, f)), exist_ok=True)
            shutil.copy(os.path.join("/repo", f), os.path.join(d, f))
    for i in range(0, len(edits), 3):
        f, old, new = edits[i:i+3]
        p = os.path.join(b, f); s = open(p).read()
        assert s.count(old) == 1, (f, old, s.count(old))
        open(p, "w").write(s.replace(old, new))
    out = subprocess.run(["diff", "-ruN", "a", "b"], cwd=tmp, capture_output=True, text=True).stdout
    dst = os.path.join(os.path.dirname(os.path.dirname(os.path.abspath(__file__))), "seeded", name, "patch.current.diff")
    open(dst, "w").write(out)
    print("wrote", dst, len(out.splitlines()), "lines")
finally:
    shutil.rmtree(tmp, ignore_errors=True)
