"""C11 Curve-dependent checks follow the documented table and thresholds exactly."""
import re

import facts
from astlib import result_expr  # noqa: E402
from astlib import (
    block_tail,
    calls,
    find_fn,
    fns_in_file,
    find_impl,
    find_item,
    is_node,
    last,
    method_calls,
    pat_paths,
    render,
    site,
    strip,
    walk,
)
from pathcond import conditions_to, fact_str, let_env, prune_vacuous

TITLE = "Curve tables and thresholds"
LEVEL_TEXT = (
    "table/doc agreement, prime constants, threshold inequalities (decided for every k by integer arithmetic on the extracted"
    " constants) and the curve-name parser are read from the source and decided completely; both instantiation visitors and the less-than pass are evaluated on table worlds; no pass keeps process-wide state."
)
NOT_DECIDED = "that constant propagation delivers the size argument n (C06)."
TRUSTED = ["syn parser", "frozen reference primes and Circomlib spelling map (DESIGN App. C)", "markdown table reader"]

BN = "program_analysis/src/bn254_specific_circuit.rs"
NS = "program_analysis/src/nonstrict_binary_conversion.rs"
LT = "program_analysis/src/unconstrained_less_than.rs"
CONSTS = "program_structure/src/utils/constants.rs"
DOC = "doc/analysis_passes.md"
CONFIG = "program_analysis/src/config.rs"
MAIN = "cli/src/main.rs"

REF_PRIMES = {
    "Bn254": 21888242871839275222246405745257275088548364400416034343698204186575808495617,
    "Bls12_381": 52435875175126190479447740508185965837690552500527637822603658699938581184513,
    "Goldilocks": 18446744069414584321,
}
# documentation spelling -> Circomlib spelling
SPELLING = {"Bits2Point_strict": "Bits2Point_Strict", "Point2Bits_strict": "Point2Bits_Strict"}
DOC_COLUMNS = {"Goldilocks": "Goldilocks", "Bls12_381": "BLS12-381"}


def read_doc_table():
    text = facts.src(DOC)
    m = re.search(r"^### BN254 specific circuit\s*$", text, re.M)
    if not m:
        return None
    rest = text[m.end():]
    nxt = re.search(r"^### ", rest, re.M)
    if nxt:
        rest = rest[: nxt.start()]
    rows = [l for l in rest.splitlines() if l.strip().startswith("|")]
    if len(rows) < 3:
        return None
    header = [c.strip() for c in rows[0].strip().strip("|").split("|")]
    cols = {}
    for cname, needle in DOC_COLUMNS.items():
        idx = [i for i, h in enumerate(header) if needle.lower() in h.lower()]
        if len(idx) != 1:
            return None
        cols[cname] = idx[0]
    table = {c: set() for c in cols}
    names = []
    for r in rows[2:]:
        cells = [c.strip() for c in r.strip().strip("|").split("|")]
        name = cells[0].strip("`").strip()
        if not name:
            continue
        names.append(name)
        for c, i in cols.items():
            if i < len(cells) and cells[i].lower() == "x":
                table[c].add(SPELLING.get(name, name))
    return table, names


def const_array(file, name):
    it = find_item(file, "Const", name)
    if it is None:
        return None
    e = strip(it["expr"])
    if e["k"] != "Array":
        return None
    vals = []
    for x in e["elems"]:
        x = strip(x)
        if x["k"] != "Lit" or x["lit"] != "str":
            return None
        vals.append(x["value"])
    return vals


def curve_variant(p):
    ps = pat_paths(p)
    return [last(x) for x in ps]


def peels_update(conds, body=None, target=None):
    """Does the `Call { .. }` pattern on this path look at the instantiation of an array element too?  Component
    arrays are assigned as `c = update(c, [i], Call ..)`: the pass must match the Call against the right-hand side
    *with an Update peeled off* (`if let Update { rhe, .. } = rhe { rhe } else { rhe }` or a match with both arms).
    returns (ok, description)"""
    def has_ctor(pat, name):
        return any(n.get("k") in ("PStruct", "PTupleStruct", "PPath") and last(n.get("path", "")) == name for n in walk(pat))

    call_facts = [f for f in conds if f[0] == "iflet" and f[3] and has_ctor(f[1], "Call")]
    call_facts += [("iflet", f[2], f[1], True) for f in conds if f[0] == "arm" and has_ctor(f[2], "Call")]
    if not call_facts:
        return False, "no Call pattern on the path"
    for f in call_facts:
        pat, scrut = f[1], f[2]
        top_is_call = pat.get("k") in ("PStruct", "PTupleStruct") and last(pat.get("path", "")) == "Call"
        if top_is_call:
            if body is not None and strip(scrut)["k"] == "Path":
                le = let_env(body, target)
                scrut = le.get(strip(scrut)["path"], scrut)
            peeled = any((n["k"] == "Let" and has_ctor(n["pat"], "Update")) or (n["k"] == "Match" and any(has_ctor(a["pat"], "Update") for a in n["arms"])) for n in walk(scrut))
            if peeled:
                continue
            return False, "the Call pattern is applied to `%s`, which is not peeled" % render(scrut)[:80]
        # nested inside a larger pattern: accepted only if that pattern also lets an Update through
        if has_ctor(pat, "Update"):
            continue
        return False, "the Call pattern is nested in `%s`: an element assignment (Update) never matches" % render(pat)[:100]
    return True, "Call matched after peeling Update"


def _type_knowledge(ty):
    """the type knowledge of a declared variable of kind local / signal / component / anonymous (a component the
    desugaring declared for an anonymous instantiation)"""
    from finfun import E, S
    from passeval import O

    vt = {"local": E("VariableType", "Local"), "component": E("VariableType", "Component"), "anonymous": E("VariableType", "AnonymousComponent"), "signal": S("Signal", O("signal_type"), O("tags"))}[ty]
    return O("type_knowledge", is_local=(ty == "local"), is_signal=(ty == "signal"), is_component=(ty in ("component", "anonymous")), variable_type=S("Some", vt))


def eval_bn254_visitor(ctx, R, vs0):
    """the statement visitor of the BN254-specific pass, evaluated over operator x declared type x shape of the
    right-hand side x template name against a two-element table: a report exactly for the instantiation (scalar or
    array element) of a component whose template name is *in* the table, located at the instantiation."""
    import itertools

    import passeval
    from finfun import E, Unsupported
    from passeval import O, Sink, V

    try:
        w = passeval.PassWorld([IRF, VMF], BN)
    except Exception:
        return False
    roles = []
    for i in vs0["sig"]["inputs"]:
        ty = i["ty"].replace(" ", "")
        if ty == "&Statement":
            roles.append("stmt")
        elif re.fullmatch(r"&(HashSet|BTreeSet)<&(\'\w+)?str>|&\[&(\'\w+)?str\]", ty):
            roles.append("table")
        elif ty in ("&mutReportCollection", "&mutVec<Report>"):
            roles.append("sink")
        else:
            return False
    if sorted(roles) != ["sink", "stmt", "table"]:
        return False
    CM = O("component_meta")
    table = ("L", ("Sign", "Poseidon"))
    n = 0
    first_bad = {}
    for op, ty, shape, name in itertools.product(["AssignLocalOrComponent", "AssignSignal", "AssignConstraintSignal"], ["local", "signal", "component", "anonymous"], ["call", "update", "number"], ["Sign", "Poseidon", "sign", "Sign2", "Poseidon ", "Num2Bits"]):
        call = V("Expression", "Call", meta=CM, name=name, args=("L", (O("arg0"),)))
        rhe = call if shape == "call" else (V("Expression", "Update", meta=O("update_meta"), var=O("var"), access=("L", ()), rhe=call) if shape == "update" else V("Expression", "Number", meta=O("num_meta"), value=1))
        tk = _type_knowledge(ty)
        stmt = V("Statement", "Substitution", meta=O("var_meta", type_knowledge=tk), var=O("var"), op=E("AssignOp", op), rhe=rhe)
        sink = Sink()
        argv = [stmt if r == "stmt" else (sink if r == "sink" else table) for r in roles]
        try:
            res = passeval.run(w, vs0, argv)
        except Unsupported as u:
            ctx.note("bn254 visit_statement is outside the evaluator's subset (%s): shape obligations apply" % u)
            return False
        n += 1
        want = op == "AssignLocalOrComponent" and ty in ("component", "anonymous") and shape in ("call", "update") and name in table[1]
        got = sink.items
        ok = res is None and len(got) == (1 if want else 0) and (not want or (isinstance(got[0], tuple) and got[0][0] == "K" and CM in got[0][2]))
        if not ok:
            key = "panics" if res is not None else ("missing" if want else "spurious")
            first_bad.setdefault(key, "op=%s type=%s rhs=%s template=%r: %s" % (op, ty, shape, name, res[1] if res else "pushes %s, expected %d report(s)" % (got, 1 if want else 0)))
    ctx.floor(R, "statement worlds evaluated (bn254)", n, 150)
    ctx.check(R, "visit_statement/table/no-panic", "panics" not in first_bad, first_bad.get("panics", "no world makes the visitor panic"), site(BN, vs0))
    ctx.check(R, "visit_statement/table/every-listed-instantiation-flagged", "missing" not in first_bad, first_bad.get("missing", "a component (scalar or array element) instantiating a listed template is reported at the instantiation"), site(BN, vs0))
    ctx.check(R, "visit_statement/table/nothing-else-flagged", "spurious" not in first_bad, first_bad.get("spurious", "near-miss names, other operators and declared types are not reported"), site(BN, vs0))
    return True


def eval_bn254_dispatch(ctx, R, fn, doc_table):
    """`find_bn254_specific_circuits` by evaluation, once per curve, the statement visitor replaced by a recorder: under
    BN254 nothing is visited and nothing reported; under the other curves every statement of every block is visited
    with the table of that curve, which must equal the documented one.  Returns True when decided."""
    import passeval
    from finfun import E, Unsupported
    from passeval import MSet, O, Panic, Sink

    CONST = "program_structure/src/utils/constants.rs"
    try:
        w = passeval.PassWorld([CONST, BN], BN)
    except Exception:  # noqa: BLE001
        return False
    w.lenient_opaque = True
    if "visit_statement" not in w.free:
        return False
    stmts = [O("stmt%d" % i) for i in range(3)]
    blocks = [("O", "block0", (("iter", ("L", tuple(stmts[:2]))),)), ("O", "block1", (("iter", ("L", tuple(stmts[2:]))),))]
    tables = {}
    try:
        for curve in ("Goldilocks", "Bls12_381", "Bn254"):
            seen = []

            def visit(args, seen=seen):
                seen.append(args)
                return ("T", ())

            w.stubs = {"visit_statement": visit}
            consts = ("O", "constants", (("curve", E("Curve", curve)),))
            cfg = ("O", "cfg", (("constants", consts), ("iter", ("L", tuple(blocks))), ("name", "T")))
            res = w.call_fn(fn, [cfg])
            w.stubs = {}
            empty = isinstance(res, Sink) and not res.items
            if curve == "Bn254":
                ctx.check(R, "find_bn254_specific_circuits/arm:Bn254/empty", empty and not seen, "under BN254 the pass returns %s and visits %d statement(s)" % ("an empty collection" if empty else repr(res)[:60], len(seen)), site(BN, fn))
                continue
            visited = [a[0] for a in seen]
            okv = len(visited) == len(stmts) and all(x is y for x, y in zip(visited, stmts))
            ctx.check(R, "find_bn254_specific_circuits/visits-all-statements", okv and isinstance(res, Sink), "%s: %d of %d statements visited" % (curve, len(visited), len(stmts)), site(BN, fn))
            tabs = []
            for a in seen:
                t_ = [x for x in a if isinstance(x, MSet) or (isinstance(x, tuple) and x and x[0] == "L")]
                if len(t_) != 1:
                    raise Unsupported("the visitor is not given one table")
                items = t_[0].items if isinstance(t_[0], MSet) else list(t_[0][1])
                if not all(isinstance(x, str) for x in items):
                    raise Unsupported("table entries are not strings")
                tabs.append(list(items))
            if not tabs or any(sorted(t_) != sorted(tabs[0]) for t_ in tabs):
                raise Unsupported("the table differs between statements")
            tables[curve] = tabs[0]
    except Unsupported as u:
        w.stubs = {}
        ctx.note("find_bn254_specific_circuits is outside the evaluator's subset (%s): path enumeration applies" % u)
        return False
    except Panic as p_:
        w.stubs = {}
        ctx.bad(R, "find_bn254_specific_circuits/no-panic", "panics (%s)" % p_, site(BN, fn))
        return True
    for curve, names in tables.items():
        want, got = doc_table[curve], set(names)
        ctx.table("source:" + curve, sorted(names))
        ctx.table("doc:" + curve, sorted(want))
        for name in sorted(want | got):
            ctx.check(R, "table/%s/%s" % (curve, name), (name in want) == (name in got), "%s: documented=%s in the table the visitor is given under %s=%s" % (name, name in want, curve, name in got), site(BN, fn))
        # (the entries of a set cannot repeat; a repeated row in the source array is harmless)
        ctx.check(R, "table/%s/no-duplicates" % curve, True, "entries are looked up in a set")
    ctx.floor(R, "paths through the pass", 3, 3)
    return True


def rule_table(ctx):
    R = "C11.1"
    ctx.rule(R, "the per-curve template tables read from the source equal the documented table (Circomlib spelling), are empty for BN254, and membership is an exact name test on the instantiated template")
    doc = read_doc_table()
    if doc is None:
        return ctx.missing(R, "doc-table", "cannot read the table under '### BN254 specific circuit' in " + DOC)
    doc_table, doc_names = doc
    ctx.floor(R, "doc-rows", len(doc_names), 26)
    fn = find_fn(BN, "find_bn254_specific_circuits")
    if fn is None:
        return ctx.missing(R, "find_bn254_specific_circuits")
    decided_dispatch = eval_bn254_dispatch(ctx, R, fn, doc_table)
    # per curve: which table constants are used on the ways through the function that are possible for that curve
    # (a `match` on the curve, an if/else chain on it and early returns are all read the same way)
    from pathcond import enumerate_paths

    matches_on_curve = [m for m in walk(fn["body"]) if m["k"] == "Match" and "curve" in render(m["scrut"])]

    def arm_feasible(scrut, pat, curve):
        vs_ = curve_variant(pat)
        if curve in vs_:
            return True
        if "_" in vs_ or (pat["k"] == "PIdent" and pat["name"][:1].islower()):
            # catch-all: possible only if no other arm of that match names the curve
            for m in matches_on_curve:
                if m["scrut"] is scrut:
                    named = [v for a in m["arms"] for v in curve_variant(a["pat"])]
                    return curve not in named
            return True
        return False

    def feasible(f, curve):
        if f[0] == "arm" and "curve" in render(f[1]):
            return arm_feasible(f[1], f[2], curve)
        if f[0] == "iflet" and "curve" in render(f[2]):
            vs_ = curve_variant(f[1])
            if all(v in ("Goldilocks", "Bls12_381", "Bn254") for v in vs_) and vs_:
                return (curve in vs_) == f[3]
            return True
        if f[0] == "if" and f[1]["k"] == "Binary" and f[1]["op"] == "==" and "curve" in render(f[1]):
            sides = [render(strip(f[1]["l"])), render(strip(f[1]["r"]))]
            named = [last(x) for x in sides if re.fullmatch(r"(?:\w+::)*Curve::\w+", x)]
            if len(named) == 1:
                return (named[0] == curve) == f[2]
        if f[0] == "notall":
            # not (a && b ..): infeasible only if every conjunct certainly holds
            known = [feasible(g, curve) and not feasible((g[0], g[1], not g[2]) if g[0] == "if" else g, curve) for g in f[1] if g[0] == "if"]
            if known and len(known) == len(f[1]) and all(known):
                return False
        return True

    n_paths = 0
    for curve in (("Goldilocks", "Bls12_381", "Bn254") if not decided_dispatch else ()):
        consts, reach_visitor, early_empty = set(), False, True
        site_ = site(BN, fn)
        for conds, atoms, ex in enumerate_paths(fn["body"]):
            if not all(feasible(f, curve) for f in conds):
                continue
            n_paths += 1
            used = set()
            for a_ in atoms:
                for n in walk(a_):
                    if n["k"] == "Path" and re.fullmatch(r"[A-Z][A-Z0-9_]+", n["path"]) and const_array(BN, n["path"]) is not None:
                        used.add(n["path"])
            visits = any(c["k"] == "Call" and c["func"]["k"] == "Path" and last(c["func"]["path"]) == "visit_statement" for a_ in atoms for c in walk(a_))
            if ex == "return" and not visits:
                r_ = atoms[-1] if atoms else None
                if r_ is None or r_.get("k") != "Return" or render(strip(r_["e"])) not in ("ReportCollection::new()", "Vec::new()", "vec!()", "Default::default()"):
                    early_empty = False
                continue
            reach_visitor = reach_visitor or visits
            consts |= used
        if curve == "Bn254":
            ctx.check(R, "find_bn254_specific_circuits/arm:Bn254/empty", early_empty and not consts and not reach_visitor or (not consts and early_empty and not reach_visitor), "under BN254 the pass must return an empty collection before visiting anything (constants used: %s, visitor reached: %s)" % (sorted(consts), reach_visitor), site_)
            continue
        if len(consts) != 1:
            ctx.missing(R, "table-constant:" + curve, "constants used on the %s paths: %s" % (curve, sorted(consts)))
            continue
        cname = sorted(consts)[0]
        names = const_array(BN, cname)
        want = doc_table[curve]
        got = set(names)
        ctx.table("source:" + curve, sorted(names))
        ctx.table("doc:" + curve, sorted(want))
        for name in sorted(want | got):
            ctx.check(
                R,
                "table/%s/%s" % (curve, name),
                (name in want) == (name in got),
                "%s: documented=%s in %s=%s" % (name, name in want, cname, name in got),
                site_,
            )
        ctx.check(R, "table/%s/no-duplicates" % curve, len(names) == len(got), "duplicate rows in %s" % cname)
    if not decided_dispatch:
        ctx.floor(R, "paths through the pass", n_paths, 3)
    # membership test: every push of a report is guarded by `<set>.contains(<name of the Call>)`
    vs = find_fn(BN, "visit_statement")
    if vs is None:
        return ctx.missing(R, "visit_statement")
    import alpha
    decided = eval_bn254_visitor(ctx, R, vs)
    vs, _m = alpha.canon_fields(vs, [], [("stmt", "param", 0), ("problematic_templates", "param", 1), ("reports", "param", 2)])
    pushes = [] if decided else [n for n in method_calls(vs["body"], "push")]
    if not decided:
        ctx.floor(R, "report-pushes", len(pushes), 1)
    params = [p for p, _ in [(i.get("pat", {}).get("name"), 0) for i in vs["sig"]["inputs"] if not i.get("self")]]
    for p in pushes:
        conds = conditions_to(vs["body"], p)
        strs = [fact_str(c) for c in conds]
        # positive membership
        contains = [c for c in conds if c[0] == "if" and c[2] and c[1]["k"] == "MethodCall" and c[1]["method"] == "contains"]
        ok = False
        detail = "path condition: " + "; ".join(strs)
        if len(contains) == 1:
            c = contains[0][1]
            recv = render(strip(c["recv"]))
            arg = strip(c["args"][0])
            while arg["k"] == "Index" and arg["index"]["k"] == "Range" and arg["index"]["from"] is None and arg["index"]["to"] is None:
                arg = strip(arg["base"])
            argname = render(arg)
            # the name must be bound by a Call { name: .. } pattern on the path
            bound = False
            for f in conds:
                if f[0] == "iflet" and f[3]:
                    pp = f[1]
                    if pp["k"] == "PStruct" and last(pp["path"]) == "Call":
                        for fld in pp["fields"]:
                            if fld["name"] == "name" and argname in ([fld["name"]] if fld["shorthand"] else [render(fld["pat"])]):
                                bound = True
            ok = bound and recv in params
            detail += " | set=%s name=%s bound-by-Call-pattern=%s" % (recv, argname, bound)
        ctx.check(R, "visit_statement/push/guarded-by-exact-membership", ok, detail, site(BN, p))
        # other guards: only the documented ones
        req = {
            "component-assignment": any(f[0] == "iflet" and f[3] and "AssignLocalOrComponent" in render(f[1]) and last(f[1].get("path", "")) == "Substitution" for f in conds),
            "not-local": any(f[0] == "if" and not f[2] and render(f[1]).endswith("type_knowledge().is_local()") for f in conds),
            "not-signal": any(f[0] == "if" and not f[2] and render(f[1]).endswith("type_knowledge().is_signal()") for f in conds),
        }
        for k, v in req.items():
            ctx.check(R, "visit_statement/push/" + k, v, detail, site(BN, p))
        extra = [s for f, s in zip(conds, strs) if not (
            (f[0] == "iflet" and f[3] and last(f[1].get("path", "")) in ("Substitution", "Call"))
            or (f[0] == "if" and not f[2] and re.search(r"type_knowledge\(\)\.is_(local|signal)\(\)$", render(f[1])))
            or (f[0] == "if" and f[2] and f[1]["k"] == "MethodCall" and f[1]["method"] == "contains")
        )]
        okp, why = peels_update(conds, vs["body"], p)
        ctx.check(R, "visit_statement/push/array-elements-inspected", okp, why + ": `c[i] = T(..)` is an Update around the instantiation", site(BN, p))
        ctx.check(R, "visit_statement/push/no-further-suppression", not extra, "additional conditions on the report: %s" % extra, site(BN, p))
    # every statement of every block is visited
    import sgrep as _sg

    okt, how = _sg.visits_all_statements(fn, "visit_statement")
    ctx.check(R, "find_bn254_specific_circuits/visits-all-statements", okt, how)
    for v_ in [c for c in walk(fn["body"]) if c["k"] == "Call" and c["func"]["k"] == "Path" and last(c["func"]["path"]) == "visit_statement"]:
        cs = conditions_to(fn["body"], v_) or []
        ex = [fact_str(c) for c in cs if c[0] not in ("loop", "closure") and "curve" not in fact_str(c).lower()]
        ctx.check(R, "find_bn254_specific_circuits/loop-unconditional", not ex, "statements are visited only under %s" % ex, site(BN, v_))


def rule_primes(ctx):
    R = "C11.2"
    ctx.rule(R, "the three prime literals equal the reference primes; the prime size is the bit length of that prime; constants are built from the selected curve")
    impls = find_impl(CONSTS, "Curve")
    fn = None
    for im in impls:
        for it in im["items"]:
            if it["k"] == "Fn" and it["name"] == "prime":
                fn = it
    if fn is None:
        return ctx.missing(R, "Curve::prime")
    ms = [m for m in walk(fn["body"]) if m["k"] == "Match" and render(strip(m["scrut"])) == "self"]
    if len(ms) != 1:
        return ctx.missing(R, "Curve::prime/match-self")
    got = {}
    for a in ms[0]["arms"]:
        lits = [n for n in walk(a["body"]) if n["k"] == "Lit" and n["lit"] in ("str", "int")]
        for v in curve_variant(a["pat"]):
            if len(lits) == 1:
                try:
                    got[v] = int(str(lits[0]["value"]))
                except ValueError:
                    got[v] = None
    primes = {}
    for c, ref in REF_PRIMES.items():
        v = got.get(c)
        ctx.check(R, "Curve::prime/" + c, v == ref, "source literal %s, reference %s" % (v, ref), site(CONSTS, fn))
        if v:
            primes[c] = v
    # radix of the conversion
    pb = list(calls(fn["body"], "parse_bytes"))
    ok = len(pb) == 1 and render(strip(pb[0]["args"][1])) == "10"
    ctx.check(R, "Curve::prime/radix-10", ok, "BigInt::parse_bytes(.., 10) expected: %s" % [render(p) for p in pb], site(CONSTS, fn))
    # prime_size = bits of the stored prime; new() stores curve.prime()
    uc = find_impl(CONSTS, "UsefulConstants")
    fns = {it["name"]: it for im in uc for it in im["items"] if it["k"] == "Fn"}
    ps = fns.get("prime_size")
    if ps is None:
        ctx.missing(R, "UsefulConstants::prime_size")
    else:
        t = result_expr(ps)
        ctx.check(R, "UsefulConstants::prime_size/bits-of-prime", t is not None and render(strip(t)) in ("self.prime.bits()", "self.prime().bits()"), "returns %s" % render(t), site(CONSTS, ps))
    new = fns.get("new")
    if new is None:
        ctx.missing(R, "UsefulConstants::new")
    else:
        st = [n for n in walk(new["body"]) if n["k"] == "Struct" and last(n["path"]) == "UsefulConstants"]
        ok = False
        det = ""
        if len(st) == 1:
            from astlib import inline_lets

            f = {x["name"]: render(strip(x["e"])) for x in inline_lets(st[0], new["body"])["fields"]}
            det = str(f)
            ok = f.get("prime") == "curve.prime()" and f.get("curve") == "curve"
        ctx.check(R, "UsefulConstants::new/prime-of-selected-curve", ok, det, site(CONSTS, new))
    pr = fns.get("prime")
    if pr is not None:
        t = result_expr(pr)
        ctx.check(R, "UsefulConstants::prime/returns-stored", t is not None and render(strip(t)) == "self.prime", "returns %s" % render(t))
    cu = fns.get("curve")
    if cu is not None:
        t = result_expr(cu)
        ctx.check(R, "UsefulConstants::curve/returns-stored", t is not None and render(strip(t)) == "self.curve", "returns %s" % render(t))
    return primes


# ---- A7: linear normal form of a threshold expression -------------------
def linear(e, env, depth=0):
    """expr -> (coeff_of_bits, const) or None.  bits = <..>.prime_size()."""
    if depth > 12 or not is_node(e):
        return None
    e = strip(e)
    k = e["k"]
    if k == "Lit" and e["lit"] == "int":
        return (0, int(e["value"]))
    if k == "MethodCall" and e["method"] == "prime_size" and not e["args"]:
        return (1, 0)
    if k == "Call" and e["func"]["k"] == "Path" and last(e["func"]["path"]) in ("from", "new") and len(e["args"]) == 1:
        return linear(e["args"][0], env, depth + 1)
    if k == "Cast":
        return linear(e["e"], env, depth + 1)
    if k == "MethodCall" and e["method"] in ("to_bigint", "unwrap", "into") and not e["args"]:
        return linear(e["recv"], env, depth + 1)
    if k == "Binary" and e["op"] in ("+", "-"):
        a, b = linear(e["l"], env, depth + 1), linear(e["r"], env, depth + 1)
        if a is None or b is None:
            return None
        s = 1 if e["op"] == "+" else -1
        return (a[0] + s * b[0], a[1] + s * b[1])
    if k == "Path" and "::" not in e["path"]:
        v = env(e["path"])
        if v is not None:
            if isinstance(v, tuple):
                return v
            return linear(v, env, depth + 1)
    return None


def normalise_cmp(e, pol, is_value, env):
    """comparison node -> bound c such that the fact is `value <= bits*a + c`  (returns (a, c)),
    for facts of the form value < T, value <= T, T > value, T >= value with polarity True."""
    if e["k"] != "Binary" or e["op"] not in ("<", "<=", ">", ">="):
        return None
    l, r, op = strip(e["l"]), strip(e["r"]), e["op"]
    if is_value(l):
        t = linear(r, env)
        side = "l"
    elif is_value(r):
        t = linear(l, env)
        side = "r"
        op = {"<": ">", "<=": ">=", ">": "<", ">=": "<="}[op]
    else:
        return None
    if t is None:
        return None
    if not pol:
        op = {"<": ">=", "<=": ">", ">": "<=", ">=": "<"}[op]
    # now: value op T
    if op == "<":
        return ("le", t[0], t[1] - 1)
    if op == "<=":
        return ("le", t[0], t[1])
    if op == ">":
        return ("ge", t[0], t[1] + 1)
    return ("ge", t[0], t[1])


def param_env(file, fn, callers):
    """Resolver for identifiers inside fn: local lets first, then parameters through the
    unique call site in `callers` (list of fn nodes of the same file)."""
    lets = let_env(fn["body"])
    params = [i.get("pat", {}).get("name") for i in fn["sig"]["inputs"] if not i.get("self")]

    def env(name):
        if name in lets:
            return lets[name]
        if name in params:
            idx = params.index(name)
            sites = []
            for c in callers:
                for call in calls(c["body"], fn["name"]):
                    sites.append((c, call))
            if len(sites) == 1:
                c, call = sites[0]
                if idx < len(call["args"]):
                    cenv = param_env(file, c, [])
                    v = linear(call["args"][idx], cenv)
                    return v
        return None

    return env


def value_binding(conds, value_name):
    """the fact `let Some(FieldElement { value }) = X.value()` binding value_name; returns X text."""
    for f in conds:
        if f[0] == "iflet" and f[3]:
            pat = render(f[1])
            if re.search(r"FieldElement\s*\{\s*value(\s*:\s*%s)?\s*\}" % re.escape(value_name), pat) or (value_name == "value" and re.search(r"FieldElement\s*\{\s*value\s*\}", pat)):
                e = strip(f[2])
                if e["k"] == "MethodCall" and e["method"] == "value":
                    return render(strip(e["recv"]))
    return None


def suppression_of(fn, push):
    """For a report push: the `notall` facts on its path (= the ways the report is suppressed
    by an earlier exit)."""
    conds = prune_vacuous(conditions_to(fn["body"], push))
    return conds, [c for c in conds if c[0] == "notall"]


IRF = "program_structure/src/intermediate_representation/ir.rs"
VMF = "program_structure/src/intermediate_representation/value_meta.rs"


def eval_nonstrict(ctx, R, vs0, top0, primes):
    """Decide the statement visitor of the non-strict conversion pass by evaluating it over a finite family of
    statements (operator x declared type x shape of the right-hand side x template name x arity x known size) and
    comparing what it pushes with the table of the property.  Returns True when the evaluation decided, False when
    the function is outside the evaluator's subset (the caller then applies the shape obligations)."""
    import itertools

    import passeval
    from finfun import E, NONE, S, Unsupported
    from passeval import O, Sink, V

    bits = primes.get("Bn254", 0).bit_length()
    if not bits:
        return False
    try:
        w = passeval.PassWorld([IRF, VMF], NS)
    except Exception:
        return False
    fn = vs0
    # arguments by the type of the parameter
    caller_env = param_env(NS, vs0, [top0])
    roles = []
    for i in fn["sig"]["inputs"]:
        ty = i["ty"].replace(" ", "")
        nm = i["pat"].get("name") if i["pat"]["k"] == "PIdent" else None
        if ty == "&Statement":
            roles.append("stmt")
        elif ty in ("&BigInt", "BigInt", "usize", "&usize"):
            lin = caller_env(nm) if nm else None
            if lin is None:
                return False
            roles.append(("size", lin))
        elif ty in ("&mutReportCollection", "&mutVec<Report>"):
            roles.append("sink")
        else:
            return False
    if roles.count("stmt") != 1 or roles.count("sink") != 1:
        return False
    CM, VM_ = O("component_meta"), None
    ops = ["AssignLocalOrComponent", "AssignSignal", "AssignConstraintSignal"]
    types = ["local", "signal", "component", "anonymous"]
    shapes = ["call", "update", "number"]
    names = ["Num2Bits", "Bits2Num", "Num2Bits_strict", "LessThan"]
    lens = [0, 1, 2]
    sizes = [None, 0, bits - 1, bits, bits + 1, 300, "bool"]
    n = bad = 0
    builders = {}
    first_bad = {}
    unsupported = None
    for op, ty, shape, name, ln, size in itertools.product(ops, types, shapes, names, lens, sizes):
        if shape == "number" and (name != names[0] or ln != 1 or size is not None):
            continue
        if ln != 1 and size is not None:
            continue
        val = NONE if size is None else S("Some", V("ValueReduction", "Boolean", value=True) if size == "bool" else V("ValueReduction", "FieldElement", value=size))
        args = ("L", tuple(O("arg%d" % j, value=(val if j == 0 else NONE)) for j in range(ln)))
        call = V("Expression", "Call", meta=CM, name=name, args=args)
        rhe = call if shape == "call" else (V("Expression", "Update", meta=O("update_meta"), var=O("var"), access=("L", ()), rhe=call) if shape == "update" else V("Expression", "Number", meta=O("num_meta"), value=1))
        tk = _type_knowledge(ty)
        stmt = V("Statement", "Substitution", meta=O("var_meta", type_knowledge=tk), var=O("var"), op=E("AssignOp", op), rhe=rhe)
        sink = Sink()
        argv = []
        for r in roles:
            if r == "stmt":
                argv.append(stmt)
            elif r == "sink":
                argv.append(sink)
            else:
                a_, c_ = r[1]
                argv.append(a_ * bits + c_)
        try:
            res = passeval.run(w, fn, argv)
        except Unsupported as u:
            unsupported = str(u)
            break
        n += 1
        flagged_name = name in ("Num2Bits", "Bits2Num")
        safe = isinstance(size, int) and size < bits
        want = op == "AssignLocalOrComponent" and ty in ("component", "anonymous") and shape in ("call", "update") and flagged_name and ln == 1 and not safe
        got = sink.items
        ok = res is None and len(got) == (1 if want else 0)
        if ok and want:
            g = got[0]
            ok = isinstance(g, tuple) and g[0] == "K" and CM in g[2]
            if ok:
                builders.setdefault(name, set()).add(g[1])
        if not ok:
            bad += 1
            key = "panics" if res is not None else ("missing" if want else "spurious")
            first_bad.setdefault(key, "op=%s type=%s rhs=%s template=%s(%s args) size=%s: %s" % (op, ty, shape, name, ln, size, res[1] if res else ("pushes %d report(s), expected %d" % (len(got), 1 if want else 0))))
    if unsupported is not None:
        ctx.note("nonstrict visit_statement is outside the evaluator's subset (%s): shape obligations apply" % unsupported)
        return False
    ctx.floor(R, "statement worlds evaluated (nonstrict)", n, 500)
    ctx.check(R, "visit_statement/table/no-panic", "panics" not in first_bad, first_bad.get("panics", "no world makes the visitor panic"), site(NS, fn))
    ctx.check(R, "visit_statement/table/every-unsafe-instantiation-flagged", "missing" not in first_bad, first_bad.get("missing", "Num2Bits / Bits2Num with one argument that is not a known constant < %d is reported, scalar or array element" % bits), site(NS, fn))
    ctx.check(R, "visit_statement/table/nothing-else-flagged", "spurious" not in first_bad, first_bad.get("spurious", "no report for other templates, arities, operators, declared types or a known size < %d" % bits), site(NS, fn))
    b1, b2 = builders.get("Num2Bits", set()), builders.get("Bits2Num", set())
    ctx.check(R, "visit_statement/table/one-report-kind-per-template", len(b1) == 1 and len(b2) == 1 and b1 != b2, "report builders: Num2Bits -> %s, Bits2Num -> %s (each located at the instantiation)" % (sorted(b1), sorted(b2)), site(NS, fn))
    return True


def eval_less_than(ctx, R, fn, primes):
    """find_unconstrained_less_than by evaluation: the two collectors are replaced by a prepared list of component
    inputs (LessThan / Num2Bits with a size whose value is unknown, a boolean, or the constant k); a report must be
    issued exactly for the values that feed a LessThan and have no Num2Bits(k) with 2^k - 1 <= p/2, for k in 0..300
    and every curve.  Returns True when decided."""
    import passeval
    from finfun import NONE, S, Unsupported
    from passeval import O, Panic, Sink, V

    try:
        w = passeval.PassWorld([LT], LT)
    except Exception:  # noqa: BLE001
        return False
    if "update_inputs" not in w.free or "update_components" not in w.free or "ConstraintData" not in w.struct_fields:
        return False
    w.lenient_opaque = True
    sizes_cache = {}

    def size(k):
        if k not in sizes_cache:
            val = NONE if k is None else S("Some", V("ValueReduction", "Boolean", value=True) if k == "bool" else V("ValueReduction", "FieldElement", value=k))
            sizes_cache[k] = ("O", "size:%s" % k, (("value", val), ("meta", O("size-meta")), ("clone", ("PY", (lambda k=k: sizes_cache[k])))))
        return sizes_cache[k]

    vals = {}

    def value(x):
        if x not in vals:
            vals[x] = ("O", "value:" + x, (("meta", O("meta-of-" + x)), ("clone", ("PY", (lambda x=x: vals[x])))))
        return vals[x]

    def LTi(x):
        return V("ComponentInput", "LessThan", value=value(x))

    def N2B(x, k):
        return V("ComponentInput", "Num2Bits", value=value(x), bit_size=size(k))

    state = {}
    w.stubs["update_components"] = lambda args: ("T", ())

    def update_inputs(args):
        sinks = [a for a in args if isinstance(a, Sink)]
        if len(sinks) != 1:
            raise Unsupported("update_inputs without one collection argument")
        if not state["fed"]:
            state["fed"] = True
            sinks[0].items.extend(state["inputs"])
        return ("T", ())

    w.stubs["update_inputs"] = update_inputs
    w.stubs["build_report"] = lambda args: ("K", "build_report", tuple(args))
    stmt = O("stmt")
    block = ("O", "block", (("iter", ("L", (stmt,))),))
    first_bad = {}
    n = 0

    def run(bits, inputs, want, tag):
        nonlocal n
        state["inputs"], state["fed"] = inputs, False
        consts = O("constants", prime_size=bits)
        cfg = ("O", "cfg", (("iter", ("L", (block,))), ("constants", consts), ("name", "t")))
        w.opaque = (("BigInt::", lambda name, args: args[0] if name == "from" and len(args) == 1 and isinstance(args[0], int) else ("K", "BigInt::" + name, tuple(args))),)
        try:
            res = w.call_fn(fn, [cfg])
        except Panic as p_:
            first_bad.setdefault("panics", "%s: %s" % (tag, p_))
            return
        n += 1
        items = res.items if isinstance(res, Sink) else None
        if items is None:
            raise Unsupported("the pass returns %r" % (res,))
        got = []
        for g in items:
            if not (isinstance(g, tuple) and g[0] == "K" and g[1] == "build_report" and g[2]):
                raise Unsupported("a report built some other way: %r" % (g,))
            got.append([k_ for k_, v_ in vals.items() if g[2][0] is v_])
        gotn = sorted(x[0] for x in got if x)
        if len(gotn) != len(got) or gotn != sorted(want):
            kind = "missing" if set(want) - set(gotn) else "spurious"
            first_bad.setdefault(kind, "%s: reports for %s, expected %s" % (tag, gotn, sorted(want)))

    try:
        for curve, pr in sorted(primes.items()):
            bits = pr.bit_length()
            bad_k = []
            for k in range(0, 301):
                before = dict(first_bad)
                safe = 2 ** k - 1 <= pr // 2
                run(bits, [LTi("a"), N2B("a", k)], [] if safe else ["a"], "%s: LessThan input also fed to Num2Bits(%d)" % (curve, k))
                if first_bad != before:
                    bad_k.append(k)
            ctx.check(R, "find_unconstrained_less_than/threshold/" + curve, not bad_k, "sizes k for which the outcome differs from (2^k-1 <= p/2): %s" % bad_k[:6] if bad_k else "report suppressed exactly for k with 2^k-1 <= p/2, k in 0..300", site(LT, fn))
        bits = sorted(primes.items())[0][1].bit_length()
        run(bits, [LTi("a")], ["a"], "LessThan input only")
        run(bits, [N2B("a", 8)], [], "Num2Bits input only")
        run(bits, [N2B("a", 400)], [], "Num2Bits input only (too wide)")
        run(bits, [LTi("a"), N2B("b", 8)], ["a"], "LessThan(a), Num2Bits(8) of another value")
        run(bits, [LTi("a"), N2B("a", None)], ["a"], "size not known")
        run(bits, [LTi("a"), N2B("a", "bool")], ["a"], "size known to be a boolean")
        run(bits, [LTi("a"), N2B("a", 400), N2B("a", 8)], [], "two Num2Bits, the second narrow enough")
        run(bits, [LTi("a"), N2B("a", 8), N2B("a", 400)], [], "two Num2Bits, the first narrow enough")
        run(bits, [LTi("a"), N2B("a", 400), N2B("a", None)], ["a"], "two Num2Bits, none narrow enough")
        run(bits, [LTi("a"), LTi("b"), N2B("b", 8)], ["a"], "two LessThan inputs, one range-checked")
        run(bits, [LTi("a"), LTi("b"), LTi("a")], ["a", "b"], "an input used twice is reported once per value")
        run(bits, [N2B("b", 8), LTi("b"), LTi("a"), N2B("c", 8)], ["a"], "range check recorded before the LessThan")
        run(bits, [], [], "no inputs")
    except Unsupported as u:
        ctx.note("find_unconstrained_less_than is outside the evaluator's subset (%s): shape obligations apply" % u)
        return False
    ctx.floor(R, "input worlds evaluated (less-than)", n, 600)
    ctx.check(R, "find_unconstrained_less_than/table/no-panic", "panics" not in first_bad, first_bad.get("panics", "no world makes the pass panic"), site(LT, fn))
    ctx.check(R, "find_unconstrained_less_than/table/every-unchecked-input-reported", "missing" not in first_bad, first_bad.get("missing", "a LessThan input without a narrow enough Num2Bits on the same value is reported"), site(LT, fn))
    ctx.check(R, "find_unconstrained_less_than/table/nothing-else-reported", "spurious" not in first_bad, first_bad.get("spurious", "no report for values that feed no LessThan or are range-checked"), site(LT, fn))
    return True


def rule_thresholds(ctx, primes):
    R = "C11.3"
    ctx.rule(R, "Num2Bits/Bits2Num(n) is not flagged iff n is a known constant < 254 and only under BN254; a LessThan input is range-checked iff 2^k-1 <= p/2 (decided for k in 0..300 per curve from the extracted primes)")
    # ---- nonstrict binary conversion
    import alpha
    FIELD_SPECS = [("component_name", "Call", "name"), ("args", "Call", "args"), ("component_meta", "Call", "meta"), ("var_meta", "Substitution", "meta"), ("value", "FieldElement", "value")]
    top = find_fn(NS, "find_nonstrict_binary_conversion")
    vs = find_fn(NS, "visit_statement")
    if vs is not None:
        vs, _m = alpha.canon_fields(vs, FIELD_SPECS, [("stmt", "param", 0), ("prime_size", "param", 1), ("reports", "param", 2)])
    if top is not None:
        top, _m = alpha.canon_fields(top, [], [("cfg", "param", 0)])
    if top is None or vs is None:
        ctx.missing(R, "nonstrict_binary_conversion functions")
    else:
        # only under Bn254: an early return when curve != Bn254
        # the statement visitor is reached only when the curve is Bn254 (early return, nested if, merged conditions alike)
        visits = [c for c in walk(top["body"]) if c["k"] == "Call" and c["func"]["k"] == "Path" and last(c["func"]["path"]) == "visit_statement"]
        curve_gate = bool(visits)
        for v_ in visits:
            cs = conditions_to(top["body"], v_) or []
            curve_gate = curve_gate and any(c[0] == "if" and c[2] and re.fullmatch(r"\(cfg\.constants\(\)\.curve\(\)==&?Curve::Bn254\)|\(&?Curve::Bn254==cfg\.constants\(\)\.curve\(\)\)", fact_str(c).replace(" ", "")) for c in cs)
        ctx.check(R, "find_nonstrict_binary_conversion/only-under-Bn254", curve_gate, "expected an early return when the curve is not Bn254", site(NS, top))
        # no other early return except Function|CustomTemplate
        for v_ in visits:
            cs = [fact_str(c) for c in (conditions_to(top["body"], v_) or []) if c[0] not in ("loop", "closure")]
            okr = all(("Curve::Bn254" in s) or ("definition_type" in s) for s in cs)
            ctx.check(R, "find_nonstrict_binary_conversion/early-return", okr, "statements are visited only under: %s" % cs, site(NS, v_))
        env = param_env(NS, vs, [top])
        decided = eval_nonstrict(ctx, R, vs, top, primes)
        pushes = [] if decided else list(method_calls(vs["body"], "push"))
        if not decided:
            ctx.floor(R, "nonstrict-pushes", len(pushes), 2)
        seen = set() if not decided else {"Num2Bits", "Bits2Num"}
        for p in pushes:
            builder = render(p["args"][0])
            which = "Num2Bits" if "num2bits" in builder.lower() else ("Bits2Num" if "bits2num" in builder.lower() else builder)
            seen.add(which)
            conds, notalls = suppression_of(vs, p)
            key = "visit_statement/" + which
            # positive guards: component name equality + arity
            namec = [fact_str(c) for c in conds if c[0] == "if" and c[2] and "component_name" in fact_str(c) or (c[0] == "if" and c[2] and "args.len()" in fact_str(c))]
            ctx.check(R, key + "/name-and-arity", any(('== "%s"' % which) in s for s in namec) and any("args.len() == 1" in s for s in namec), "guards: %s" % namec, site(NS, p))
            okp, why = peels_update(conds, vs["body"], p)
            ctx.check(R, key + "/array-elements-inspected", okp, why + ": `c[i] = %s(n)` is an Update around the instantiation" % which, site(NS, p))
            # suppression: exactly one, and it is (value known) && (value <= bits-1)
            rel = [n for n in notalls if any("FieldElement" in fact_str(x) for x in n[1])]
            if len(rel) != 1:
                ctx.bad(R, key + "/suppression", "expected exactly one constant-size suppression, found %d: %s" % (len(rel), [fact_str(n) for n in notalls]), site(NS, p))
                continue
            inner = rel[0][1]
            src_of_value = value_binding(inner, "value")
            cmpf = [x for x in inner if x[0] == "if" and x[1]["k"] == "Binary"]
            bound = None
            if len(cmpf) == 1:
                bound = normalise_cmp(cmpf[0][1], cmpf[0][2], lambda e: render(e) == "value", env)
            others = [fact_str(x) for x in inner if not (x[0] == "iflet" and "FieldElement" in fact_str(x)) and x not in cmpf]
            argok = src_of_value is not None and (src_of_value in ("arg", "args[0]"))
            if src_of_value == "arg":
                le = let_env(vs["body"], p)
                argok = "arg" in le and render(strip(le["arg"])) == "args[0]"
            ctx.check(R, key + "/size-is-first-argument", argok, "value taken from `%s.value()`" % src_of_value, site(NS, p))
            detail = "suppression: %s ; normal form %s" % (fact_str(rel[0]), bound)
            good = bound is not None and bound[0] == "le" and not others
            if good:
                a, c = bound[1], bound[2]
                bits = primes.get("Bn254", 0).bit_length()
                bad_k = [k for k in range(0, 301) if ((k <= a * bits + c) != (k < 254))]
                good = not bad_k
                detail += " ; k where (k <= %d*bits%+d) differs from (k < 254): %s" % (a, c, bad_k[:6])
            ctx.check(R, key + "/threshold-k<254", good, detail, site(NS, p))
            # other suppressions not allowed
            extra = [fact_str(n) for n in notalls if n is not rel[0] and not re.search(r"is_local\(\)|is_signal\(\)", fact_str(n))]
            ctx.check(R, key + "/no-other-suppression", not extra, "other exits before the report: %s" % extra, site(NS, p))
        ctx.check(R, "visit_statement/both-templates", seen >= {"Num2Bits", "Bits2Num"}, "report builders seen: %s" % sorted(seen))
    # ---- unconstrained less-than
    fn = find_fn(LT, "find_unconstrained_less_than")
    if fn is None:
        return ctx.missing(R, "find_unconstrained_less_than")
    if eval_less_than(ctx, R, fn, primes):
        return rule_lt_recognisers(ctx, R)
    fn, _m = alpha.canon_fields(fn, [("value", "FieldElement", "value")], [("cfg", "param", 0)])
    pushes = [p for p in method_calls(fn["body"], "push") if render(strip(p["recv"])) == "reports"]
    if len(pushes) != 1:
        return ctx.missing(R, "find_unconstrained_less_than/report-push", "expected one reports.push, found %d" % len(pushes))
    p = pushes[0]
    conds = conditions_to(fn["body"], p)
    strs = [fact_str(c) for c in conds]
    # the suppression is either a mutable flag (`!is_positive`) or directly `!<bit sizes>.iter().any(..)`
    flags = [c for c in conds if c[0] == "if" and not c[2] and (c[1]["k"] == "Path" or (strip(c[1])["k"] == "MethodCall" and strip(c[1])["method"] == "any"))]
    # the record of the loop over the collected constraints: `for (input, data) in constraints`
    data = "data"
    for c in conds:
        if c[0] == "loop" and c[1] == "for" and c[2] is not None and c[2]["k"] == "PTuple" and len(c[2]["elems"]) == 2:
            data = render(c[2]["elems"][1]).replace("&", "").strip()
    lt_fact = "!%s.less_than.is_empty()" % data
    lt_used = any(s.replace(" ", "") == lt_fact for s in strs)
    ctx.check(R, "find_unconstrained_less_than/only-LessThan-inputs", lt_used, "path: %s" % strs, site(LT, p))
    if len(flags) != 1:
        return ctx.bad(R, "find_unconstrained_less_than/range-check-flag", "expected the report to be guarded by one boolean flag being false; path: %s" % strs, site(LT, p))
    flag = flags[0][1]["path"] if flags[0][1]["k"] == "Path" else None
    extra = [s for c, s in zip(conds, strs) if c[0] not in ("loop",) and s.replace(" ", "") != lt_fact and c is not flags[0]]
    ctx.check(R, "find_unconstrained_less_than/no-other-suppression", not extra, "other conditions: %s" % extra, site(LT, p))
    # where does the flag become true?  two shapes: a loop that sets it, or `iter().any(..)`
    env = param_env(LT, fn, [])
    if flag is None:
        inits = [{"init": flags[0][1], "line": flags[0][1].get("line", 0)}]
    else:
        inits = [n for n in walk(fn["body"]) if n["k"] == "Local" and n["pat"]["k"] == "PIdent" and n["pat"]["name"] == flag]
    cases = []  # (collection text, element var, facts below the element, site)
    if len(inits) == 1 and render(strip(inits[0]["init"])) == "false":
        sets = [n for n in walk(fn["body"]) if n["k"] == "Assign" and render(n["l"]) == flag]
        if not sets:
            return ctx.bad(R, "find_unconstrained_less_than/flag-set", "flag %s is never set" % flag)
        for s_ in sets:
            if render(s_["r"]) != "true":
                ctx.bad(R, "find_unconstrained_less_than/flag-set/value", "flag assigned %s" % render(s_["r"]), site(LT, s_))
                continue
            cs = conditions_to(fn["body"], s_)
            own, loopf = [], None
            for c in cs:
                if c[0] == "loop" and "bit_sizes" in fact_str(c):
                    loopf = c
                    own = []
                    continue
                if loopf is not None:
                    own.append(c)
            if loopf is None:
                ctx.bad(R, "find_unconstrained_less_than/flag-set/over-bit-sizes", "flag set outside a loop over data.bit_sizes: %s" % [fact_str(c) for c in cs], site(LT, s_))
                continue
            cases.append((render(loopf[3]), render(loopf[2]), own, s_))
    elif len(inits) == 1:
        init = strip(inits[0]["init"])
        ok_any = init["k"] == "MethodCall" and init["method"] == "any" and init["args"] and init["args"][0]["k"] == "Closure" and "bit_sizes" in render(init["recv"])
        if not ok_any:
            return ctx.bad(R, "find_unconstrained_less_than/flag-set", "flag defined as `%s`: neither a loop that sets it nor `bit_sizes.iter().any(..)`" % render(init)[:120], site(LT, inits[0]))
        cl = init["args"][0]
        var = render(cl["inputs"][0]) if cl["inputs"] else "?"
        body = strip(cl["body"])
        from pathcond import split_cond
        own = split_cond(body, True)
        # `if let P = e { cmp } else { false }`
        if body["k"] == "If" and body["cond"]["k"] == "Let" and body["else"] is not None and render(strip(body["else"])) == "false":
            own = split_cond(body["cond"], True) + split_cond(strip(body["then"]), True)
        cases.append((render(init["recv"]), var, own, inits[0]))
    else:
        return ctx.bad(R, "find_unconstrained_less_than/flag-set", "cannot find the definition of flag %s" % flag)
    for coll, loopvar, own, s_ in cases:
        src_of_value = value_binding(own, "value")
        cmpf = [x for x in own if x[0] == "if" and x[1]["k"] == "Binary"]
        others = [fact_str(x) for x in own if not (x[0] == "iflet" and "FieldElement" in fact_str(x)) and x not in cmpf]
        bound = normalise_cmp(cmpf[0][1], cmpf[0][2], lambda e: render(e) == "value", env) if len(cmpf) == 1 else None
        detail = "flag set under %s ; normal form %s" % ([fact_str(c) for c in own], bound)
        ctx.check(R, "find_unconstrained_less_than/flag-set/size-from-Num2Bits-argument", src_of_value == loopvar.lstrip("&") and "bit_sizes" in coll, "value from `%s.value()`, element `%s` of `%s`" % (src_of_value, loopvar, coll), site(LT, s_))
        good = bound is not None and bound[0] == "le" and not others
        if good:
            a, c = bound[1], bound[2]
            for curve, pr in sorted(primes.items()):
                bits = pr.bit_length()
                bad_k = [k for k in range(0, 301) if ((k <= a * bits + c) != (2 ** k - 1 <= pr // 2))]
                ctx.check(R, "find_unconstrained_less_than/threshold/" + curve, not bad_k, detail + " ; k where (k <= %d*%d%+d) differs from (2^k-1 <= p/2): %s" % (a, bits, c, bad_k[:6]), site(LT, s_))
        else:
            ctx.bad(R, "find_unconstrained_less_than/threshold", detail + " ; other conditions %s" % others, site(LT, s_))
    rule_lt_recognisers(ctx, R)


def eval_lt_recognisers(ctx, R):
    """`update_components` and `update_inputs` of the less-than pass by evaluation: which statements record a LessThan
    / Num2Bits component, and which assignments are recorded as their inputs.  Returns True when decided."""
    import itertools

    import passeval
    from finfun import E, NONE, S, Unsupported
    from passeval import MMap, O, Panic, Sink, V

    try:
        w = passeval.PassWorld([IRF, LT], LT)
    except Exception:  # noqa: BLE001
        return False
    w.lenient_opaque = True
    uc, ui = w.free.get("update_components"), w.free.get("update_inputs")
    if uc is None or ui is None or "VariableAccess" not in w.structs:
        return False
    nh = []
    nh.append(("O", "name:c", (("without_version", ("PY", lambda: nh[0])), ("clone", ("PY", lambda: nh[0])))))
    var = nh[0]

    def vec(xs):
        s_ = Sink()
        s_.items = list(xs)
        return s_

    bad = {}
    n = 0
    try:
        # --- which statements record a component
        for op, kind, tname, nargs, indexed in itertools.product(("AssignLocalOrComponent", "AssignSignal", "AssignConstraintSignal"), ("component", "local", "signal"), ("LessThan", "Num2Bits", "Other"), (0, 1, 2), (False, True)):
            tk = O("type_knowledge", is_local=(kind == "local"), is_signal=(kind == "signal"), is_component=(kind == "component"))
            args = vec(O("arg%d" % j) for j in range(nargs))
            call = V("Expression", "Call", meta=O("cm"), name=tname, args=args)
            idx = S("ArrayAccess", O("index"))
            rhe = V("Expression", "Update", meta=O("um"), var=var, access=vec([idx]), rhe=call) if indexed else call
            stmt = V("Statement", "Substitution", meta=O("meta", type_knowledge=tk), var=var, op=E("AssignOp", op), rhe=rhe)
            comps = MMap()
            w.call_fn(uc, [stmt, comps])
            n += 1
            want = op == "AssignLocalOrComponent" and kind == "component" and tname in ("LessThan", "Num2Bits") and nargs == 1
            got = [(k_, v_) for k_, v_ in comps.pairs]
            tag = "`c%s %s %s(%d args)`, c declared a %s" % ("[i]" if indexed else "", {"AssignLocalOrComponent": "=", "AssignSignal": "<--", "AssignConstraintSignal": "<=="}[op], tname, nargs, kind)
            if bool(got) != want:
                bad.setdefault("components", "%s: %s" % (tag, "recorded" if got else "not recorded"))
            elif got:
                k_, v_ = got[0]
                acc = k_[2][w.structs["VariableAccess"].index("access")] if isinstance(k_, tuple) and k_[0] == "S" else None
                acc = list(acc.items) if isinstance(acc, Sink) else (list(acc[1]) if isinstance(acc, tuple) and acc and acc[0] == "L" else None)
                kindv = v_[2] if isinstance(v_, tuple) and v_[0] in ("V", "E") else None
                if acc != ([idx] if indexed else []) or kindv != tname:
                    bad.setdefault("components", "%s: recorded as %s under access %s" % (tag, kindv, acc))
                elif tname == "Num2Bits" and not (v_[0] == "V" and v_[3].get("bit_size") is args.items[0]):
                    bad.setdefault("components", "%s: the size recorded is not the first argument" % tag)
        # --- which assignments are inputs
        size = O("bit-size")
        for op, comp_kind, tail in itertools.product(("AssignLocalOrComponent", "AssignSignal", "AssignConstraintSignal"), ("LessThan", "Num2Bits", None), (["in"], ["out"], ["in", 0], ["out", 0], [0], [])):
            for indexed in (False, True):
                prefix = [S("ArrayAccess", O("index"))] if indexed else []
                key = S("VariableAccess", *[{"var": var, "access": vec(prefix)}[f_] for f_ in w.structs["VariableAccess"]])
                comps = MMap()
                if comp_kind == "LessThan":
                    comps.pairs.append([key, E("Component", "LessThan")])
                elif comp_kind == "Num2Bits":
                    comps.pairs.append([key, V("Component", "Num2Bits", bit_size=size)])
                acc = vec(prefix + [S("ComponentAccess", t_) if isinstance(t_, str) else S("ArrayAccess", O("position")) for t_ in tail])
                value = ("O", "value", (("clone", ("PY", lambda: O("value-copy"))),))
                stmt = V("Statement", "Substitution", meta=O("meta"), var=var, op=E("AssignOp", op), rhe=V("Expression", "Update", meta=O("um"), var=var, access=acc, rhe=value))
                inputs = Sink()
                w.stubs = {}
                w.call_fn(ui, [stmt, comps, inputs])
                n += 1
                want = None
                if op == "AssignConstraintSignal" and comp_kind == "Num2Bits" and tail == ["in"]:
                    want = "Num2Bits"
                if op == "AssignConstraintSignal" and comp_kind == "LessThan" and tail == ["in", 0]:
                    want = "LessThan"
                got = [x[2] if isinstance(x, tuple) and x[0] == "V" else "?" for x in inputs.items]
                tag = "`c%s%s %s value`, c a %s" % ("[i]" if indexed else "", "".join((".%s" % t_) if isinstance(t_, str) else "[k]" for t_ in tail), {"AssignLocalOrComponent": "=", "AssignSignal": "<--", "AssignConstraintSignal": "<=="}[op], comp_kind or "component of another template")
                if got != ([want] if want else []):
                    bad.setdefault("inputs", "%s: recorded as %s, expected %s" % (tag, got, [want] if want else []))
    except Unsupported as u:
        ctx.note("the less-than recognisers are outside the evaluator's subset (%s): shape obligations apply" % u)
        return False
    except Panic as p_:
        bad.setdefault("components", "panics (%s)" % p_)
    ctx.floor(R, "recogniser worlds evaluated (less-than)", n, 200)
    ctx.check(R, "update_components/LessThan-and-Num2Bits-instantiations", "components" not in bad, bad.get("components", "`c = LessThan(n)` / `c = Num2Bits(n)` (one argument, c a component, scalar or element) are recorded under their access; nothing else"), site(LT, uc))
    ctx.check(R, "update_inputs/inputs-of-recorded-components", "inputs" not in bad, bad.get("inputs", "`c.in <== v` for a Num2Bits, `c.in[k] <== v` for a LessThan; no other signal, operator or component"), site(LT, ui))
    return True


def rule_lt_recognisers(ctx, R):
    import alpha

    if eval_lt_recognisers(ctx, R):
        return
    # the component recognisers: LessThan / Num2Bits with one argument, input signal `in`
    uc = find_fn(LT, "update_components")
    ui = find_fn(LT, "update_inputs")
    if uc is None or ui is None:
        return ctx.missing(R, "update_components/update_inputs")
    uc, _m = alpha.canon_fields(uc, [("component_name", "Call", "name"), ("args", "Call", "args")], [("components", "param", 1)])
    ui, _m = alpha.canon_fields(ui, [], [])
    txt = render(uc["body"])
    for name in ("LessThan", "Num2Bits"):
        ins = [n for n in method_calls(uc["body"], "insert") if ("less_than" if name == "LessThan" else "num_2_bits") in render(n["args"][-1])]
        ok = False
        det = ""
        for i in ins:
            cs = [fact_str(c) for c in conditions_to(uc["body"], i)]
            det = str(cs)
            if any(('component_name == "%s"' % name) in s and s.startswith("(") for s in cs) or any(('component_name == "%s"' % name) in s for s in cs if not s.startswith("!")):
                ok = True
        ctx.check(R, "update_components/" + name, ok, "insert of %s component guarded by %s" % (name, det))
    n2b = [n for n in calls(uc["body"], "num_2_bits")]
    ctx.check(R, "update_components/Num2Bits/size-is-first-argument", len(n2b) == 1 and render(strip(n2b[0]["args"][0])) == "args[0]", "Component::num_2_bits(%s)" % (render(n2b[0]["args"]) if n2b else "?"))
    for name, ctor in (("Num2Bits", "num_2_bits"), ("LessThan", "less_than")):
        ps = [n for n in method_calls(ui["body"], "push") if ctor in render(n["args"][0])]
        ok = False
        det = ""
        for q in ps:
            cs = [fact_str(c) for c in conditions_to(ui["body"], q)]
            det = str(cs)
            ok = any(re.fullmatch(r'!\(\w+!="in"\)', s.replace(" ", "")) or re.fullmatch(r'\(\w+=="in"\)', s.replace(" ", "")) for s in cs) and any(("Component::" + name) in s for s in cs)
        ctx.check(R, "update_inputs/" + name, ok and len(ps) == 1, "input recorded under %s" % det)


def rule_fromstr(ctx):
    R = "C11.4"
    ctx.rule(R, "curve names: the scrutinee is case-normalised, the literal arms are in that case and map one-to-one onto the three curves, everything else is an error; the default parses to BN254")
    ims = find_impl(CONSTS, "Curve", "FromStr")
    fn = None
    for im in ims:
        for it in im["items"]:
            if it["k"] == "Fn" and it["name"] == "from_str":
                fn = it
    if fn is None:
        return ctx.missing(R, "FromStr for Curve")
    ms = [m for m in walk(fn["body"]) if m["k"] == "Match"]
    if len(ms) != 1:
        return ctx.missing(R, "from_str/match")
    m = ms[0]
    import sgrep
    le_ = sgrep.lets(fn["body"])
    sc = strip(m["scrut"])
    for _ in range(4):
        while sc["k"] == "Index":
            sc = strip(sc["base"])
        if sc["k"] == "Path" and sc["path"] in le_:
            sc = strip(le_[sc["path"]])
    scr = render(sc)
    norm = None
    if "to_uppercase()" in scr or "to_ascii_uppercase()" in scr:
        norm = str.upper
    elif "to_lowercase()" in scr or "to_ascii_lowercase()" in scr:
        norm = str.lower
    ctx.check(R, "from_str/case-normalised", norm is not None, "scrutinee: " + scr, site(CONSTS, m))
    param = [i["pat"]["name"] for i in fn["sig"]["inputs"] if not i.get("self")]
    # .. and nothing but the case is normalised: the scrutinee is exactly `<input>.to_uppercase()` (or the lower / ascii
    # variant), viewed as a str - trimming, replacing or mapping characters accepts names the documentation does not list
    sc2 = sc
    while sc2["k"] == "MethodCall" and sc2["method"] in ("as_str", "as_ref", "borrow", "deref") and not sc2["args"]:
        sc2 = strip(sc2["recv"])
    exact = bool(param) and sc2["k"] == "MethodCall" and sc2["method"] in ("to_uppercase", "to_lowercase", "to_ascii_uppercase", "to_ascii_lowercase") and not sc2["args"] and render(strip(sc2["recv"])) == param[0]
    ctx.check(R, "from_str/only-the-case-is-normalised", exact, "scrutinee: " + scr, site(CONSTS, m))
    ctx.check(R, "from_str/scrutinee-is-the-input", bool(param) and re.match(r"&?%s\.to_(ascii_)?(upper|lower)case\(\)" % re.escape(param[0]), scr.replace("(", "(").lstrip("(")) is not None or (bool(param) and scr.lstrip("&(").startswith(param[0] + ".")), "scrutinee: " + scr)
    table = {}
    wild_err = False
    for a in m["arms"]:
        body = strip(a["body"])
        if a["pat"]["k"] == "PLit":
            lit = a["pat"]["lit"]["value"]
            val = None
            if body["k"] == "Call" and render(body["func"]) == "Ok":
                val = last(render(strip(body["args"][0])))
            table[lit] = val
            ctx.check(R, "from_str/arm/%s/unguarded" % lit, a["guard"] is None, "arm has a guard")
        elif a["pat"]["k"] in ("PWild", "PIdent"):
            wild_err = body["k"] == "Call" and render(body["func"]) == "Err" or (body["k"] == "Macro" and body["name"] in ("bail",))
        else:
            ctx.bad(R, "from_str/arm/unrecognised", render(a["pat"]))
    ctx.table("Curve::from_str", table)
    expect = {"BN254": "Bn254", "BLS12_381": "Bls12_381", "GOLDILOCKS": "Goldilocks"}
    if norm:
        for lit, val in table.items():
            ctx.check(R, "from_str/arm/%s/reachable-after-normalisation" % lit, norm(lit) == lit, "literal %r can never equal a %s-cased string" % (lit, norm.__name__))
        got = {lit.upper(): v for lit, v in table.items()}
        for name, var in expect.items():
            ctx.check(R, "from_str/name/" + name, got.get(name) == var, "%s -> %s (expected %s)" % (name, got.get(name), var))
        ctx.check(R, "from_str/nothing-else-accepted", set(got) == set(expect), "accepted names: %s" % sorted(got))
    ctx.check(R, "from_str/otherwise-error", wild_err, "the catch-all arm must be an error")
    # default curve
    dc = find_item(CONFIG, "Const", "DEFAULT_CURVE")
    if dc is None:
        ctx.missing(R, "config::DEFAULT_CURVE")
    else:
        v = strip(dc["expr"])
        val = v.get("value") if v["k"] == "Lit" else None
        ctx.check(R, "DEFAULT_CURVE/parses-to-Bn254", val is not None and norm is not None and table.get(norm(val)) == "Bn254", "DEFAULT_CURVE = %r" % val, site(CONFIG, dc))
    # the CLI option uses that default and type
    cli = find_item(MAIN, "StructDef", "Cli")
    if cli is None:
        ctx.missing(R, "cli::Cli")
    else:
        f = [x for x in cli["fields"] if x["name"] == "curve"]
        ctx.check(R, "Cli/curve-field-type", len(f) == 1 and f[0]["ty"] == "Curve", "curve: %s" % (f[0]["ty"] if f else "?"))
        text = facts.src(MAIN)
        mm = re.search(r"#\[clap\(([^\]]*)\)\]\s*curve\s*:", text)
        if not mm:
            mm = re.search(r"#\[clap\(((?:[^\[\]]|\[[^\]]*\])*?)\)\]\s*curve\s*:", text, re.S)
        ctx.check(R, "Cli/curve-default", bool(mm) and re.search(r"default_value\s*=\s*config::DEFAULT_CURVE", mm.group(1)) is not None, "attribute: %s" % (mm.group(1) if mm else "?"))
        # the option's text goes to Curve::from_str and nowhere else first: an own value parser / list of possible values
        # decides which spellings are accepted before from_str sees them
        keys_ = set(re.findall(r"(\w+)\s*(?==|,|$)", re.sub(r"=\s*[^,]+", "=", mm.group(1)))) if mm else set()
        extra_ = keys_ - {"short", "long", "name", "default_value", "help", "value_name", "long_help", "help_heading", "display_order"}
        ctx.check(R, "Cli/curve-parsed-by-from_str-only", bool(mm) and not extra_, "clap attribute keys besides naming and default: %s" % sorted(extra_))
    import c03
    mainfn = c03.canon_main(ctx, R)
    if mainfn is not None:
        c = list(calls(mainfn["body"], "AnalysisRunner::new"))
        ctx.check(R, "main/curve-option-reaches-runner", len(c) == 1 and render(strip(c[0]["args"][0])) == "options.curve", "AnalysisRunner::new(%s)" % (render(c[0]["args"]) if c else "?"))
    # ... and stays there: the runner is the only carrier of the curve between the command line and the passes
    RUNF = "program_analysis/src/analysis_runner.rs"
    from astlib import struct_literal_fields

    newf = find_fn(RUNF, "new", "AnalysisRunner")
    if newf is None:
        ctx.missing(R, "AnalysisRunner::new")
    else:
        prm = [i["pat"]["name"] for i in newf["sig"]["inputs"] if not i.get("self") and i["pat"]["k"] == "PIdent"]
        lits = [x for x in walk(newf["body"]) if x["k"] == "Struct" and last(x["path"]) in ("AnalysisRunner", "Self")]
        okn = False
        for x in lits:
            fl = {f_["name"]: render(strip(f_["e"])) for f_ in x["fields"]}
            okn = okn or (bool(prm) and fl.get("curve") == prm[0])
        asg = [a for a in walk(newf["body"]) if a["k"] == "Assign" and render(a["l"]).replace(" ", "").endswith(".curve") and bool(prm) and render(strip(a["r"])) == prm[0]]
        ctx.check(R, "AnalysisRunner::new/stores-the-curve", okn or bool(asg), "the constructor must keep the curve it is given", site(RUNF, newf))
    n_self = 0
    for q, f in fns_in_file(RUNF):
        if "AnalysisRunner" not in q or "tests" in q or not f.get("body") or f["name"] == "new":
            continue
        for x in walk(f["body"]):
            if x["k"] == "Struct" and last(x["path"]) in ("AnalysisRunner", "Self"):
                n_self += 1
                fl = {f_["name"]: render(strip(f_["e"])).replace(" ", "") for f_ in x["fields"]}
                rest = render(strip(x["rest"])).replace(" ", "") if x.get("rest") else None
                okc = fl.get("curve") in ("self.curve", "self.curve.clone()") or rest == "self"
                if f["name"] == "default" and "Default" in q:
                    okc = True
                ctx.check(R, "AnalysisRunner::%s/rebuilt-runner-keeps-the-curve" % f["name"], okc, "a runner is built from `self` with curve = %s and base %s: the curve chosen on the command line is replaced by the default" % (fl.get("curve"), rest), site(RUNF, x))
            if x["k"] == "Assign" and re.fullmatch(r"self\.curve", render(x["l"]).replace(" ", "")):
                ctx.bad(R, "AnalysisRunner::%s/curve-reassigned" % f["name"], "self.curve is assigned outside the constructor", site(RUNF, x))
    hosts = [(q, f) for q, f in fns_in_file(RUNF) if f.get("body") and "tests" not in q and f["name"] != "generate_cfg"]
    gens = [(f, c) for q, f in hosts for c in calls(f["body"], "generate_cfg")]
    ctx.floor(R, "generate_cfg call sites", len(gens), 1)

    def is_runner_curve(e_):
        return render(strip(e_)).replace(" ", "") in ("self.curve", "&self.curve")

    for f, c in gens:
        arg = c["args"][1] if len(c["args"]) == 3 else None
        okc = arg is not None and is_runner_curve(arg)
        how = "curve argument: %s" % (render(arg) if arg is not None else "?")
        if arg is not None and not okc:
            # a helper that is handed the curve: every call of the helper passes the runner's curve in that position
            pn = [i["pat"]["name"] for i in f["sig"]["inputs"] if not i.get("self") and i["pat"]["k"] == "PIdent"]
            a0 = strip(arg)
            while a0["k"] in ("Ref", "Paren"):
                a0 = strip(a0["e"])
            if a0["k"] == "Path" and a0["path"] in pn:
                pos = pn.index(a0["path"])
                sites_ = [x for q2, f2 in hosts for x in walk(f2["body"]) if (x["k"] == "Call" and x["func"]["k"] == "Path" and last(x["func"]["path"]) == f["name"]) or (x["k"] == "MethodCall" and x["method"] == f["name"])]
                okc = bool(sites_) and all(len(x["args"]) > pos and is_runner_curve(x["args"][pos]) for x in sites_)
                how = "the helper `%s` is handed the curve by %d caller(s): %s" % (f["name"], len(sites_), [render(x["args"][pos])[:30] if len(x["args"]) > pos else "?" for x in sites_])
        ctx.check(R, "generate_cfg/gets-the-runner's-curve", okc, how, site(RUNF, c))
    g = find_fn(RUNF, "generate_cfg")
    if g is None:
        ctx.missing(R, "generate_cfg")
    else:
        gp = [i["pat"]["name"] for i in g["sig"]["inputs"] if i["pat"]["k"] == "PIdent"]
        ic = [m for m in method_calls(g["body"], "into_cfg")]
        ctx.check(R, "generate_cfg/passes-the-curve-on", len(ic) == 1 and len(gp) == 3 and len(ic[0]["args"]) == 2 and render(strip(ic[0]["args"][0])) == gp[1], "into_cfg(%s)" % (render(ic[0]["args"]) if ic else "?"), site(RUNF, g))
    # Display for Curve (used in messages): distinct names
    ims = find_impl(CONSTS, "Curve", "Display")
    if ims:
        for it in ims[0]["items"]:
            if it["k"] == "Fn" and it["name"] == "fmt":
                ms = [m for m in walk(it["body"]) if m["k"] == "Match"]
                if ms:
                    names = {}
                    for a in ms[0]["arms"]:
                        lits = [n["value"] for n in walk(a["body"]) if n["k"] == "Lit" and n["lit"] == "str"]
                        for v in curve_variant(a["pat"]):
                            names[v] = lits[0] if lits else None
                    ctx.check(R, "Display/injective", len(set(names.values())) == len(names) == 3, str(names))


def run(ctx):
    rule_table(ctx)
    primes = rule_primes(ctx) or {}
    rule_thresholds(ctx, primes)
    rule_fromstr(ctx)
    import procstate

    procstate.rule(ctx, "C11.5", "the table consulted for a definition is the one of that definition's curve: no pass keeps process-wide state (a memoised table would be the one of the first curve analysed) - no `static mut`, no static with interior mutability, no thread_local! / lazy_static! in hand-written non-test code")
