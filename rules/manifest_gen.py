#!/usr/bin/env python3
"""Regenerate MANIFEST.json from the rule modules present (rules/cNN.py)."""
import importlib, json, os, sys
sys.path.insert(0, os.path.dirname(os.path.abspath(__file__)))
VERIF = os.path.dirname(os.path.dirname(os.path.abspath(__file__)))
NA = {
    "C15": "Functional correctness of three graph algorithms over all rooted digraphs; no clause of it is visible in the shape of the code beyond an idom/children pairing; it needs a proof or an exhaustive small-graph enumeration, both outside static analysis (DESIGN.md section 3, C15).",
}
props = [json.loads(l) for l in open(os.path.join(VERIF, "properties.jsonl"))]
checks, na = [], []
for p in props:
    pid = p["id"]
    path = os.path.join(VERIF, "rules", pid.lower() + ".py")
    if pid in NA or not os.path.exists(path):
        na.append({"property_id": pid, "reason": NA.get(pid, "no static rule built yet for this property (DESIGN.md section 9)")})
        continue
    m = importlib.import_module(pid.lower())
    checks.append({
        "property_id": pid,
        "quick_cmd": "bin/check %s --quick" % pid,
        "thorough_cmd": "bin/check %s --thorough" % pid,
        "evidence_file": "evidence/%s.json" % pid,
        "replay_cmd_template": "bin/check %s --replay {path}" % pid,
        "engine": getattr(m, "ENGINE", "astq"),
        "level_claimed": {
            "category": "other",
            "text": "Static decision of structural clauses of the property on the current source, not of the behaviour as a whole: " + m.LEVEL_TEXT,
            "design_ref": "DESIGN.md section 3, " + pid,
        },
        "level_note": "Not decided: " + m.NOT_DECIDED + " Trusted: " + "; ".join(m.TRUSTED),
        "technique": getattr(m, "TECHNIQUE", "static analysis: custom syntax-tree rules (syn) over the repository's source"),
    })
man = {
    "version": 1,
    "setup_cmd": "./bin/setup",
    "hooks": {
        "guard": "circomspect_verif",
        "enable": "none: no hooks exist; the checks read /repo's source and compiler IR and never run it",
        "baseline_off_cmd": "cd /repo && cargo test --workspace --no-fail-fast --offline",
        "source_commits": [],
        "add_only": True,
    },
    "engines": [
        {"name": "astq", "path": "engines/astq", "serves_properties": [c["property_id"] for c in checks], "kind_free_text": "syn-based syntax-tree dumper (stable toolchain); rule modules in rules/*.py query the JSON tree"},
        {"name": "mirfacts", "path": "engines/mirfacts", "serves_properties": [c["property_id"] for c in checks if "mir" in c["engine"]], "kind_free_text": "rustc_private driver (nightly) run as RUSTC_WORKSPACE_WRAPPER under cargo check: MIR CFG, resolved callees, assignments, ADT layouts for every function of the workspace"},
    ],
    "checks": checks,
    "not_applicable": na,
    "notes": "Technique family: static analysis only. Every check re-reads /repo's working tree on every run; VERIF_REPO may point the checks at another copy. Known genuine defects: known_findings.txt.",
}
json.dump(man, open(os.path.join(VERIF, "MANIFEST.json"), "w"), indent=1)
print("claimed:", [c["property_id"] for c in checks])
print("not applicable:", [n["property_id"] for n in na])
