"""Load-time normalisation of the syntax tree, applied to every function before any rule reads it.

Only transformations that cannot change what a rule decides are done here; they remove spelling
differences that carry no meaning, so that no rule has to know them:

  N1  `Option::Some` / `Option::None` / `Result::Ok` / `Result::Err` (with or without `std::..::`) are spelled
      `Some` / `None` / `Ok` / `Err` in expressions and patterns.
  N2  a struct pattern that binds a field under another name (`Update { var: target, .. }`) is rewritten to bind
      the field's own name, in the scope of the binding (match arm, `if let` body, rest of the block after a
      `let`, closure / loop body) - unless that name is already in use in the scope, in which case the code is
      left as written.  The field name is the canonical name of the value; rules then see one spelling.
  N3  `x.is_none()` is kept, but `!x.is_some()` and `!x.is_none()` are spelled `x.is_none()` / `x.is_some()`.
"""
import alpha
from astlib import walk

SHORT = {
    "Option::Some": "Some", "Option::None": "None", "std::option::Option::Some": "Some", "std::option::Option::None": "None",
    "Result::Ok": "Ok", "Result::Err": "Err", "std::result::Result::Ok": "Ok", "std::result::Result::Err": "Err",
    "core::option::Option::Some": "Some", "core::option::Option::None": "None",
}


def n1(root):
    for n in walk(root):
        k = n["k"]
        if k in ("Path", "PPath", "PTupleStruct") and n.get("path") in SHORT:
            n["path"] = SHORT[n["path"]]
        elif k == "PIdent" and n.get("name") in SHORT:
            n["name"] = SHORT[n["name"]]


def n3(root):
    for n in walk(root):
        if n["k"] == "Unary" and n.get("op") == "!":
            e = n["e"]
            while e.get("k") == "Paren":
                e = e["e"]
            if e.get("k") == "MethodCall" and e["method"] in ("is_some", "is_none") and not e["args"]:
                flipped = dict(e)
                flipped["method"] = "is_none" if e["method"] == "is_some" else "is_some"
                n.clear()
                n.update(flipped)


def names_in(nodes):
    used = set()
    for r in nodes:
        for n in walk(r):
            k = n["k"]
            if k == "Path":
                used.add(n["path"])
            elif k == "PIdent":
                used.add(n["name"])
            elif k in ("PStruct", "Struct"):
                for f in n["fields"]:
                    if f.get("shorthand"):
                        used.add(f["name"])
            elif k == "Macro":
                import re

                used.update(re.findall(r"[A-Za-z_]\w*", n.get("raw", "")))
    return used


def field_renames(pat):
    """[(actual binding name, field name)] for the struct patterns inside `pat`"""
    out = []
    for n in walk(pat):
        if n["k"] == "PStruct":
            for f in n["fields"]:
                if f["shorthand"]:
                    continue
                p = f["pat"]
                while p["k"] == "PRef":
                    p = p["pat"]
                if p["k"] == "PIdent" and p.get("sub") is None and p["name"] != f["name"] and p["name"][:1].islower():
                    out.append((p["name"], f["name"]))
    return out


def reshorthand(pat):
    for n in walk(pat):
        if n["k"] == "PStruct":
            for f in n["fields"]:
                p = f["pat"]
                if not f["shorthand"] and p["k"] == "PIdent" and p["name"] == f["name"] and p.get("sub") is None:
                    f["shorthand"] = True


def apply_scope(pat, scope_nodes):
    """rename the field bindings of `pat` to the field names inside pat + scope_nodes"""
    rn = field_renames(pat)
    if not rn:
        return
    targets = [b for _a, b in rn]
    actuals = [a for a, _b in rn]
    used = names_in([pat] + scope_nodes)
    for a, b in rn:
        # the field name must be free in the scope, and must not be wanted twice (two variants binding the same field
        # in one or-pattern bind the same name anyway: allowed when the actual names agree)
        if b in used:
            continue
        if targets.count(b) > 1 and len({x for x, y in rn if y == b}) > 1:
            continue
        if actuals.count(a) > 1 and len({y for x, y in rn if x == a}) > 1:
            continue
        mp = {a: b}
        alpha.rename(pat, mp)
        for s in scope_nodes:
            alpha.rename(s, mp)
    reshorthand(pat)


def n2(node):
    """recursive, scope aware"""
    if isinstance(node, list):
        for x in node:
            n2(x)
        return
    if not isinstance(node, dict):
        return
    k = node.get("k")
    if k == "Block":
        stmts = node["stmts"]
        for i, s in enumerate(stmts):
            if s.get("k") == "Local" and s.get("pat") is not None:
                apply_scope(s["pat"], stmts[i + 1:])
    elif k == "Arm":
        apply_scope(node["pat"], [x for x in (node.get("guard"), node.get("body")) if x])
    elif k == "If":
        lets = [c for c in cond_lets(node["cond"])]
        for l in lets:
            apply_scope(l["pat"], [node["cond"], node["then"]])
    elif k == "While":
        for l in cond_lets(node["cond"]):
            apply_scope(l["pat"], [node["cond"], node["body"]])
    elif k == "For":
        apply_scope(node["pat"], [node["body"]])
    elif k == "Closure":
        for p in node.get("inputs", []):
            apply_scope(p, [node["body"]])
    elif k == "Match":
        # arms are plain dicts with pat/guard/body
        for a in node["arms"]:
            if isinstance(a, dict) and "pat" in a and a.get("k") != "Arm":
                apply_scope(a["pat"], [x for x in (a.get("guard"), a.get("body")) if x])
    for v in node.values():
        if isinstance(v, (dict, list)):
            n2(v)


def cond_lets(c):
    out = []
    if not isinstance(c, dict):
        return out
    if c.get("k") == "Let":
        out.append(c)
    elif c.get("k") == "Binary" and c.get("op") == "&&":
        out += cond_lets(c["l"]) + cond_lets(c["r"])
    elif c.get("k") == "Paren":
        out += cond_lets(c["e"])
    return out


def n5(body):
    """N5: a struct literal field (or shorthand) that is a bare name of an immutable pure `let` still valid at that
    point reads as the let's definition: `let location = start..end; Meta { location, .. }` is `Meta { location:
    start..end, .. }`."""
    from pathcond import _subst, find_path, pure_let_env

    structs = [n for n in walk(body) if n["k"] == "Struct" and any(strip_(f["e"]).get("k") == "Path" for f in n["fields"])]
    used = set()
    for st in structs:
        path = find_path(body, st)
        if path is None:
            continue
        env = pure_let_env(path)
        if not env:
            continue
        for f in st["fields"]:
            e = strip_(f["e"])
            if e.get("k") == "Path" and e["path"] in env:
                if any(n_["k"] == "Path" and n_["path"] == e["path"] for n_ in walk(env[e["path"]])):
                    continue  # `let x = f(x);` shadows an outer x: its definition cannot be moved below the let
                used.add(e["path"])
                f["e"] = _subst(e, env)
                f["shorthand"] = False
    # a let that is no longer referenced in its scope is dropped (the literal now carries its definition)
    if used:
        import re

        def refs_in(nodes, name):
            for r in nodes:
                for n in walk(r):
                    if n["k"] == "Path" and n["path"] == name:
                        return True
                    if n["k"] == "Macro" and re.search(r"(?<![\w.])%s(?!\w)" % re.escape(name), n.get("raw", "")):
                        return True
                    if n["k"] == "Struct" and any(f.get("shorthand") and f["name"] == name for f in n["fields"]):
                        return True
            return False

        for blk in [n for n in walk(body) if n["k"] == "Block"]:
            keep = []
            stmts = blk["stmts"]
            for i, s_ in enumerate(stmts):
                if s_.get("k") == "Local" and s_["pat"]["k"] == "PIdent" and s_["pat"]["name"] in used and not s_["pat"].get("mut") and s_.get("else") is None and not refs_in(stmts[i + 1:], s_["pat"]["name"]):
                    continue
                keep.append(s_)
            blk["stmts"] = keep


def strip_(e):
    while isinstance(e, dict) and e.get("k") in ("Paren", "Ref"):
        e = e["e"]
    return e if isinstance(e, dict) else {}


def n6(body):
    """N6: `let Self { a, b: c, .. } = self;` (or the type's own name) - the bindings are the fields of `self`: uses of `a`
    read as `self.a`, the `let` is dropped.  Skipped when a bound name is rebound or already used before the `let`."""
    for blk in [n for n in walk(body) if n["k"] == "Block"]:
        stmts = blk["stmts"]
        i = 0
        while i < len(stmts):
            s_ = stmts[i]
            if s_.get("k") == "Local" and s_.get("else") is None and s_.get("init") is not None and s_["pat"]["k"] == "PStruct" and strip_(s_["init"]).get("k") == "Path" and strip_(s_["init"])["path"] == "self":
                binds = {}
                ok = True
                for f in s_["pat"]["fields"]:
                    p = f["pat"]
                    while p["k"] == "PRef":
                        p = p["pat"]
                    if p["k"] == "PIdent" and p.get("sub") is None:
                        binds[p["name"]] = f["name"]
                    elif p["k"] != "PWild":
                        ok = False
                rest = stmts[i + 1:]
                rebound = {b["name"] for r in rest for b in walk(r) if b["k"] == "PIdent"} & set(binds)
                if ok and binds and not rebound:
                    for r in rest:
                        _fields_of_self(r, binds)
                    del stmts[i]
                    continue
            i += 1


def _fields_of_self(node, binds):
    if isinstance(node, list):
        for x in node:
            _fields_of_self(x, binds)
        return
    if not isinstance(node, dict):
        return
    if node.get("k") == "Path" and node["path"] in binds:
        fld = {"k": "Field", "line": node.get("line", 0), "base": {"k": "Path", "line": node.get("line", 0), "path": "self"}, "member": binds[node["path"]]}
        node.clear()
        node.update(fld)
        return
    if node.get("k") == "Struct":
        for f in node["fields"]:
            if f.get("shorthand") and f["name"] in binds:
                f["shorthand"] = False
    if node.get("k") == "Macro" and not node.get("parsed"):
        import re

        raw = node.get("raw", "")
        for a, b in binds.items():
            raw = re.sub(r"(?<![\w.])%s(?!\w)" % re.escape(a), "self." + b, raw)
        node["raw"] = raw
    for v in node.values():
        if isinstance(v, (dict, list)):
            _fields_of_self(v, binds)


def n7(body):
    """N7: `let (a, b) = (e1, e2);` is `let a = e1; let b = e2;` (same evaluation order); nested tuples and typed
    patterns are left alone."""
    for blk in [n for n in walk(body) if n["k"] == "Block"]:
        out = []
        for s_ in blk["stmts"]:
            if s_.get("k") == "Local" and s_.get("else") is None and s_.get("init") is not None and s_["pat"]["k"] == "PTuple":
                init = s_["init"]
                while isinstance(init, dict) and init.get("k") == "Paren":
                    init = init["e"]
                els = s_["pat"]["elems"]
                if init.get("k") == "Tuple" and len(init["elems"]) == len(els) and len(els) >= 2 and all(x["k"] in ("PIdent", "PWild") and x.get("sub") is None for x in els):
                    names = [x["name"] for x in els if x["k"] == "PIdent"]
                    # a later element must not mention an earlier binding of the same statement (it would change meaning)
                    clash = any(n_["k"] == "Path" and n_["path"] in names for e_ in init["elems"] for n_ in walk(e_))
                    if not clash:
                        for x, e_ in zip(els, init["elems"]):
                            out.append({"k": "Local", "line": s_.get("line", 0), "pat": x, "init": e_, "else": None, "ty": None})
                        continue
            out.append(s_)
        blk["stmts"] = out


def n8(body):
    """N8: a statement `ITER.for_each(|p| BODY);` is `for p in ITER { BODY }` when the closure has one parameter, does
    not `move` and its body contains no `return` / `?` / `break` / `continue` (which mean something else in a closure)."""
    for blk in [n for n in walk(body) if n["k"] == "Block"]:
        for s_ in blk["stmts"]:
            if s_.get("k") != "ExprStmt":
                continue
            e = s_["e"]
            while isinstance(e, dict) and e.get("k") == "Paren":
                e = e["e"]
            if e.get("k") == "MethodCall" and e["method"] == "for_each" and len(e["args"]) == 1 and e["args"][0].get("k") == "Closure" and len(e["args"][0]["inputs"]) == 1:
                cl = e["args"][0]
                if any(x["k"] in ("Return", "Try", "Break", "Continue") for x in walk(cl["body"])):
                    continue
                b = cl["body"]
                if b.get("k") != "Block":
                    b = {"k": "Block", "line": b.get("line", 0), "end_line": b.get("line", 0), "stmts": [{"k": "ExprStmt", "line": b.get("line", 0), "e": b, "semi": True}]}
                pat = cl["inputs"][0]
                while pat.get("k") == "PType":
                    pat = pat["pat"]
                it = e["recv"]
                if it.get("k") == "MethodCall" and it["method"] == "into_iter" and not it["args"]:
                    it = it["recv"]  # `for p in X` already calls into_iter
                s_["e"] = {"k": "For", "line": e.get("line", 0), "pat": pat, "iter": it, "body": b}
                s_["semi"] = False


def normalise_fn(fn):
    body = fn.get("body")
    if not body:
        return
    n1(fn)
    n3(body)
    n6(body)
    n7(body)
    n8(body)
    n5(body)
    for i in fn["sig"]["inputs"]:
        if not i.get("self") and i.get("pat"):
            apply_scope(i["pat"], [body])
    n2(body)


def trivial_getters(items):
    """{type: {method: field}} for `fn m(&self) -> .. { &self.f }` / `self.f.clone()` / `self.f` in the impls of a file"""
    from astlib import block_tail, strip

    out = {}
    for it in items:
        if it.get("k") == "Mod" and it.get("items"):
            for k, v in trivial_getters(it["items"]).items():
                out.setdefault(k, {}).update(v)
        if it.get("k") != "Impl":
            continue
        ty = it["self_ty"].split("<")[0].strip()
        for sub in it.get("items", []):
            if sub.get("k") != "Fn" or not sub.get("body"):
                continue
            ins = sub["sig"]["inputs"]
            if len(ins) != 1 or not ins[0].get("self"):
                continue
            if len(sub["body"]["stmts"]) != 1:
                continue
            t = block_tail(sub["body"])
            if t is None:
                continue
            t = strip(t)
            if t["k"] == "Field" and t["base"].get("k") == "Path" and t["base"]["path"] == "self":
                out.setdefault(ty, {})[sub["name"]] = t["member"]
    return out


def inline_getters(items, getters=None):
    """N4: inside the impls of a type, `self.m()` where m is a trivial getter of that type reads as `self.<field>`"""
    if getters is None:
        getters = trivial_getters(items)
    for it in items:
        if it.get("k") == "Mod" and it.get("items"):
            inline_getters(it["items"], getters)
        if it.get("k") != "Impl":
            continue
        ty = it["self_ty"].split("<")[0].strip()
        g = getters.get(ty)
        if not g:
            continue
        for sub in it.get("items", []):
            if sub.get("k") != "Fn" or not sub.get("body"):
                continue
            if sub["name"] in g:
                continue  # the getter itself
            for n in walk(sub["body"]):
                if n["k"] == "MethodCall" and not n["args"] and n["method"] in g and n["recv"].get("k") == "Path" and n["recv"]["path"] == "self":
                    fld = {"k": "Field", "line": n.get("line", 0), "base": n["recv"], "member": g[n["method"]]}
                    n.clear()
                    n.update(fld)


def normalise_items(items, top=True):
    if top:
        inline_getters(items)
    for it in items:
        k = it.get("k")
        if k == "Fn":
            normalise_fn(it)
        elif k in ("Impl", "Trait"):
            for sub in it.get("items", []):
                if sub.get("k") == "Fn":
                    normalise_fn(sub)
        elif k == "Mod" and it.get("items"):
            normalise_items(it["items"], top=False)
