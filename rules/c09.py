"""C09 `Value never read` / `no side effect` claims about variables are true."""
import re

import a10
import facts
from astlib import calls, find_fn, fns_in_file, last, method_calls, pat_paths, render, site, strip, walk
from pathcond import conditions_to, fact_str, facts_str, let_env
import c14
import alpha
import sgrep

TA_FN_ROLES = [("cfg", "param", 0), ("result", "let", "TaintAnalysis::new(cfg.parameters())"), ("basic_block", "forvar", "cfg.iter()"), ("stmt", "forvar", "basic_block.iter()")]
TA_ARM_ROLES = {
    "Substitution": [("sink", "forvar", "stmt.variables_written()"), ("source", "forvar", "stmt.variables_read()")],
    "Declaration": [("meta", "field", "Declaration", "meta"), ("names", "field", "Declaration", "names"), ("dimensions", "field", "Declaration", "dimensions"),
                    ("sink", "forvar", "names"), ("size", "forvar", "dimensions"), ("source", "forvar", "size.variables_read()")],
    "IfThenElse": [("cond", "field", "IfThenElse", "cond"), ("true_branch", "let", "cfg.get_true_branch(basic_block)", "optional"), ("false_branch", "let", "cfg.get_false_branch(basic_block)", "optional"),
                   ("body", "forvar", "true_branch.iter().chain(false_branch.iter())"), ("sink", "forvar", "body.variables_written()"), ("source", "forvar", "cond.variables_read()")],
}

TITLE = "Unused / side-effect-free claims"
LEVEL_TEXT = (
    "taint steps exist for every statement kind (reads -> writes, dimensions -> declared names, non-constant condition -> everything"
    " written in both branch regions); the sink set is exported signals + their constraint partners + everything read by"
    " declarations, returns, asserts and conditions (all variable classes); reads and writes of every node kind are recorded in"
    " the class of the variable's type and every child's uses are merged; a claim is issued exactly on `not read` / `taints no"
    " sink`; SSA prerequisites shared with C14; the taint pass, the taint closure and the side-effect pass are evaluated on table worlds (every statement kind; each ingredient of the sink set decisive for one variable)."
)
NOT_DECIDED = "that branch regions (dominance-frontier intervals) and the taint closure are computed correctly for every program shape."
TRUSTED = ["syn parser", "path-condition extractor"]

TA = "program_analysis/src/taint_analysis.rs"
SE = "program_analysis/src/side_effect_analysis.rs"
EI = "program_structure/src/intermediate_representation/expression_impl.rs"
SI = "program_structure/src/intermediate_representation/statement_impl.rs"
IR = "program_structure/src/intermediate_representation/ir.rs"
VMF = "program_structure/src/intermediate_representation/variable_meta.rs"

CLASSES = ("locals", "signals", "components")


def eval_taint(ctx, R, fn):
    """C09.1 by evaluation: run_taint_analysis is run on small graphs - one statement of every kind, then all of them
    spread over several blocks - whose statements, conditions and dimensions answer the read / write queries with
    markers; the taint steps recorded must be exactly those of the rule table.  Returns True when decided."""
    import passeval
    from finfun import NONE, S, Unsupported
    from passeval import MMap, MSet, O, Panic, V

    try:
        w = passeval.PassWorld([IR, TA], TA)
    except Exception as e:  # noqa: BLE001
        ctx.note("run_taint_analysis: evaluator unavailable (%s)" % e)
        return False
    w.lenient_opaque = True
    names = {}

    def name(x):
        return names.setdefault(x, O("name:" + x))

    def use(x):
        nm = name(x)
        return ("O", "use:" + x, (("name", nm), ("clone", ("PY", lambda: use(x)))))

    uses_cache = {}

    def U(x):
        return uses_cache.setdefault(x, use(x))

    def L(xs):
        return ("L", tuple(xs))

    def expr(tag, reads, value=NONE):
        return ("O", "expr:" + tag, (("variables_read", L(U(r) for r in reads)), ("value", value), ("variables_written", L([]))))

    def stmt(variant, reads=(), writes=(), **fields):
        f = dict(fields)
        f.setdefault("meta", O("meta:" + variant))
        f["__reads"], f["__writes"] = L(U(r) for r in reads), L(U(x) for x in writes)
        return V("Statement", variant, **f)

    w.method_stubs = {("Statement", "variables_read"): lambda recv, args: recv[3]["__reads"], ("Statement", "variables_written"): lambda recv, args: recv[3]["__writes"],
                      ("Expression", "variables_read"): lambda recv, args: recv[3].get("__reads", L([])), ("Expression", "variables_written"): lambda recv, args: L([]),
                      ("Expression", "value"): lambda recv, args: recv[3].get("__value", NONE), ("Expression", "meta"): lambda recv, args: recv[3]["meta"]}

    def block(tag, stmts):
        writes = [u for st in stmts for u in st[3]["__writes"][1]]
        return ("O", "block:" + tag, (("iter", L(stmts)), ("variables_written", L(writes)), ("len", len(stmts))))

    phi = V("Expression", "Phi", meta=O("phi-meta"), args=L([]))
    num = V("Expression", "Number", meta=O("num-meta"), value=1)

    def world(tag, blocks, regions, want):
        return (tag, blocks, regions, want)

    def simple(tag, st, want):
        return world(tag, [block("b0", [st])], {}, want)

    sub = stmt("Substitution", ("r1", "r2"), ("w1", "w2"), var=O("var"), op=O("op"), rhe=num)
    subphi = stmt("Substitution", ("p1", "p2"), ("q",), var=O("var"), op=O("op"), rhe=phi)
    decl = stmt("Declaration", (), (), names=L([name("n1"), name("n2")]), var_type=O("var_type"), dimensions=L([expr("d1", ["a"]), expr("d2", ["b", "c"])]))
    others = [stmt(vn, ("o1", "o2"), ()) for vn in ("Assert", "LogCall", "Return", "ConstraintEquality")]
    for o_ in others:
        for fld in ("cond", "value", "lhe", "rhe", "args"):
            o_[3].setdefault(fld, expr(o_[2] + "." + fld, ["o1"]))
    # right-hand sides of other shapes: a known constant, an element update whose index and stored value read different variables
    known_num = V("Expression", "Number", meta=O("num-meta"), value=1, __value=S("Some", O("value")))
    upd = V("Expression", "Update", meta=O("upd-meta"), var=name("arr"), access=L([S("ArrayAccess", expr("index", ["i"])), S("ComponentAccess", "in"), S("ArrayAccess", V("Expression", "Variable", meta=O("vm"), name=name("j"), __reads=L([U("j")])))]),
            rhe=expr("stored", ["v"]), __reads=L([U("arr"), U("i"), U("j"), U("v")]))
    sub_known = stmt("Substitution", ("kr",), ("kw",), var=O("var"), op=O("op"), rhe=known_num)
    sub_upd = stmt("Substitution", ("arr", "i", "j", "v"), ("arr2",), var=O("var"), op=O("op"), rhe=upd)
    worlds = [
        simple("assignment of a known constant", sub_known, {("kr", "kw")}),
        simple("element update", sub_upd, {(r, "arr2") for r in ("arr", "i", "j", "v")}),
        simple("assignment", sub, {(r, x) for r in ("r1", "r2") for x in ("w1", "w2")}),
        simple("phi assignment", subphi, {("p1", "q"), ("p2", "q")}),
        simple("declaration", decl, {(a, n) for a in ("a", "b", "c") for n in ("n1", "n2")}),
    ] + [simple(o_[2], o_, set()) for o_ in others]
    for known in (False, True):
        cond = expr("cond", ["c1", "c2"], S("Some", O("value")) if known else NONE)
        ite = stmt("IfThenElse", ("c1", "c2"), (), cond=cond, true_index=1, false_index=S("Some", 3))
        b0 = block("if-header", [ite])
        t1 = block("t1", [stmt("Substitution", ("k",), ("x",), var=O("var"), op=O("op"), rhe=num)])
        t2 = block("t2", [stmt("Substitution", (), ("y1", "y2"), var=O("var"), op=O("op"), rhe=num)])
        f1 = block("f1", [stmt("Substitution", (), ("z",), var=O("var"), op=O("op"), rhe=num)])
        want = set() if known else {(c_, x) for c_ in ("c1", "c2") for x in ("x", "y1", "y2", "z")}
        # only the header is walked here: the region blocks' own statements are not part of this world
        worlds.append(world("if-statement, condition %s" % ("known" if known else "not known"), [b0], {id(b0): ([t1, t2], [f1])}, want))
    # everything at once, spread over blocks
    sub2 = stmt("Substitution", ("s",), ("t",), var=O("var"), op=O("op"), rhe=num)
    allb = [block("A", [sub, decl]), block("B", [others[0], sub2]), block("C", [subphi])]
    worlds.append(world("three blocks", allb, {}, worlds[2][3] | worlds[3][3] | worlds[4][3] | {("s", "t")}))
    bad = {}
    n = 0
    for tag, blocks, regions, want in worlds:
        asked = []

        def region(which, blocks=blocks, regions=regions, asked=asked):
            def f(bb):
                for b_ in blocks:
                    if b_ is bb:
                        asked.append((which, True))
                        r_ = regions.get(id(b_))
                        return L(r_[which] if r_ else [])
                asked.append((which, False))
                return L([])
            return ("PY", f)

        params = ("O", "parameters", (("iter", L([])), ("file_location", O("loc")), ("file_id", NONE), ("len", 0)))
        cfg = ("O", "cfg", (("parameters", params), ("iter", L(blocks)), ("get_true_branch", region(0)), ("get_false_branch", region(1)), ("name", "f")))
        try:
            res = w.call_fn(fn, [cfg])
        except Unsupported as u:
            ctx.note("run_taint_analysis is outside the evaluator's subset (%s): shape obligations apply" % u)
            return False
        except Panic as p_:
            bad.setdefault("no-panic", "%s: %s" % (tag, p_))
            continue
        n += 1
        tm = None
        if isinstance(res, tuple) and res and res[0] == "S" and res[1] == "TaintAnalysis":
            flds = w.structs.get("TaintAnalysis") or []
            if "taint_map" in flds:
                tm = res[2][flds.index("taint_map")]
        if not isinstance(tm, MMap):
            ctx.note("run_taint_analysis: the result is not a TaintAnalysis with a taint_map (%r): shape obligations apply" % (res,))
            return False
        got = set()
        inv = {id(v_): k_ for k_, v_ in names.items()}
        okv = True
        for k_, v_ in tm.pairs:
            if not isinstance(v_, MSet) or id(k_) not in inv:
                okv = False
                continue
            for x in v_.items:
                if id(x) not in inv:
                    okv = False
                else:
                    got.add((inv[id(k_)], inv[id(x)]))
        if not okv:
            bad.setdefault("steps", "%s: the taint map holds something other than variable names" % tag)
        elif got != want:
            miss, extra = sorted(want - got), sorted(got - want)
            bad.setdefault("missing" if miss else "extra", "%s: %s" % (tag, ("no taint step %s" % ["%s -> %s" % m_ for m_ in miss[:4]]) if miss else ("unexpected taint step %s" % ["%s -> %s" % m_ for m_ in extra[:4]])))
        if any(not ok_ for _w, ok_ in asked):
            bad.setdefault("region", "%s: the branch regions of a block other than the one holding the if-statement are asked for" % tag)
    ctx.floor(R, "graph worlds evaluated (taint analysis)", n, 12)
    ctx.check(R, "run_taint_analysis/table/no-panic", "no-panic" not in bad, bad.get("no-panic", "no world makes the pass panic"), site(TA, fn))
    ctx.check(R, "run_taint_analysis/table/every-step-recorded", not ({"missing", "steps"} & set(bad)), bad.get("missing") or bad.get("steps") or "reads -> writes, dimension reads -> declared names, reads of a condition without a known value -> everything written in both branch regions; for every statement of every block", site(TA, fn))
    ctx.check(R, "run_taint_analysis/table/nothing-else-recorded", "extra" not in bad and "region" not in bad, bad.get("extra") or bad.get("region") or "no step for asserts, logs, returns, constraints or a condition with a known value", site(TA, fn))
    return True


def rule_taint(ctx):
    R = "C09.1"
    ctx.rule(R, "every statement kind has its taint rule: an assignment taints what it writes with everything it reads; dimensions taint the declared names; a condition without a known constant value taints everything written in the true and in the false branch region; nothing else is skipped")
    fn0 = find_fn(TA, "run_taint_analysis")
    if fn0 is None:
        return ctx.missing(R, "run_taint_analysis")
    decided = eval_taint(ctx, R, fn0)
    if decided:
        return rule_taint_closure(ctx, R)
    fn, miss = alpha.canon_with_arms(fn0, TA_FN_ROLES, "stmt", TA_ARM_ROLES)
    if miss:
        return ctx.missing(R, "run_taint_analysis/roles", "cannot identify %s" % miss)
    ms = [m for m in walk(fn["body"]) if m["k"] == "Match" and render(strip(m["scrut"])) == "stmt"]
    if len(ms) != 1:
        return ctx.missing(R, "run_taint_analysis/match")
    m = ms[0]
    variants = []
    for a in m["arms"]:
        variants += [last(p) for p in pat_paths(a["pat"])]
    ctx.check(R, "run_taint_analysis/no-catch-all", "_" not in variants and set(variants) == {"Substitution", "Declaration", "IfThenElse", "Assert", "LogCall", "Return", "ConstraintEquality"}, "arms: %s" % variants, site(TA, m))
    cs = conditions_to(fn["body"], m) or []
    ctx.check(R, "run_taint_analysis/every-statement", [c[0] for c in cs] == ["loop", "loop"] and not [x for x in cs if x[0] != "loop"], "match under %s" % facts_str(cs), site(TA, m))
    arms = {}
    for a in m["arms"]:
        for p in pat_paths(a["pat"]):
            arms[last(p)] = a
    # Substitution
    a = arms.get("Substitution")
    if a is not None:
        steps = list(method_calls(a["body"], "add_taint_step"))
        ok = len(steps) == 1
        if ok:
            from pathcond import each_form

            rest_, args_ = each_form(conditions_to(a["body"], steps[0]) or [], steps[0]["args"])
            c2 = rest_ + args_
            ok = rest_ == [] and args_ == ["each(stmt.variables_read()).name()", "each(stmt.variables_written()).name()"]
            ctx.check(R, "Substitution/reads-taint-writes", ok, "step %s under %s" % (render(steps[0])[:80], c2), site(TA, steps[0]))
        else:
            ctx.bad(R, "Substitution/reads-taint-writes", "expected one add_taint_step, found %d" % len(steps), site(TA, a))
    # Declaration
    a = arms.get("Declaration")
    if a is not None:
        steps = list(method_calls(a["body"], "add_taint_step"))
        ok = len(steps) == 1
        if ok:
            from pathcond import each_form

            rest_, args_ = each_form(conditions_to(a["body"], steps[0]) or [], steps[0]["args"])
            c2 = rest_ + args_
            ok = rest_ == [] and args_ == ["each(each(dimensions).variables_read()).name()", "each(names)"]
            ctx.check(R, "Declaration/dimensions-taint-declared-names", ok, "step under %s" % c2, site(TA, steps[0]))
        else:
            ctx.bad(R, "Declaration/dimensions-taint-declared-names", "expected one add_taint_step", site(TA, a))
    # IfThenElse
    a = arms.get("IfThenElse")
    if a is not None:
        steps = list(method_calls(a["body"], "add_taint_step"))
        conts = [x for x in walk(a["body"]) if x["k"] in ("Continue", "Break", "Return")]
        # (that the step itself sits under `!cond.value().is_some()` and nothing else is checked below)
        okc = len(conts) <= 1 and all([fact_str(c).replace(" ", "") for c in (conditions_to(a["body"], x) or [])] == ["cond.value().is_some()"] for x in conts)
        ctx.check(R, "IfThenElse/skipped-only-for-a-known-constant-condition", okc, "early exits: %s" % [facts_str(conditions_to(a["body"], x) or []) for x in conts], site(TA, a))
        le = let_env(a["body"])
        # the two region lets, whatever they are called
        tbn = [k_ for k_, v_ in le.items() if render(strip(v_)).replace(" ", "") == "cfg.get_true_branch(basic_block)"]
        fbn = [k_ for k_, v_ in le.items() if render(strip(v_)).replace(" ", "") == "cfg.get_false_branch(basic_block)"]
        tb, fb = (le.get(tbn[0]) if tbn else None), (le.get(fbn[0]) if fbn else None)
        inline_regions = "cfg.get_true_branch(basic_block)" in render(a["body"]).replace(" ", "") and "cfg.get_false_branch(basic_block)" in render(a["body"]).replace(" ", "")
        okb = (tb is not None and fb is not None) or inline_regions
        ctx.check(R, "IfThenElse/both-branch-regions-of-this-block", okb, "true: %s false: %s" % (render(tb) if tb else "?", render(fb) if fb else "?"), site(TA, a))
        if len(steps) == 1:
            from pathcond import each_form

            from pathcond import _subst

            le_step = let_env(a["body"], steps[0])
            rest_, args_ = each_form(conditions_to(a["body"], steps[0]) or [], [_subst(x, {k_: v_ for k_, v_ in le_step.items() if strip(x).get("k") == "Path" and strip(x)["path"] == k_}) for x in steps[0]["args"]])
            c2 = rest_ + args_
            regions = "cfg.get_true_branch(basic_block).iter().chain(cfg.get_false_branch(basic_block).iter())"
            args_n = list(args_)
            if tbn and fbn:
                args_n = [x.replace(tbn[0] + ".iter()", "cfg.get_true_branch(basic_block).iter()").replace(fbn[0] + ".iter()", "cfg.get_false_branch(basic_block).iter()") for x in args_n]
            # names bound to `source.name()` / `sink.name()` stand for those calls
            for k_, v_ in le.items():
                vt = render(strip(v_)).replace(" ", "")
                args_n = [vt if x == k_ else x for x in args_n]
            ok = rest_ == ["!cond.value().is_some()"] and (args_n == ["each(cond.variables_read()).name()", "each(each(%s).variables_written()).name()" % regions] or args_ == ["each(cond.variables_read()).name()", "each(each(%s).variables_written()).name()" % regions])
            c2 = rest_ + args_n
            ctx.check(R, "IfThenElse/condition-taints-everything-written-in-both-regions", ok, "step under %s" % c2, site(TA, steps[0]))
        else:
            ctx.bad(R, "IfThenElse/condition-taints-everything-written-in-both-regions", "expected one add_taint_step, found %d" % len(steps), site(TA, a))
    rule_taint_closure(ctx, R)


def eval_taint_closure(ctx, R):
    """The taint relation by evaluation: add_taint_step builds the map, multi_step_taint is the reflexive-transitive
    closure and taints_any its intersection test - on a chain, a cycle, a diamond and an isolated node."""
    import passeval
    from finfun import Unsupported
    from passeval import MSet, O, Panic

    try:
        w = passeval.PassWorld([TA], TA)
    except Exception:  # noqa: BLE001
        return False
    w.max_rounds = 5000
    need = ["add_taint_step", "multi_step_taint", "taints_any"]
    if any(("TaintAnalysis", m_) not in w.methods for m_ in need) or "TaintAnalysis" not in w.struct_fields:
        return False
    ats, mst, tany = [w.methods[("TaintAnalysis", m_)][0] for m_ in need]
    nodes = {x: ("O", "name:" + x, (("clone", ("PY", (lambda x=x: nodes[x]))),)) for x in "abcdefg"}
    graphs = {
        "chain": [("a", "b"), ("b", "c"), ("c", "d")],
        "cycle": [("a", "b"), ("b", "c"), ("c", "a"), ("c", "d")],
        "diamond": [("a", "b"), ("a", "c"), ("b", "d"), ("c", "d"), ("d", "e")],
        "self-loop": [("a", "a"), ("a", "b")],
        "nothing": [],
    }
    # a long chain: the closure may not stop after a fixed number of rounds
    LONG = 600
    for i in range(LONG + 1):
        nodes["n%d" % i] = ("O", "name:n%d" % i, (("clone", ("PY", (lambda i=i: nodes["n%d" % i]))),))
    graphs["chain of %d steps" % LONG] = [("n%d" % i, "n%d" % (i + 1)) for i in range(LONG)]
    bad = {}
    n = 0
    for tag, edges in graphs.items():
        try:
            self_ = w.default_of("TaintAnalysis")
            for s_, t_ in edges:
                w.call_fn(ats, [self_, nodes[s_], nodes[t_]])
            if tag.startswith("chain of"):
                got = w.call_fn(mst, [self_, nodes["n0"]])
                n += 1
                if not isinstance(got, MSet) or len(got.items) != LONG + 1:
                    bad.setdefault("closure", "%s: multi_step_taint(first) has %s members, the closure has %d" % (tag, len(got.items) if isinstance(got, MSet) else "?", LONG + 1))
                continue
            for src in "abcdef":
                reach, todo = {src}, [src]
                while todo:
                    x = todo.pop()
                    for s_, t_ in edges:
                        if s_ == x and t_ not in reach:
                            reach.add(t_)
                            todo.append(t_)
                got = w.call_fn(mst, [self_, nodes[src]])
                n += 1
                if not isinstance(got, MSet):
                    raise Unsupported("multi_step_taint returns %r" % (got,))
                gotn = {k_ for k_, v_ in nodes.items() if any(y is v_ for y in got.items)}
                if gotn != reach or len(got.items) != len(gotn):
                    bad.setdefault("closure", "%s %s: multi_step_taint(%s) = %s, the reflexive-transitive closure is %s" % (tag, edges, src, sorted(gotn), sorted(reach)))
                for sinks in (["g"], ["e", "g"], ["d"], [src], []):
                    want = bool(reach & set(sinks))
                    g2 = w.call_fn(tany, [self_, nodes[src], MSet([nodes[x] for x in sinks])])
                    n += 1
                    if g2 is not want:
                        bad.setdefault("any", "%s %s: taints_any(%s, %s) = %s" % (tag, edges, src, sinks, g2))
        except Unsupported as u:
            ctx.note("the taint relation is outside the evaluator's subset (%s): shape obligations apply" % u)
            return False
        except Panic as p_:
            bad.setdefault("closure", "%s: panics (%s)" % (tag, p_))
    ctx.floor(R, "closure queries evaluated", n, 100)
    ctx.check(R, "TaintAnalysis::multi_step_taint/reflexive-transitive-closure", "closure" not in bad, bad.get("closure", "equals the reflexive-transitive closure of the recorded steps on 5 graphs, every source"), site(TA, mst))
    ctx.check(R, "TaintAnalysis::taints_any", "any" not in bad, bad.get("any", "true exactly when the closure meets the sinks"), site(TA, tany))
    return True


def rule_taint_closure(ctx, R):
    if eval_taint_closure(ctx, R):
        return rule_region_callers(ctx, R)
    # closure
    mt = find_fn(TA, "multi_step_taint")
    if mt is not None:
        t = render(mt["body"]).replace(" ", "")
        pv = sgrep.params(mt)
        envl = sgrep.lets(mt["body"])
        ok = False
        if pv and sgrep.has(mt["body"], "HashSet::from([__src])", None, {"__src": pv[0]}):
            for ext, b_ in sgrep.find(mt["body"], "__r.extend(__u.iter().cloned())"):
                step = sgrep.find(mt["body"], "__u = __u.iter().flat_map(|__x| self.single_step_taint(__x)).collect()", None, {"__u": b_["__u"]})
                seed = envl.get(b_["__u"])
                if not step or seed is None or not sgrep.match(sgrep.pattern("HashSet::from([__src])"), seed, {"__src": pv[0]}):
                    continue
                good = True
                for node in (ext, step[0][0]):
                    cs_ = conditions_to(mt["body"], node) or []
                    inloop = any(c[0] == "loop" for c in cs_)
                    # iterate exactly while the frontier is not yet contained in the result (while-form or loop/break form)
                    guard = [c for c in cs_ if c[0] == "if"]
                    good = good and inloop and len(guard) == 1 and not guard[0][2] and sgrep.match(sgrep.pattern("__u.is_subset(__r)"), guard[0][1], {"__u": b_["__u"], "__r": b_["__r"]})
                from astlib import block_tail as _bt

                tail = _bt(mt["body"])
                ok = good and tail is not None and render(strip(tail)) == b_["__r"]
        ctx.check(R, "TaintAnalysis::multi_step_taint/reflexive-transitive-closure", ok, t[:260], site(TA, mt))
    ta = find_fn(TA, "taints_any")
    if ta is not None:
        t = render(ta["body"]).replace(" ", "")
        pv = sgrep.params(ta)
        ctx.check(R, "TaintAnalysis::taints_any", len(pv) == 2 and sgrep.has(ta["body"], "self.multi_step_taint(__a).iter().any(|__x| __b.contains(__x))", sgrep.lets(ta["body"]), {"__a": pv[0], "__b": pv[1]}), t, site(TA, ta))
    ats = find_fn(TA, "add_taint_step")
    if ats is not None:
        t = render(ats["body"]).replace(" ", "")
        pv = sgrep.params(ats)
        ctx.check(R, "TaintAnalysis::add_taint_step", len(pv) == 2 and sgrep.has(ats["body"], "self.taint_map.entry(__a).or_default().insert(__b)", sgrep.lets(ats["body"]), {"__a": pv[0], "__b": pv[1]}), t, site(TA, ats))
    rule_region_callers(ctx, R)


def rule_region_callers(ctx, R):
    # who may call the branch-region queries
    callers = set()
    for f in facts.ast():
        if f.startswith("program_structure_tests"):
            continue
        for q, fnn in fns_in_file(f):
            for mname in ("get_true_branch", "get_false_branch"):
                if any(True for _ in method_calls(fnn["body"], mname)):
                    callers.add("%s::%s" % (f.rsplit("/", 1)[-1], fnn["name"]))
    # (the module that owns the taint rules; which of its functions asks is its own business)
    ctx.check(R, "branch-region-queries/who-may-call", all(c_.startswith("taint_analysis.rs::") for c_ in callers), "callers: %s" % sorted(callers))


def canon_side_effects(ctx, R):
    """run_side_effect_analysis with its working sets renamed to canonical names (found by what they are built from)"""
    import copy
    fn0 = find_fn(SE, "run_side_effect_analysis")
    if fn0 is None:
        ctx.missing(R, "run_side_effect_analysis")
        return None
    fn, miss = alpha.canon(fn0, [("cfg", "param", 0), ("taint_analysis", "let", "run_taint_analysis(cfg)"), ("constraint_analysis", "let", "run_constraint_analysis(cfg)"),
                                 ("source", "forvar", "taint_analysis.definitions()"), ("basic_block", "forvar", "cfg.iter()")])
    if miss:
        ctx.missing(R, "run_side_effect_analysis/roles", "cannot identify %s" % miss)
        return None
    envl = sgrep.lets(fn["body"])
    mp = {}
    for k, v in envl.items():
        t = render(v).replace(" ", "")
        if "SignalType::Input|SignalType::Output" in t:
            mp[k] = "exported_signals"
    for n, b in sgrep.find(fn["body"], "__vr.extend(basic_block.variables_read().map(|__v| __v.name().clone()))"):
        mp[b["__vr"]] = "variables_read"
    ex = [k for k, v in mp.items() if v == "exported_signals"]
    if len(ex) == 1:
        for k, v in envl.items():
            if sgrep.has(v, "__e.iter().flat_map(|__s| taint_analysis.multi_step_taint(__s)).collect()", None, {"__e": ex[0]}):
                mp[k] = "exported_sinks"
        es = [k for k, v in mp.items() if v == "exported_sinks"]
        for k, v in envl.items():
            if es and render(v).replace(" ", "").startswith(es[0] + ".iter().flat_map(") and sgrep.has(v, "constraint_analysis.multi_step_constraint(__s)"):
                mp[k] = "sinks"
    need = {"exported_signals", "variables_read", "exported_sinks", "sinks"}
    if set(mp.values()) != need:
        ctx.missing(R, "run_side_effect_analysis/working-sets", "found %s" % mp)
        return None
    alpha.rename(fn["body"], {k: v for k, v in mp.items() if k != v})
    return fn


def rule_sinks(ctx):
    R = "C09.2"
    ctx.rule(R, "sinks = input/output signals, the constraint partners of everything they taint, and every variable (of any class) read by a declaration, return, assert or condition")
    import c09side

    if c09side.rule(ctx, R, "sinks"):
        return rule_read_classes(ctx, R)
    fn = canon_side_effects(ctx, R)
    if fn is None:
        return
    t = render(fn["body"]).replace(" ", "")
    ctx.check(R, "exported-signals/inputs-and-outputs", "VariableType::Signal(SignalType::Input|SignalType::Output,_)" in t, "", site(SE, fn))
    envl = sgrep.lets(fn["body"])
    # name the sets by their defining expressions
    exported = [k for k, v in envl.items() if "SignalType::Input|SignalType::Output" in render(v).replace(" ", "")]
    ta_name = [k for k, v in envl.items() if render(strip(v)).replace(" ", "").startswith("run_taint_analysis(")]
    ca_name = [k for k, v in envl.items() if render(strip(v)).replace(" ", "").startswith("run_constraint_analysis(")]
    okn = len(exported) == 1 and len(ta_name) == 1 and len(ca_name) == 1
    ctx.check(R, "sinks/ingredients", okn, "exported signals %s, taint analysis %s, constraint analysis %s" % (exported, ta_name, ca_name), site(SE, fn))
    if okn:
        ex, tan, can = exported[0], ta_name[0], ca_name[0]
        tb = [k for k, v in envl.items() if sgrep.has(v, "__e.iter().flat_map(|__s| __t.multi_step_taint(__s)).collect()", None, {"__e": ex, "__t": tan})]
        ctx.check(R, "sinks/tainted-by-exported-signals", len(tb) == 1, "the set of everything tainted by the exported signals: %s" % tb, site(SE, fn))
        sk = [k for k, v in envl.items() if tb and sgrep.has(v, "__c.multi_step_constraint(__s)", None, {"__c": can}) and render(v).replace(" ", "").startswith(tb[0] + ".iter().flat_map(")]
        ctx.check(R, "sinks/constraint-partners", len(sk) == 1 and sgrep.has(envl[sk[0]], "if !__r.is_empty() { __r.insert(__s); }") if sk else False, "sinks start from the constraint partners of the tainted set (and the tainted element itself when it occurs in a constraint): %s" % sk, site(SE, fn))
        sinks = sk[0] if sk else "sinks"
        ctx.check(R, "sinks/include-exported-signals", sgrep.has(fn["body"], "__s.extend(__e)", None, {"__s": sinks, "__e": ex}), "", site(SE, fn))
    ms = [m for m in walk(fn["body"]) if m["k"] == "Match" and render(strip(m["scrut"])) == "stmt"]
    if len(ms) != 1:
        ctx.missing(R, "run_side_effect_analysis/statement-match")
    else:
        got = None
        for a in ms[0]["arms"]:
            ext = [e for e in method_calls(a["body"], "extend") if render(strip(e["recv"])) == "sinks"]
            if ext:
                got = (sorted(last(p) for p in pat_paths(a["pat"])), render(ext[0]["args"][0]).replace(" ", ""))
        ok = got is not None and got[0] == ["Assert", "Declaration", "IfThenElse", "Return"] and got[1] == "stmt.variables_read().map(|var|var.name().clone())"
        ctx.check(R, "sinks/reads-of-declarations-returns-asserts-conditions", ok, "statement kinds and reads: %s (all classes: locals, signals and components)" % (got,), site(SE, ms[0]))
        # ... for every such statement: no earlier or guarded arm takes some of them away
        stolen = []
        for a in ms[0]["arms"]:
            kinds_ = {last(p) for p in pat_paths(a["pat"])} & {"Assert", "Declaration", "IfThenElse", "Return"}
            ext = [e for e in method_calls(a["body"], "extend") if render(strip(e["recv"])) == "sinks"]
            if kinds_ and (a.get("guard") is not None or not ext or (conditions_to(a["body"], ext[0]) or [])):
                stolen.append("%s%s" % (sorted(kinds_), " if " + render(a["guard"])[:40] if a.get("guard") is not None else ""))
        ctx.check(R, "sinks/no-exception-among-those-statements", not stolen, "arms that take declarations / returns / asserts / conditions without adding their reads to the sinks: %s" % stolen, site(SE, ms[0]))
        cs = conditions_to(fn["body"], ms[0]) or []
        ctx.check(R, "sinks/every-statement", [c[0] for c in cs] == ["loop", "loop"], facts_str(cs), site(SE, ms[0]))
    okv = False
    for n, b in sgrep.find(fn["body"], "for __bb in cfg.iter() { __body }"):
        okv = okv or sgrep.has(n, "__vr.extend(__bb.variables_read().map(|__v| __v.name().clone()))", None, {"__bb": b["__bb"]})
    ctx.check(R, "variables-read/all-blocks-all-classes", okv, "", site(SE, fn))
    rule_read_classes(ctx, R)


def rule_read_classes(ctx, R):
    # variables_read = locals + signals + components (trait default)
    vr = None
    for q, f in fns_in_file(VMF):
        if f["name"] == "variables_read" and f.get("body"):
            vr = f
    if vr is None:
        ctx.missing(R, "VariableMeta::variables_read")
    else:
        tt = render(vr["body"]).replace(" ", "")
        ctx.check(R, "VariableMeta::variables_read/all-three-classes", all(("self.%s_read()" % c) in tt for c in CLASSES), tt[:200], site(VMF, vr))
    vw = None
    for q, f in fns_in_file(VMF):
        if f["name"] == "variables_written" and f.get("body"):
            vw = f
    if vw is not None:
        tt = render(vw["body"]).replace(" ", "")
        ctx.check(R, "VariableMeta::variables_written/all-three-classes", all(("self.%s_written()" % c) in tt for c in CLASSES), tt[:200], site(VMF, vw))


def rule_selection(ctx):
    R = "C09.4"
    ctx.rule(R, "`never read` is reported iff the name is not in the set of names read; `no side effect` iff it is read and taints no sink; `_` is skipped; nothing else suppresses or adds a claim")
    import c09side

    if c09side.rule(ctx, R, "selection"):
        return
    fn = canon_side_effects(ctx, R)
    if fn is None:
        return
    pushes = [p for p in method_calls(fn["body"], "push") if render(strip(p["recv"])) == "reports"]
    want = {
        "build_unused_param": ["forrun_taint_analysis(cfg).definitions()", "!variables_read.contains(source.name())", "cfg.parameters().contains(source.name())"],
        "build_unused_variable": ["forrun_taint_analysis(cfg).definitions()", "!variables_read.contains(source.name())", "!cfg.parameters().contains(source.name())"],
        "build_param_without_side_effect": ["forrun_taint_analysis(cfg).definitions()", "variables_read.contains(source.name())", "!run_taint_analysis(cfg).taints_any(source.name(),&sinks)", "cfg.parameters().contains(source.name())"],
        "build_variable_without_side_effect": ["forrun_taint_analysis(cfg).definitions()", "variables_read.contains(source.name())", "!run_taint_analysis(cfg).taints_any(source.name(),&sinks)", "!cfg.parameters().contains(source.name())"],
    }
    seen = set()
    for p in pushes:
        b = render(p["args"][0]).split("(")[0].strip()
        if b not in want:
            continue
        seen.add(b)
        cs = []
        for c in conditions_to(fn["body"], p) or []:
            s = fact_str(c).replace(" ", "")
            if c[0] == "loop":
                s = "for" + render(c[3]).replace(" ", "")
            if s in ('!((source.to_string()=="_"))', '!(source.to_string()=="_")'):
                continue
            cs.append(s.replace("!!", ""))
        ctx.check(R, "report/%s/condition" % b, cs == want[b], "issued under %s ; expected %s" % (cs, want[b]), site(SE, p))
    for b in want:
        ctx.check(R, "report/%s/present" % b, b in seen, "report kind missing")
    t = render(fn["body"]).replace(" ", "")
    # `_` is skipped: every report issued from a loop over definitions / declarations is under `<name> != "_"`
    def neg_atoms(c):
        """the atoms known to be false on the path (a false `a || b` makes both false)"""
        if c[0] != "if" or c[2]:
            return []
        out, st = [], [strip(c[1])]
        while st:
            x = st.pop()
            if x["k"] == "Binary" and x["op"] == "||":
                st += [strip(x["l"]), strip(x["r"])]
            else:
                out.append(render(x).replace(" ", ""))
        return out

    n_us = 0
    missing_us = []
    for p in pushes:
        cs_f = conditions_to(fn["body"], p) or []
        if not any(c[0] == "loop" for c in cs_f):
            continue
        n_us += 1
        from pathcond import _subst

        le_p = {k_: v_ for k_, v_ in let_env(fn["body"], p).items() if strip(v_).get("k") == "MethodCall" and strip(v_)["method"] in ("to_string", "name", "clone")}
        atoms = [a_ for c in cs_f for a_ in neg_atoms((c[0], _subst(c[1], le_p), c[2]) if c[0] == "if" else c)]
        if not any(re.fullmatch(r'\(?\w+(\.name\(\))?(\.to_string\(\))?=="_"\)?|\(?"_"==\w+(\.name\(\))?(\.to_string\(\))?\)?', a_) for a_ in atoms):
            missing_us.append(render(p["args"][0])[:40])
    ctx.check(R, "underscore-skipped", n_us >= 2 and not missing_us, "reports issued without the `_` exemption: %s (of %d)" % (missing_us, n_us), site(SE, fn))


def use_class_table(arm_body, varname):
    """match meta.type_knowledge().variable_type() { Some(Local) => locals_X.insert(..), .. } -> {type: (set, use)}"""
    out = {}
    for m in walk(arm_body):
        if m["k"] == "Match" and render(strip(m["scrut"])).replace(" ", "") == "meta.type_knowledge().variable_type()":
            for a in m["arms"]:
                ins = [i for i in method_calls(a["body"], "insert")]
                for p in pat_paths(a["pat"]):
                    pass
                pt = render(a["pat"]).replace(" ", "")
                kinds = re.findall(r"VariableType::(\w+)", pt)
                for k in kinds:
                    # (set, use, further conditions inside the arm: a recorded use must not depend on anything else)
                    out[k] = [(render(strip(i["recv"])), render(i["args"][0]).replace(" ", ""), [fact_str(c_) for c_ in (conditions_to(a["body"], i) or [])] if a["body"] is not i else []) for i in ins]
    return out


def canon_use_sets(fn):
    """rename the working sets of cache_variable_use to the names of the setters they are handed to"""
    import copy
    f = copy.deepcopy(fn)
    mp = {}
    for m in walk(f["body"]):
        if m["k"] == "MethodCall" and m["method"].startswith("set_") and m["args"] and m["method"][4:].split("_")[0] in ("locals", "signals", "components"):
            a = strip(m["args"][0])
            if a["k"] == "Path" and a["path"] != m["method"][4:]:
                mp[a["path"]] = m["method"][4:]
    if mp:
        alpha.rename(f["body"], mp)
    return f


def _takes_apart(fc, reach):
    """is this path fact a pattern / loop over (part of) the child, i.e. does it only say `the child has this shape`?"""
    def touches(e):
        return e is not None and bool({p_["path"] for p_ in walk(e) if p_["k"] == "Path"} & reach)

    if fc[0] == "iflet":
        return bool(fc[3]) and touches(fc[2])
    if fc[0] == "arm":
        return touches(fc[1]) and not fc[3]
    if fc[0] == "loop":
        return touches(fc[3])
    if fc[0] == "closure":
        return True
    return False


def rule_uses(ctx):
    R = "C09.5"
    ctx.rule(R, "variable uses are recorded in the class of the variable's type (local / signal / component) for reads (Variable, Access, Update = read of the previous whole-array version) and writes (Substitution), and every child's reads are merged into its parent for all three classes")
    # evaluation first: both cache_variable_use functions on one instance of every variant (children with known read
    # sets) for every declared kind of the node's own variable; the shape obligations below are the fallback
    decided = {}
    try:
        import c09eval
        from finfun import Unsupported as _Uns

        for enum, f_, own in (("Expression", EI, {"Variable": "read", "Access": "read", "Update": "read"}), ("Statement", SI, {"Substitution": "written"})):
            try:
                n_w, bad_ = c09eval.evaluate(enum, f_, own)
            except _Uns as u:
                ctx.note("%s::cache_variable_use is outside the evaluator's subset (%s): shape obligations apply" % (enum, u))
                continue
            decided[enum] = True
            ctx.floor(R, "%s use worlds evaluated" % enum, n_w, 10)
            en_ = a10.enum_def(IR, enum) or {}
            for v_ in en_:
                keys_ = [k_ for k_ in bad_ if k_.startswith("%s::%s/" % (enum, v_))]
                ctx.check(R, "%s::%s/uses-recorded-and-merged" % (enum, v_), not keys_, "; ".join("%s: %s" % (k_.split("/")[-1], bad_[k_]) for k_ in keys_[:3]) or "the stored sets are the children's sets plus the node's own use in the class of its declared kind", EI if enum == "Expression" else SI)
    except ImportError:
        pass
    if decided.get("Expression") and decided.get("Statement"):
        return
    fn = find_fn(EI, "cache_variable_use", "VariableMeta for Expression")
    if fn is None:
        return ctx.missing(R, "Expression::cache_variable_use")
    from astlib import inline_helpers

    fn = canon_use_sets(inline_helpers(fn, EI))
    fn, _mm = alpha.canon_fields(fn, [("meta", "Variable", "meta"), ("name", "Variable", "name"), ("meta", "Access", "meta"), ("var", "Access", "var"), ("access", "Access", "access"), ("meta", "Update", "meta"), ("var", "Update", "var"), ("access", "Update", "access"), ("rhe", "Update", "rhe")])
    ms = [m for m in walk(fn["body"]) if m["k"] == "Match" and render(strip(m["scrut"])) == "self"]
    if not ms:
        return ctx.missing(R, "Expression::cache_variable_use/match")
    en = a10.enum_def(IR, "Expression")
    arms = {}
    for a in ms[0]["arms"]:
        for p in pat_paths(a["pat"]):
            arms[last(p)] = a
    want_sets = {"Local": "locals_read", "Signal": "signals_read", "Component": "components_read", "AnonymousComponent": "components_read"}
    for variant, nm, acc in (("Variable", "name", "&Vec::new()"), ("Access", "var", "access"), ("Update", "var", "&Vec::new()")):
        a = arms.get(variant)
        if a is None:
            ctx.missing(R, "Expression::cache_variable_use/" + variant)
            continue
        tab = use_class_table(a["body"], nm)
        for ty, st in want_sets.items():
            got = tab.get(ty)
            ok = got is not None and len(got) == 1 and got[0][0] == st and got[0][1] == "VariableUse::new(meta,%s,%s)" % (nm, acc) and not got[0][2]
            ctx.check(R, "Expression::%s/%s-read-recorded" % (variant, ty), ok, "for a %s the arm records %s; expected %s.insert(VariableUse::new(meta, %s, %s))%s" % (ty, got, st, nm, acc, " - an element update reads the previous version of the whole array" if variant == "Update" else ""), site(EI, a))
    # children merged for all three classes
    n = 0
    for v, vd in (en or {}).items():
        a = arms.get(v)
        if a is None:
            continue
        binds, _rest = a10.pattern_bindings(a["pat"], v)
        for f in a10.node_fields(vd):
            b = binds.get(f)
            if not b or b == "<pattern>":
                ctx.bad(R, "Expression::%s.%s/uses-merged" % (v, f), "child not bound", site(EI, a))
                continue
            # the child itself or a loop variable over it
            from c18 import alias_closure
            reach = alias_closure(a["body"], b, strict=True)  # the child's uses are merged on every execution
            t = render(a["body"]).replace(" ", "")
            miss = []
            for c in CLASSES:
                okc = any(re.search(r"%s_read\.extend\(%s\.%s_read\(\)" % (c, re.escape(x), c), t) for x in reach)
                if not okc:
                    miss.append(c)
            called = any(("%s.cache_variable_use()" % x) in t for x in reach)
            n += 1
            ctx.check(R, "Expression::%s.%s/uses-merged" % (v, f), not miss and called, "classes not merged: %s; child cached: %s" % (miss, called), site(EI, a))
            # ... and merged whenever the child exists: the only conditions on the way to the merge are the patterns
            # and loops that take the child apart, never a test of something else
            gated = []
            for c in CLASSES:
                cands = [m for m in method_calls(a["body"], "extend") if re.fullmatch(r"%s_read" % c, render(strip(m["recv"])).replace(" ", "")) and any(re.match(r"%s\.%s_read\(\)" % (re.escape(x), c), render(strip(m["args"][0])).replace(" ", "").lstrip("&")) for x in reach)]
                if not cands:
                    continue
                best = None
                for m in cands:
                    extra = [fact_str(fc) for fc in (conditions_to(a["body"], m) or []) if not _takes_apart(fc, reach)]
                    if best is None or len(extra) < len(best):
                        best = extra
                if best:
                    gated.append("%s only under %s" % (c, best[:3]))
            ctx.check(R, "Expression::%s.%s/uses-merged-unconditionally" % (v, f), not gated, "the child's reads reach the parent only on some executions: %s" % gated, site(EI, a))
    ctx.floor(R, "expression children", n, 11)
    # Statement: Substitution writes
    sfn = find_fn(SI, "cache_variable_use", "VariableMeta for Statement")
    if sfn is None:
        return ctx.missing(R, "Statement::cache_variable_use")
    sfn = canon_use_sets(inline_helpers(sfn, SI))
    sfn, _mm = alpha.canon_fields(sfn, [("meta", "Substitution", "meta"), ("var", "Substitution", "var"), ("op", "Substitution", "op"), ("rhe", "Substitution", "rhe")])
    for n_ in walk(sfn["body"]):
        if n_["k"] == "Local" and n_["pat"]["k"] == "PIdent" and n_["init"] is not None and n_["init"]["k"] == "Match" and "Update" in render(n_["init"]) and n_["pat"]["name"] != "access":
            alpha.rename(sfn["body"], {n_["pat"]["name"]: "access"})
    ms = [m for m in walk(sfn["body"]) if m["k"] == "Match" and render(strip(m["scrut"])) == "self"]
    arm = [a for a in ms[0]["arms"] if "Substitution" in render(a["pat"])] if ms else []
    if len(arm) != 1:
        return ctx.missing(R, "Statement::cache_variable_use/Substitution")
    tab = use_class_table(arm[0]["body"], "var")
    wsets = {"Local": "locals_written", "Signal": "signals_written", "Component": "components_written", "AnonymousComponent": "components_written"}
    for ty, st in wsets.items():
        got = tab.get(ty) or []
        ok = any(g[0] == st and g[1] == "VariableUse::new(meta,var,&access)" and not g[2] for g in got)
        ctx.check(R, "Statement::Substitution/%s-write-recorded" % ty, ok, "records %s, expected %s.insert(VariableUse::new(meta, var, &access))" % (got, st), site(SI, arm[0]))
    t = render(arm[0]["body"]).replace(" ", "")
    for c in CLASSES:
        ctx.check(R, "Statement::Substitution/rhs-%s-reads-merged" % c, ("%s_read.extend(rhe.%s_read().clone())" % (c, c)) in t, "", site(SI, arm[0]))
    # other statements: every child expression's reads merged
    sen = a10.enum_def(IR, "Statement")
    sarms = {}
    for a in ms[0]["arms"]:
        for p in pat_paths(a["pat"]):
            sarms[last(p)] = a
    n = 0
    for v, vd in (sen or {}).items():
        a = sarms.get(v)
        if a is None:
            ctx.bad(R, "Statement::%s/arm-missing" % v, "no arm")
            continue
        binds, _rest = a10.pattern_bindings(a["pat"], v)
        for f in a10.node_fields(vd):
            b = binds.get(f)
            if not b or b == "<pattern>":
                ctx.bad(R, "Statement::%s.%s/uses-merged" % (v, f), "child not bound: its reads are lost", site(SI, a))
                continue
            from c18 import alias_closure
            reach = alias_closure(a["body"], b)
            t = render(a["body"]).replace(" ", "")
            miss = [c for c in CLASSES if not any(re.search(r"%s_read\.extend\(%s\.%s_read\(\)" % (c, re.escape(x), c), t) for x in reach)]
            n += 1
            ctx.check(R, "Statement::%s.%s/uses-merged" % (v, f), not miss, "classes not merged: %s" % miss, site(SI, a))
    ctx.floor(R, "statement children", n, 8)


def run(ctx):
    rule_taint(ctx)
    rule_sinks(ctx)
    rule_selection(ctx)
    rule_uses(ctx)
    import c12

    ctx.include("C09.7", "prerequisite shared with C12.2/C13.3: the lifting gives every block the edges of the control flow it came from - a join block is opened exactly when predecessors are pending - and keeps every statement (an assignment whose block lost an edge looks unused)", c12.rule_lifting)
    ctx.include("C09.6", "prerequisite shared with C14: phi insertion is iterated, renaming order and scope pairing, phi identity (a missing phi disconnects an assignment from its later reads)", c14.rule_phi_insertion, c14.rule_phis_and_locals, c14.rule_plumbing)
