"""C09.2 / C09.4 by evaluation: `run_side_effect_analysis` is run on a definition described by tables - which names are
read where, which statements of which kind read what, the taint and constraint relations, the declared signals - with
the taint and constraint analyses and the report builders replaced by stand-ins.  The claims it pushes must be exactly
those of the property:

  never read        for a definition whose name no statement reads,
  no side effect    for one that is read but whose taint closure meets no sink,
  where sinks = input / output signals + the constraint partners of everything they taint + every name read by a
  declaration, return, assert or condition;  `_` is skipped;  an intermediate signal is unused when never read and
  unconstrained (templates only) when it reaches no constrained variable;  nothing is claimed twice."""
import passeval
from finfun import E, NONE, S, Unsupported
from passeval import MSet, O, Panic, Sink, V

SE = "program_analysis/src/side_effect_analysis.rs"
IR = "program_structure/src/intermediate_representation/ir.rs"
CFGF = "program_structure/src/control_flow_graph/cfg.rs"

# the definition: name -> role
LOCALS = ["v_exp", "v_con", "v_decl", "v_ret", "v_assert", "v_cond", "v_none", "v_unread", "_", "v_chain"]
PARAMS = ["p_unread", "p_none", "p_used"]
SIGNALS = {"in1": "Input", "out1": "Output", "mid": "Intermediate", "dead": "Intermediate", "loose": "Intermediate", "b": "Intermediate", "c2": "Intermediate"}
TAINT = {"v_exp": ["out1"], "in1": ["b"], "v_con": ["c2"], "v_chain": ["v_exp"], "p_used": ["v_decl"], "mid": ["c2"], "loose": ["v_none"]}
CONSTRAINT = {"b": ["c2"], "c2": ["b"]}  # b === c2
CONSTRAINED = ["b", "c2"]
# statements: (kind, names read)
STATEMENTS = [[("Declaration", ["v_decl"]), ("Substitution", ["v_none", "p_none", "v_con", "v_exp", "v_chain", "p_used"])],
              [("Return", ["v_ret"]), ("Assert", ["v_assert"]), ("IfThenElse", ["v_cond"]), ("ConstraintEquality", ["b", "c2"]), ("LogCall", ["mid", "loose", "in1", "out1"])]]


def closure(rel, x, reflexive=True):
    out, todo = ({x} if reflexive else set()), [x]
    seen = {x}
    while todo:
        y = todo.pop()
        for z in rel.get(y, []):
            if z not in seen:
                seen.add(z)
                out.add(z)
                todo.append(z)
    return out


def expected(kind):
    read = {n for blk in STATEMENTS for _k, rs in blk for n in rs}
    exported = {s for s, t in SIGNALS.items() if t in ("Input", "Output")}
    tainted = set()
    for s in exported:
        tainted |= closure(TAINT, s)
    partners = set()
    for s in tainted:
        r = closure(CONSTRAINT, s, reflexive=False)
        if r:
            partners |= r | {s}
    sinks = exported | partners | {n for blk in STATEMENTS for k, rs in blk if k in ("Declaration", "Return", "Assert", "IfThenElse") for n in rs}
    out = []
    reported = set()
    for n in LOCALS + PARAMS:
        if n == "_":
            continue
        if n not in read:
            out.append(("unused_param" if n in PARAMS else "unused_variable", n))
            reported.add(n)
        elif not (closure(TAINT, n) & sinks):
            out.append(("param_without_side_effect" if n in PARAMS else "variable_without_side_effect", n))
            reported.add(n)
    for n in SIGNALS:
        if n in reported:
            continue
        if n not in read:
            out.append(("unused_signal", n))
        elif kind == "Template" and not (closure(TAINT, n) & set(CONSTRAINED)):
            out.append(("unconstrained_signal", n))
    return sorted(out)


def evaluate():
    w = passeval.PassWorld([IR, CFGF, SE], SE)
    w.lenient_opaque = True
    fn = w.free.get("run_side_effect_analysis")
    if fn is None:
        raise Unsupported("run_side_effect_analysis not found")
    names = {}

    def name(x):
        if x not in names:
            names[x] = ("O", "name:" + x, (("to_string", x), ("clone", ("PY", lambda x=x: names[x])), ("name", x)))
        return names[x]

    uses = {}

    def use(x):
        if x not in uses:
            uses[x] = ("O", "use:" + x, (("name", name(x)), ("to_string", x), ("clone", ("PY", lambda x=x: uses[x]))))
        return uses[x]

    def nm_of(v):
        for k, o in names.items():
            if o is v:
                return k
        for k, o in uses.items():
            if o is v:
                return k
        raise Unsupported("not a name: %r" % (v,))

    def L(xs):
        return ("L", tuple(xs))

    w.method_stubs = {("Statement", "variables_read"): lambda recv, args: passeval.Iter(list(recv[3]["__reads"][1])) if hasattr(passeval, "Iter") else recv[3]["__reads"]}
    results = {}
    for kind in ("Template", "Function"):
        blocks = []
        for blk in STATEMENTS:
            stmts = [V("Statement", k, meta=O("meta"), __reads=L(use(n) for n in rs)) for k, rs in blk]
            reads = [use(n) for _k, rs in blk for n in rs]
            blocks.append(("O", "block", (("iter", L(stmts)), ("variables_read", L(reads)))))
        decls = []
        for s, t in SIGNALS.items():
            d = ("O", "declaration:" + s, (("variable_type", S("Signal", E("SignalType", t), L([]))), ("variable_name", name(s)), ("dimensions", L([])), ("file_id", NONE), ("file_location", O("loc"))))
            decls.append(("T", (name(s), d)))
        for v in LOCALS + PARAMS:
            d = ("O", "declaration:" + v, (("variable_type", E("VariableType", "Local")), ("variable_name", name(v))))
            decls.append(("T", (name(v), d)))
        params = ("O", "parameters", (("contains", ("PY", lambda n_: nm_of(n_) in PARAMS)),))
        cfg = ("O", "cfg", (("iter", L(blocks)), ("declarations", ("O", "declarations", (("iter", L(decls)),))), ("parameters", params), ("name", "T"), ("definition_type", E("DefinitionType", kind))))
        asked = []

        def taints_any(src, sinks, asked=asked):
            if not isinstance(sinks, MSet):
                raise Unsupported("taints_any is given %r" % (sinks,))
            s_ = {nm_of(x) for x in sinks.items}
            asked.append((nm_of(src), frozenset(s_)))
            return bool(closure(TAINT, nm_of(src)) & s_)

        taint = ("O", "taint_analysis", (("multi_step_taint", ("PY", lambda src: MSet([name(x) for x in sorted(closure(TAINT, nm_of(src)))]))), ("taints_any", ("PY", taints_any)),
                                         ("definitions", L(use(x) for x in LOCALS + PARAMS)), ("single_step_taint", ("PY", lambda src: MSet([name(x) for x in TAINT.get(nm_of(src), [])])))))
        cons = ("O", "constraint_analysis", (("multi_step_constraint", ("PY", lambda src: MSet([name(x) for x in sorted(closure(CONSTRAINT, nm_of(src), reflexive=False))]))),
                                             ("constrained_variables", ("PY", lambda: MSet([name(x) for x in CONSTRAINED]))), ("single_step_constraint", ("PY", lambda src: MSet([name(x) for x in CONSTRAINT.get(nm_of(src), [])])))))
        w.stubs = {"run_taint_analysis": lambda a, taint=taint: taint, "run_constraint_analysis": lambda a, cons=cons: cons}
        for b_ in ("unused_variable", "unused_param", "unused_signal", "unconstrained_signal", "variable_without_side_effect", "param_without_side_effect"):
            w.stubs["build_" + b_] = lambda a, b_=b_: ("K", b_, tuple(a))
        try:
            res = w.call_fn(fn, [cfg])
        finally:
            w.stubs = {}
        if not isinstance(res, Sink):
            raise Unsupported("the pass returns %r" % (res,))
        got = []
        for r in res.items:
            if not (isinstance(r, tuple) and r[0] == "K" and r[2]):
                raise Unsupported("a report built some other way: %r" % (r,))
            a0 = r[2][0]
            who = None
            for k, o in list(uses.items()) + list(names.items()):
                if o is a0:
                    who = k
            if who is None and isinstance(a0, tuple) and a0[0] == "O" and a0[1].startswith("declaration:"):
                who = a0[1][len("declaration:"):]
            got.append((r[1], who))
        results[kind] = (sorted(got), expected(kind), asked)
    return results


_CACHE = {}


def rule(ctx, R, part):
    """part: 'sinks' (C09.2) or 'selection' (C09.4); returns True when the evaluation decided"""
    from astlib import find_fn, site

    R2 = R4 = R
    fn = find_fn(SE, "run_side_effect_analysis")
    if "r" not in _CACHE:
        try:
            _CACHE["r"] = evaluate()
        except Unsupported as u:
            _CACHE["r"] = ("unsupported", str(u))
        except Panic as p_:
            _CACHE["r"] = ("panic", str(p_))
    results = _CACHE["r"]
    if isinstance(results, tuple) and results[0] == "unsupported":
        ctx.note("run_side_effect_analysis is outside the evaluator's subset (%s): shape obligations apply" % results[1])
        return False
    if isinstance(results, tuple) and results[0] == "panic":
        ctx.bad(R, "run_side_effect_analysis/table/no-panic", "the pass panics on the table world: %s" % results[1], site(SE, fn))
        return True
    problems = {"sinks": None, "claims": None, "extra": None, "signals": None}
    for kind, (got, want, _asked) in results.items():
        missing = [x for x in want if x not in got]
        extra = [x for x in got if x not in want]
        dup = [x for x in set(got) if got.count(x) > 1]
        for k_, n_ in missing:
            key = "signals" if "signal" in k_ else "claims"
            problems[key] = problems[key] or "%s: no `%s` claim for `%s`" % (kind.lower(), k_.replace("_", " "), n_)
        for k_, n_ in extra:
            why = {"v_exp": "it flows into an output signal", "v_chain": "it flows into an output signal", "v_con": "it flows into a constraint partner of what the inputs taint", "v_decl": "it is read by a declaration", "v_ret": "it is returned",
                   "v_assert": "it is asserted", "v_cond": "it is a condition", "p_used": "it flows into a dimension", "_": "`_` is never reported"}.get(n_)
            key = "sinks" if why and k_.endswith("side_effect") else ("signals" if "signal" in k_ else "extra")
            problems[key] = problems[key] or "%s: `%s` is claimed for `%s`%s" % (kind.lower(), k_.replace("_", " "), n_, (" although " + why) if why else "")
        for k_, n_ in dup:
            problems["extra"] = problems["extra"] or "%s: `%s` is claimed for `%s` more than once" % (kind.lower(), k_.replace("_", " "), n_)
    s_ = site(SE, fn)
    if part == "sinks":
        ctx.check(R2, "sinks/ingredients", problems["sinks"] is None, problems["sinks"] or "exported signals, constraint partners of what they taint, and the reads of declarations, returns, asserts and conditions all count as sinks (each is decisive for one variable of the world)", s_)
        return True
    ctx.floor(R4, "claims compared on the table world", sum(len(w_) for _g, w_, _a in results.values()), 12)
    ctx.check(R2, "sinks/ingredients-decide-the-claims", problems["sinks"] is None, problems["sinks"] or "exported signals, constraint partners of what they taint, and the reads of declarations, returns, asserts and conditions all count as sinks (each is decisive for one variable of the world)", s_)
    ctx.check(R4, "report/claims-exactly-for-unread-and-effect-free-definitions", problems["claims"] is None and problems["extra"] is None, problems["claims"] or problems["extra"] or "`never read` iff no statement reads the name; `no side effect` iff it is read and reaches no sink; parameters and variables told apart; `_` skipped; nothing twice", s_)
    ctx.check(R4, "report/signal-claims", problems["signals"] is None, problems["signals"] or "an intermediate signal is unused when never read, unconstrained (templates only) when it reaches no constrained variable", s_)
    return True
