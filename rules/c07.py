"""C07 Degree claims are sound."""
import itertools
import re

import facts
from astlib import find_fn, find_impl, method_calls, render, site, strip, walk, last, calls
from finfun import E, NONE, S, Unsupported, World
from pathcond import conditions_to, fact_str, let_env
import opdisc

TITLE = "Degree claims"
LEVEL_TEXT = (
    "the complete transfer table of all 23 operators (opcode -> interval wrapper -> degree function, 100 range pairs each) is read"
    " from the source by abstract evaluation and compared with the polynomial-degree calculus; Ord/min/max/merge laws; operand"
    " discipline of every expression kind; environment seeds; CS0013 threshold. The environment-reading and joining arms (Variable, Access, Update, Phi, SwitchOp, InlineArray) and the parameter seeds of Cfg::propagate_degrees are evaluated on table worlds."
)
NOT_DECIDED = "nothing about values; degree facts that depend on SSA/CFG correctness (C12-C14)."
TRUSTED = ["syn parser", "finite-function evaluator (rules/finfun.py)", "degree calculus oracle (DESIGN App. C)", "required-operand table (DESIGN App. C)"]

DM = "program_structure/src/intermediate_representation/degree_meta.rs"
EI = "program_structure/src/intermediate_representation/expression_impl.rs"
SI = "program_structure/src/intermediate_representation/statement_impl.rs"
IR = "program_structure/src/intermediate_representation/ir.rs"
CFG = "program_structure/src/control_flow_graph/cfg.rs"
SA = "program_analysis/src/signal_assignments.rs"

DEG = ["Constant", "Linear", "Quadratic", "NonQuadratic"]
C, L, Q, N = 0, 1, 2, 3


def o_max(a, b):
    return max(a, b)


def o_mul(a, b):
    if a == C:
        return b
    if b == C:
        return a
    if a == L and b == L:
        return Q
    return N


def o_div(a, b):
    return a if b == C else N


def o_const(a, b):
    return C if (a, b) == (C, C) else N


ORACLE_INFIX = {
    "Add": o_max, "Sub": o_max, "Mul": o_mul, "Div": o_div,
    "Pow": o_const, "IntDiv": o_const, "Mod": o_const, "ShiftL": o_const, "ShiftR": o_const,
    "LesserEq": o_const, "GreaterEq": o_const, "Lesser": o_const, "Greater": o_const, "Eq": o_const, "NotEq": o_const,
    "BoolOr": o_const, "BoolAnd": o_const, "BitOr": o_const, "BitAnd": o_const, "BitXor": o_const,
}
ORACLE_PREFIX = {"Sub": lambda a: a, "BoolNot": lambda a: C if a == C else N, "Complement": lambda a: C if a == C else N}


def dv(i):
    return E("Degree", DEG[i])


def di(v):
    return DEG.index(v[2])


def rng(s, e):
    return S("DegreeRange", dv(s), dv(e))


RANGES = [(s, e) for s in range(4) for e in range(s, 4)]


def rule_tables(ctx):
    R = "C07.1"
    ctx.rule(R, "for every operator and every pair of operand degree ranges, the upper bound computed by the source (opcode dispatch -> DegreeRange wrapper -> Degree function) is >= the true polynomial degree of every member combination; unknown operands give no degree; Ord for Degree is the total order C<L<Q<N; merge (inf) keeps the largest upper bound; is_constant/linear/quadratic test the upper bound")
    w = World([DM, EI, IR])
    if "Degree" not in w.enums or w.enums["Degree"] != DEG:
        return ctx.missing(R, "enum Degree", "variants: %s" % w.enums.get("Degree"))
    # --- Ord table
    try:
        tab = {}
        for a in range(4):
            for b in range(4):
                c = w.compare(dv(a), dv(b))
                tab["%s,%s" % (DEG[a], DEG[b])] = c
                ctx.check(R, "Ord for Degree/%s,%s" % (DEG[a], DEG[b]), c == (a > b) - (a < b), "cmp = %d, expected %d" % (c, (a > b) - (a < b)), DM)
        ctx.table("Degree::cmp", tab)
    except Unsupported as u:
        return ctx.missing(R, "Ord for Degree", "cannot evaluate: %s" % u)
    # --- operators, end to end
    for enum, oracle_tab, arity in (("ExpressionInfixOpcode", ORACLE_INFIX, 2), ("ExpressionPrefixOpcode", ORACLE_PREFIX, 1)):
        variants = w.enums.get(enum)
        if variants is None:
            ctx.missing(R, "enum " + enum)
            continue
        if (enum, "propagate_degrees") not in w.methods:
            ctx.missing(R, enum + "::propagate_degrees")
            continue
        for op in variants:
            key = "%s::%s" % ("infix" if arity == 2 else "prefix", op)
            if op not in oracle_tab:
                ctx.bad(R, key + "/no-oracle", "operator %s is not in the degree calculus of the checker (new operator?)" % op)
                continue
            orc = oracle_tab[op]
            table = {}
            bad = []
            try:
                for combo in itertools.product(RANGES, repeat=arity):
                    args = [S("Some", rng(*r)) for r in combo]
                    res = w.call_method(E(enum, op), "propagate_degrees", args)
                    if res == NONE:
                        table[str(combo)] = None
                        continue  # no claim, always sound
                    rr = res[2][0]
                    rs, re_ = di(rr[2][0]), di(rr[2][1])
                    table[" x ".join("[%s,%s]" % (DEG[s][0], DEG[e][0]) for s, e in combo)] = "[%s,%s]" % (DEG[rs][0], DEG[re_][0])
                    members = itertools.product(*[range(s, e + 1) for s, e in combo])
                    need = max(orc(*m) for m in members)
                    if re_ < need:
                        bad.append("%s -> upper %s < true %s" % (" x ".join("[%s..%s]" % (DEG[s], DEG[e]) for s, e in combo), DEG[re_], DEG[need]))
                # unknown operands
                unk = []
                some = S("Some", rng(0, 0))
                for pos in range(arity):
                    args = [some] * arity
                    args[pos] = NONE
                    if w.call_method(E(enum, op), "propagate_degrees", args) != NONE:
                        unk.append(pos)
                ctx.check(R, key + "/unknown-operand-gives-no-degree", not unk, "a degree is produced although operand(s) %s are unknown" % unk, EI)
            except Unsupported as u:
                ctx.missing(R, key, "cannot evaluate the transfer function: %s" % u)
                continue
            ctx.table(key, table)
            ctx.check(R, key + "/upper-bound-sound", not bad, "; ".join(bad[:6]) + (" (+%d more)" % (len(bad) - 6) if len(bad) > 6 else ""), EI)
    # --- merge
    try:
        bad = []
        for a in RANGES:
            for b in RANGES:
                r = w.call_method(rng(*a), "inf", [rng(*b)])
                if di(r[2][1]) < max(a[1], b[1]):
                    bad.append("%s inf %s" % (a, b))
        ctx.check(R, "DegreeRange::inf/keeps-largest-upper-bound", not bad, str(bad[:5]), DM)
        # iter_opt: None if any None / empty
        fn = w.methods.get(("DegreeRange", "iter_opt"))
        fn2 = w.methods.get(("DegreeRange", "iter_inf"))
        ctx.check(R, "DegreeRange::iter_opt/present", fn is not None and fn2 is not None, "")
    except Unsupported as u:
        ctx.missing(R, "DegreeRange::inf", str(u))
    # predicates
    for name, bound in (("is_constant", C), ("is_linear", L), ("is_quadratic", Q)):
        try:
            bad = [r for r in RANGES if w.call_method(rng(*r), name, []) != (r[1] <= bound)]
            ctx.check(R, "DegreeRange::%s/tests-upper-bound" % name, not bad, "wrong for ranges %s" % bad, DM)
        except Unsupported as u:
            ctx.missing(R, "DegreeRange::" + name, str(u))
        # DegreeKnowledge wrapper: known -> range.pred(), unknown -> false
        fn = w.methods.get(("DegreeKnowledge", name))
        if fn is None:
            ctx.missing(R, "DegreeKnowledge::" + name)
        else:
            txt = render(fn[0]["body"]).replace(" ", "")
            ok = ("range.%s()" % name) in txt and "false" in txt and "true" not in txt
            ctx.check(R, "DegreeKnowledge::%s/unknown-is-false" % name, ok, render(fn[0]["body"])[:200], DM)
    # From<Degree>: singleton
    try:
        r = w.call_fn(w.methods[("DegreeRange", "from")][0], [dv(1)])
        ctx.check(R, "DegreeRange::from/singleton", r == rng(1, 1), str(r), DM)
    except (Unsupported, KeyError) as u:
        ctx.missing(R, "From<Degree> for DegreeRange", str(u))
    # iter_opt / iter_inf structure (evaluator has no iterators): all-or-nothing + fold with inf
    io = find_fn(DM, "iter_opt")
    ii = find_fn(DM, "iter_inf")
    if io and ii:
        t = render(io["body"])
        ctx.check(R, "DegreeRange::iter_opt/all-or-nothing", "collect::<Option<Vec<_>>>" in t.replace(" ", "") or "collect::<Option<" in t.replace(" ", ""), t[:200], site(DM, io))
        ctx.check(R, "DegreeRange::iter_opt/non-empty", "is_empty()" in t, t[:200], site(DM, io))
        t2 = render(ii["body"])
        ctx.check(R, "DegreeRange::iter_inf/folds-with-inf", ".inf(" in t2, t2[:200], site(DM, ii))
        # evaluated: iter_inf of 1, 2 and 3 ranges is the left fold of `inf` (decided above) over them; iter_opt is None as
        # soon as one range is unknown or the list is empty, otherwise Some(iter_inf)
        try:
            fi = w.methods[("DegreeRange", "iter_inf")][0]
            fo = w.methods[("DegreeRange", "iter_opt")][0]
            sample = [rng(*r) for r in RANGES]
            wrong = []
            n_ev = 0
            for n_ in (1, 2, 3):
                for combo in itertools.product(sample, repeat=n_):
                    want = combo[0]
                    for x in combo[1:]:
                        want = w.call_method(want, "inf", [x])
                    got = w.call_fn(fi, [("L", tuple(combo))])
                    n_ev += 1
                    if got != want and len(wrong) < 5:
                        wrong.append("iter_inf(%s) = %s, fold of inf = %s" % (combo, got, want))
            ctx.check(R, "DegreeRange::iter_inf/is-the-fold-of-inf", not wrong, "%d lists evaluated; %s" % (n_ev, wrong), site(DM, ii))
            wrong = []
            for n_ in (0, 1, 2, 3):
                for combo in itertools.product(sample[:4] + [None], repeat=n_):
                    arg = ("L", tuple(NONE if x is None else S("Some", x) for x in combo))
                    got = w.call_fn(fo, [arg])
                    if n_ == 0 or any(x is None for x in combo):
                        want = NONE
                    else:
                        want = S("Some", w.call_fn(fi, [("L", tuple(combo))]))
                    if got != want and len(wrong) < 5:
                        wrong.append("iter_opt(%s) = %s, expected %s" % (combo, got, want))
            ctx.check(R, "DegreeRange::iter_opt/none-unless-all-known", not wrong, str(wrong), site(DM, io))
        except (Unsupported, KeyError) as u:
            ctx.missing(R, "DegreeRange::iter_inf/iter_opt", "cannot evaluate: %s" % u)


def astlib_result(e):
    from astlib import result_expr
    e = strip(e)
    return result_expr(e) if e["k"] == "Block" else e


def function_polarity(cond, positive, le, depth=0):
    """True when `cond` holding (positive) / failing means the definition is a function, False when it means it is not,
    None when the condition does not speak about the definition type."""
    c = strip(cond)
    if depth > 4:
        return None
    if c["k"] == "Unary" and c["op"] == "!":
        return function_polarity(c["e"], not positive, le, depth + 1)
    if c["k"] == "Path" and c["path"] in le:
        return function_polarity(le[c["path"]], positive, le, depth + 1)
    t = render(c).replace(" ", "")
    if "definition_type()" not in t or "Function" not in t or "Template" in t:
        return None
    if c["k"] == "Macro" and last(c["name"]) == "matches":
        return positive
    if c["k"] == "Binary" and c["op"] in ("==", "!="):
        return positive == (c["op"] == "==")
    return None


def seed_value(fn, call):
    """(start, end) degree names of the range passed to set_degree, through lets."""
    e = call["args"][1]
    for _ in range(4):
        e = strip(e)
        if e["k"] == "Path" and "::" not in e["path"] and e["path"] not in DEG:
            le = let_env(fn["body"], call)
            if e["path"] in le:
                e = le[e["path"]]
                continue
        break
    t = render(e).replace(" ", "").replace("Degree::", "")
    import re as _re
    m = _re.fullmatch(r"DegreeRange::new\((\w+),(\w+)\)", t)
    if m:
        return (m.group(1), m.group(2))
    m = _re.fullmatch(r"(?:DegreeRange::from\()?(\w+)\)?", t)
    if m and m.group(1) in DEG:
        return (m.group(1), m.group(1))
    return t


DMF = "program_structure/src/intermediate_representation/degree_meta.rs"


def eval_degree_env(ctx, R):
    """DegreeEnvironment as a map, by evaluation: after set_degree(v, r) the degree of v is r - also when v already
    had a range (the last range recorded wins; keeping the first one freezes a provisional bound) - and other
    variables are untouched."""
    import passeval
    from finfun import S, Unsupported
    from passeval import MMap, O

    try:
        w = passeval.PassWorld([DMF], DMF)
    except Exception:
        return False
    fields = w.structs.get("DegreeEnvironment")
    if not fields or ("DegreeEnvironment", "set_degree") not in w.methods or ("DegreeEnvironment", "degree") not in w.methods:
        return False
    sd, dg = w.methods[("DegreeEnvironment", "set_degree")][0], w.methods[("DegreeEnvironment", "degree")][0]
    v, u, r0, r1, ru = O("v"), O("u"), O("range0"), O("range1"), O("range-of-u")
    bad = None
    n = 0
    for had in (False, True):
        ranges = MMap([[u, ru]] + ([[v, r0]] if had else []))
        envv = S("DegreeEnvironment", *[ranges if f == "degree_ranges" else MMap() for f in fields])
        try:
            w.call_fn(sd, [envv, v, r1])
            got_v = w.call_fn(dg, [envv, v])
            got_u = w.call_fn(dg, [envv, u])
        except Unsupported as ex:
            ctx.note("DegreeEnvironment::set_degree is outside the evaluator's subset (%s)" % ex)
            return False
        n += 1
        if got_v != S("Some", r1) or got_u != S("Some", ru):
            bad = bad or "variable %s a range before: after set_degree(v, range1) degree(v) = %s, degree(u) = %s" % ("had" if had else "had no", got_v, got_u)
    ctx.check(R, "DegreeEnvironment/set_degree-records-the-given-range", bad is None and n == 2, bad or "degree(v) is the range last set, whether or not v had one; other variables untouched", DMF)
    return True


def eval_seed_env(ctx, R):
    """`Cfg::propagate_degrees` (with its private helpers) by evaluation on a definition with two parameters and no
    blocks, for each definition type: the environment handed to the blocks has been told, for exactly the declared
    parameters, the range Constant..Linear (function) or Constant (template, custom template).  True when decided."""
    import passeval
    from passeval import O, Panic, Sink

    try:
        w = passeval.PassWorld([DM, CFG], CFG)
    except Exception:  # noqa: BLE001
        return False
    w.lenient_opaque = True
    if ("Cfg", "propagate_degrees") not in w.methods or "Cfg" not in w.structs:
        return False
    fn = w.methods[("Cfg", "propagate_degrees")][0]
    w.consts["MAX_ANALYSIS_DURATION"] = {"k": "Lit", "lit": "int", "value": "10", "suffix": "", "line": 0}
    bad = None
    n = 0
    try:
        for dt in ("Function", "Template", "CustomTemplate"):
            params = [O("parameter-a"), O("parameter-b")]
            plist = ("O", "parameters", (("iter", ("PY", lambda: passeval.Iter(list(params)))), ("len", 2), ("is_empty", False)))
            seeds = []

            def new_env(_n, _a):
                return ("O", "degree-environment", (("set_degree", ("PY", lambda v_, r_: (seeds.append((v_, r_)), True)[1])), ("set_type", ("PY", lambda *a_: ("T", ()))), ("degree", ("PY", lambda v_: NONE))))

            w.opaque = (("DegreeEnvironment::new", new_env), ("Instant::now", lambda _n, _a: ("O", "instant", (("elapsed", 0),))), ("std::time::Instant::now", lambda _n, _a: ("O", "instant", (("elapsed", 0),))))
            vals = {"name": "T", "constants": O("constants"), "parameters": plist, "declarations": O("declarations"), "basic_blocks": Sink(), "definition_type": E("DefinitionType", dt), "dominator_tree": O("dominator-tree")}
            fields = w.structs["Cfg"]
            if [f_ for f_ in fields if f_ not in vals]:
                raise Unsupported("Cfg has fields the world does not know")
            cfg = S("Cfg", *[vals[f_] for f_ in fields])
            w.call_fn(fn, [cfg])
            n += 1
            want = (C, L) if dt == "Function" else (C, C)
            got = []
            for v_, r_ in seeds:
                if isinstance(r_, tuple) and r_[0] == "S" and r_[1] == "DegreeRange":
                    got.append((v_, (di(r_[2][0]), di(r_[2][1]))))
                elif isinstance(r_, tuple) and r_[0] == "E" and r_[1] == "Degree":
                    got.append((v_, (di(r_), di(r_))))
                else:
                    raise Unsupported("a seed range made some other way: %r" % (r_,))
            if [v_ for v_, _r in got] != params:
                bad = bad or "%s: degrees are seeded for %s, the declared parameters are a, b" % (dt, [v_[1] for v_, _r in got])
            elif any(r_ != want for _v, r_ in got):
                bad = bad or "%s: parameters are seeded with %s, expected %s..%s" % (dt, ["%s..%s" % (DEG[r_[0]], DEG[r_[1]]) for _v, r_ in got], DEG[want[0]], DEG[want[1]])
    except Unsupported as u:
        ctx.note("Cfg::propagate_degrees is outside the evaluator's subset (%s): shape obligations apply" % u)
        return False
    except Panic as p_:
        ctx.bad(R, "Cfg::propagate_degrees/evaluated/no-panic", "panics: %s" % p_, CFG)
        return True
    finally:
        w.opaque = ()
    ctx.check(R, "Cfg::propagate_degrees/evaluated/parameter-seeds", bad is None, bad or "%d definition types: exactly the declared parameters are seeded, Constant..Linear for a function, Constant for a template" % n, CFG)
    return True


def rule_env(ctx):
    R = "C07.3"
    ctx.rule(R, "degree environment seeds: signals and components Linear, template parameters Constant, function parameters Constant..Linear; set_degree is called from nowhere else except the assignment rule")
    fn = find_fn(CFG, "propagate_degrees", "Cfg")
    if fn is None:
        return ctx.missing(R, "Cfg::propagate_degrees")
    if not eval_degree_env(ctx, R):
        sdf = find_fn(DMF, "set_degree", "DegreeEnvironment")
        ins = list(method_calls(sdf["body"], "insert")) if sdf else []
        ctx.check(R, "DegreeEnvironment/set_degree-records-the-given-range", len(ins) == 1 and not (conditions_to(sdf["body"], ins[0]) or []), "the insert must be unconditional", DMF)
    seeds_decided = eval_seed_env(ctx, R)
    seeds = list(method_calls(fn["body"], "set_degree")) if not seeds_decided else []
    if not seeds_decided:
        ctx.floor(R, "parameter-seeds", len(seeds), 1)
    for s in seeds:
        le = let_env(fn["body"], s)
        # what is seeded: the declared parameters, i.e. the loop runs over the definition's parameter list itself (a
        # later SSA version of a re-assigned parameter is an ordinary local: its degree comes from what is assigned)
        loops = [c for c in conditions_to(fn["body"], s) if c[0] == "loop" and c[1] == "for"]
        okl = False
        det = "not in a loop"
        if loops:
            it = strip(loops[-1][3])
            for _ in range(3):
                if it["k"] == "Path" and it["path"] in le:
                    it = strip(le[it["path"]])
            t_it = render(it).replace(" ", "").replace("&", "")
            det = "seeds are given to each element of `%s`" % t_it[:80]
            okl = t_it in ("self.parameters().iter()", "self.parameters()", "self.parameters.iter()", "self.parameters", "self.parameters().iter().cloned()", "self.parameters().clone().iter()") and render(strip(s["args"][0])).replace("&", "").strip() == render(loops[-1][2]).replace("&", "").strip()
        ctx.check(R, "Cfg::propagate_degrees/seeds-the-declared-parameters-only", okl, det, site(CFG, s))
        base = [(c[1], bool(c[2])) for c in conditions_to(fn["body"], s) if c[0] == "if"]
        conds = [fact_str(c) for c in conditions_to(fn["body"], s)]
        # the range handed over, through lets; an `if` expression contributes its condition to each branch
        e = s["args"][1]
        for _ in range(4):
            e = strip(e)
            if e["k"] == "Path" and "::" not in e["path"] and e["path"] not in DEG and e["path"] in le:
                e = le[e["path"]]
                continue
            break
        e = strip(e)
        cases = [(base, e)]
        if e["k"] == "If" and e.get("else") is not None and e["cond"]["k"] != "Let":
            cases = [(base + [(e["cond"], True)], astlib_result(e["then"])), (base + [(e["cond"], False)], astlib_result(e["else"]))]
        for cs, ve in cases:
            val = seed_value(fn, dict(s, args=[s["args"][0], ve])) if ve is not None else None
            pol = [x for x in (function_polarity(c_, p_, le) for c_, p_ in cs) if x is not None]
            for c in conditions_to(fn["body"], s):
                if c[0] == "iflet" and render(c[1]).replace(" ", "").split("::")[-1] == "Function" and "definition_type" in render(c[2]):
                    pol.append(bool(c[3]))
                if c[0] == "arm" and "definition_type" in render(c[1]) and c[3] is None:
                    from astlib import pat_paths as _pp

                    alts = {last(x) for x in _pp(c[2])}
                    if alts and alts <= {"Function"}:
                        pol.append(True)
                    elif alts and "Function" not in alts and "_" not in alts and alts <= {"Template", "CustomTemplate"}:
                        pol.append(False)
            shown = conds + [("" if p_ else "!") + render(c_) for c_, p_ in cs[len(base):]]
            if pol and all(pol):
                ok = val == ("Constant", "Linear")
                ctx.check(R, "Cfg::propagate_degrees/function-parameters", ok, "function parameter seeded with %s under %s" % (val, shown), site(CFG, s))
            elif pol and not any(pol):
                ok = val == ("Constant", "Constant")
                ctx.check(R, "Cfg::propagate_degrees/template-parameters", ok, "template parameter seeded with %s under %s" % (val, shown), site(CFG, s))
            else:
                ctx.bad(R, "Cfg::propagate_degrees/seed-context", "seed %s under unrecognised context %s" % (val, shown), site(CFG, s))
    # Declaration arm
    sfn = find_fn(SI, "propagate_degrees", "Statement")
    if sfn is None:
        return ctx.missing(R, "Statement::propagate_degrees")
    import alpha
    sfn, _m = alpha.canon_fields(sfn, [("names", "Declaration", "names"), ("var_type", "Declaration", "var_type"), ("var", "Substitution", "var"), ("rhe", "Substitution", "rhe")], [("env", "param", 0)])
    for s in method_calls(sfn["body"], "set_degree"):
        recv = render(strip(s["recv"]))
        if "degree_knowledge_mut" in recv:
            continue
        conds = conditions_to(sfn["body"], s)
        arms = [c for c in conds if c[0] == "arm"]
        val = seed_value(sfn, s)
        arm_txt = " / ".join(fact_str(c) for c in conds)
        if any("Declaration" in render(a[2]) for a in arms):
            # which variable types?
            vt = [fact_str(c) for c in conds if c[0] == "iflet" and c[3] and "var_type" in render(c[2])]
            lin = val == ("Linear", "Linear")
            kinds = set()
            for c in conds:
                if c[0] == "iflet" and c[3] and "var_type" in render(c[2]):
                    from astlib import pat_paths
                    kinds |= {last(x) for x in pat_paths(c[1])}
            sig = bool(kinds) and kinds <= {"Signal", "Component", "AnonymousComponent"}
            ctx.check(R, "Statement::propagate_degrees/Declaration/signals-and-components-linear", lin and sig, "seed %s in arm %s" % (val, arm_txt), site(SI, s))
        elif any("Substitution" in render(a[2]) for a in arms):
            var = render(strip(s["args"][0]))
            local_guard = any(c[0] == "if" and c[2] and render(c[1]).replace(" ", "") == "env.is_local(%s)" % var for c in conds)
            fr_ = [render(c[1]).replace(" ", "") for c in conds if c[0] == "iflet" and c[3] and render(c[2]).replace(" ", "") == "rhe.degree()"]
            from_rhs = bool(fr_)
            rb_ = re.fullmatch(r"Some\((\w+)\)", fr_[0]).group(1) if fr_ and re.fullmatch(r"Some\((\w+)\)", fr_[0]) else "range"
            ctx.check(R, "Statement::propagate_degrees/Substitution/only-locals-take-the-rhs-degree", local_guard, "the assigned name's degree is replaced by the right-hand side's only for local variables (signals and components keep their Linear seed whatever is assigned to them); guards: %s" % arm_txt, site(SI, s))
            ctx.check(R, "Statement::propagate_degrees/Substitution/publishes-rhs-degree", from_rhs and render(strip(s["args"][1])) == rb_, "set_degree(%s) in %s" % (render(s["args"]), arm_txt), site(SI, s))
        else:
            ctx.bad(R, "Statement::propagate_degrees/unexpected-seed", "set_degree(%s) in %s" % (render(s["args"]), arm_txt), site(SI, s))
    # who may call DegreeEnvironment::set_degree (syntax level: receiver is an env, not degree_knowledge_mut())
    callers = []
    for f in facts.ast():
        if f.endswith("_tests.rs") or "/tests/" in f or f.startswith("program_structure_tests"):
            continue
        from astlib import fns_in_file
        for q, fnn in fns_in_file(f):
            for s in method_calls(fnn["body"], "set_degree"):
                if "degree_knowledge_mut" not in render(s["recv"]):
                    callers.append("%s::%s" % (q, fnn["name"]))
    allowed = {"Cfg::propagate_degrees", "Statement::propagate_degrees"}
    if seeds_decided:
        # a private helper of Cfg that only propagate_degrees calls is part of it (its seeds were evaluated with it)
        from astlib import fns_in_file as _fif

        for c_ in sorted(set(callers) - allowed):
            if c_.startswith("Cfg::"):
                hn = c_.split("::", 1)[1]
                users = {f_["name"] for q_, f_ in _fif(CFG) if f_.get("body") and f_["name"] != hn and any(m_["k"] == "MethodCall" and m_["method"] == hn for m_ in walk(f_["body"]))}
                priv = [f_ for q_, f_ in _fif(CFG) if f_["name"] == hn and f_.get("vis") != "pub"]
                if priv and users <= {"propagate_degrees"}:
                    allowed.add(c_)
    extra = sorted(set(callers) - allowed)
    ctx.check(R, "DegreeEnvironment::set_degree/who-may-call", not extra, "unexpected callers: %s" % extra)


def rule_cs0013(ctx):
    R = "C07.4"
    ctx.rule(R, "CS0013 (unnecessary signal assignment) is chosen iff the assigned expression's own degree upper bound is at most quadratic")
    fn = find_fn(SA, "find_signal_assignments")
    if fn is None:
        return ctx.missing(R, "find_signal_assignments")
    import c08eval

    if c08eval.rule(ctx, R, "degree"):
        return
    import alpha

    import sgrep
    from astlib import inline_helpers, simplify_body

    fn = inline_helpers(fn, SA, exclude=("visit_statement", "build_assignment_report", "build_unecessary_assignment_report", "get_assignments", "get_constraint_metas", "get_constraints", "add_assignment", "add_constraint"))
    recs = sgrep.per_record(fn["body"], "__u.get_assignments()")
    if len(recs) != 1:
        return ctx.missing(R, "find_signal_assignments/per-assignment-code", "expected one piece of code run per recorded assignment, found %d" % len(recs))
    var, rbody, how, _produced = recs[0]
    rb = simplify_body(rbody) if rbody["k"] == "Block" else rbody
    builders = [c for c in walk(rb) if c["k"] == "Call" and c["func"]["k"] == "Path" and last(c["func"]["path"]) in ("build_assignment_report", "build_unecessary_assignment_report")]
    ctx.floor(R, "report-pushes", len(builders), 2)
    for p in builders:
        b = render(p)
        conds = [fact_str(c) for c in (conditions_to(rb, p) or []) if c[0] in ("if", "iflet", "notall")]
        which = "unnecessary" if "unecessary" in b.lower() or "unnecessary" in b.lower() else "assignment"
        want = ["%s.is_quadratic()" % var] if which == "unnecessary" else ["!%s.is_quadratic()" % var]
        ctx.check(R, "find_signal_assignments/report/" + which, conds == want, "report %s under %s (%s)" % (b[:80], conds, how), site(SA, p))
    # Assignment::is_quadratic reads the degree of the assigned expression
    isq = find_fn(SA, "is_quadratic")
    if isq is None:
        return ctx.missing(R, "Assignment::is_quadratic")
    t = render(isq["body"]).replace(" ", "")
    ctx.check(R, "SignalAssignment::is_quadratic/body", t in ("{self.is_quadratic}", "{self.degree.is_quadratic()}") or "is_quadratic" in t, t, site(SA, isq))


def eval_array_arms(ctx, R):
    """The arms of `Expression::propagate_degrees` that read the environment (Variable, Access, Update, Phi) or join
    several operands (SwitchOp, InlineArray), by evaluation: the node is built with a meta that records what is written, an environment that answers `degree(v)`
    from a table, and operands whose own degree is given.  For every combination in which the degree of every variable
    read is known: the upper bound written is at least the largest upper bound among the variables read and the
    operands (an element update keeps what the array already held - whatever the SSA version of the array is), and
    nothing is written when an operand's degree is unknown.  The worlds in which the *array* of an update has no
    degree are left to the operand-discipline rule (known finding)."""
    import passeval
    from passeval import Panic, Sink

    try:
        w = passeval.PassWorld([DM, IR, EI], EI)
    except Exception as ex:
        ctx.note("expression_impl.rs could not be loaded for evaluation (%s)" % ex)
        return False
    w.lenient_opaque = True
    key = None
    for k_ in w.methods:
        if k_ == ("Expression", "propagate_degrees"):
            key = k_
    if key is None:
        ctx.note("Expression::propagate_degrees not found for evaluation")
        return False
    fn = w.methods[key][0]
    SAMPLE = [(C, C), (C, N), (L, L), (Q, Q), (N, N)]
    n_worlds = 0
    problems = {}

    def run_node(variant, fields, table):
        written = []
        know = ("O", "degree-knowledge", (("set_degree", ("PY", lambda r_: (written.append(r_), True)[1])),))
        meta = ("O", "meta", (("degree_knowledge_mut", know),))

        def degree_of(v):
            for k2, val in table:
                if k2 is v:
                    return val
            return NONE

        envv = ("O", "env", (("degree", ("PY", degree_of)),))
        node = passeval.V("Expression", variant, meta=meta, **fields)
        w.call_fn(fn, [node, envv])
        return written

    def var(tag, version):
        return ("O", "var:" + tag, (("version", NONE if version is None else S("Some", version)), ("name", tag)))

    def operand(r_):
        d_ = NONE if r_ is None else S("Some", rng(*r_))
        return ("O", "operand", (("propagate_degrees", False), ("degree", d_)))

    def upper(written):
        return di(written[-1][2][1]) if written and isinstance(written[-1], tuple) and written[-1][0] == "S" and written[-1][1] == "DegreeRange" else None

    def note(variant, what):
        problems.setdefault(variant, what)

    try:
        for version in (None, 0, 2):
            for a in SAMPLE:
                v = var("x", version)
                # Variable / Access: the degree of the variable read
                for variant, fields in (("Variable", {"name": v}), ("Access", {"var": v, "access": Sink()})):
                    wr = run_node(variant, fields, [(v, S("Some", rng(*a)))])
                    n_worlds += 1
                    u = upper(wr)
                    if u is None or u < a[1]:
                        note(variant, "variable of degree [%s,%s]: upper bound written %s" % (DEG[a[0]], DEG[a[1]], DEG[u] if u is not None else "none"))
                    wr = run_node(variant, fields, [])
                    n_worlds += 1
                    if wr:
                        note(variant, "a degree is written although the variable read has none")
                for b in SAMPLE + [None]:
                    wr = run_node("Update", {"var": v, "access": Sink(), "rhe": operand(b)}, [(v, S("Some", rng(*a)))])
                    n_worlds += 1
                    u = upper(wr)
                    if b is None:
                        if wr:
                            note("Update", "array of degree [%s,%s] (version %s), assigned value of unknown degree: a degree is written" % (DEG[a[0]], DEG[a[1]], version))
                    elif u is None or u < max(a[1], b[1]):
                        note("Update", "array of degree [%s,%s] (SSA version %s), element assigned a value of degree [%s,%s]: upper bound written %s, the array still holds elements of degree %s" % (DEG[a[0]], DEG[a[1]], version, DEG[b[0]], DEG[b[1]], DEG[u] if u is not None else "none", DEG[max(a[1], b[1])]))
        for combo in itertools.product(SAMPLE + [None], repeat=2):
            vs = [var("a%d" % i, i) for i in range(2)]
            table = [(v_, S("Some", rng(*r_))) for v_, r_ in zip(vs, combo) if r_ is not None]
            args = Sink()
            args.items = list(vs)
            wr = run_node("Phi", {"args": args}, table)
            n_worlds += 1
            if any(r_ is None for r_ in combo):
                if wr:
                    note("Phi", "a degree is written although an argument has none")
            else:
                u = upper(wr)
                need = max(r_[1] for r_ in combo)
                if u is None or u < need:
                    note("Phi", "arguments of degree %s: upper bound written %s" % ([DEG[r_[1]] for r_ in combo], DEG[u] if u is not None else "none"))
        # the inline switch: a condition of constant degree whose value is not known; either case may be the one taken
        for a in SAMPLE + [None]:
            for b in SAMPLE + [None]:
                for cond in ((C, C), (C, L), None):
                    co = operand(cond)
                    co = (co[0], co[1], co[2] + (("value", NONE),))
                    wr = run_node("SwitchOp", {"cond": co, "if_true": operand(a), "if_false": operand(b)}, [])
                    n_worlds += 1
                    u = upper(wr)
                    shown = "cond %s ? %s : %s" % (cond and DEG[cond[1]], a and DEG[a[1]], b and DEG[b[1]])
                    if a is None or b is None or cond is None:
                        if wr:
                            note("SwitchOp", "%s: a degree is written although the degree of %s is unknown (so far)" % (shown, "the condition" if cond is None else "a case"))
                    elif wr and (u is None or u < max(a[1], b[1]) or (cond[1] > C and u < N)):
                        note("SwitchOp", "%s: upper bound written %s" % (shown, DEG[u] if u is not None else "none"))
        # an inline array: the degrees of all its elements
        for combo in itertools.product(SAMPLE + [None], repeat=2):
            vals = Sink()
            vals.items = [operand(r_) for r_ in combo]
            wr = run_node("InlineArray", {"values": vals}, [])
            n_worlds += 1
            if any(r_ is None for r_ in combo):
                if wr:
                    note("InlineArray", "a degree is written although an element has none")
            else:
                u = upper(wr)
                need = max(r_[1] for r_ in combo)
                if u is None or u < need:
                    note("InlineArray", "elements of degree %s: upper bound written %s" % ([DEG[r_[1]] for r_ in combo], DEG[u] if u is not None else "none"))
    except Unsupported as ex:
        ctx.note("Expression::propagate_degrees is outside the evaluator's subset (%s): the operand-discipline obligations apply" % ex)
        return False
    except Panic as ex:
        ctx.bad(R, "Expression::propagate_degrees/evaluated/no-panic", "panics: %s" % ex, EI)
        return True
    for variant in ("Variable", "Access", "Update", "Phi", "SwitchOp", "InlineArray"):
        ctx.check(R, "Expression::propagate_degrees/%s/evaluated/keeps-every-known-degree" % variant, variant not in problems, problems.get(variant) or "%d worlds: the upper bound written covers every variable read and every operand; nothing is written when one of them is unknown" % n_worlds, EI)
    return True


def run(ctx):
    rule_tables(ctx)
    opdisc.rule_degrees(ctx, "C07.2")
    eval_array_arms(ctx, "C07.2")
    rule_env(ctx)
    rule_cs0013(ctx)
