"""C09.5 by evaluation: `cache_variable_use` of the IR expressions and statements is run on one instance of every variant
whose children are leaves with known read sets, for every declared type of the node's own variable; the sets it stores
must be the union of the children's sets plus the node's own use in the class of its type."""
import a10
from finfun import E, NONE, S, Unsupported
import passeval
from passeval import MSet, O, Panic, V

IRF = "program_structure/src/intermediate_representation/ir.rs"
EI = "program_structure/src/intermediate_representation/expression_impl.rs"
SI = "program_structure/src/intermediate_representation/statement_impl.rs"
VMETA = "program_structure/src/intermediate_representation/variable_meta.rs"
CLASSES = ("locals", "signals", "components")


class Recorder:
    """the variable knowledge of the node under test: records what is stored"""

    def __init__(self):
        self.sets = {}
        tbl = []
        for cls in CLASSES:
            for rw in ("read", "written"):
                tbl.append(("set_%s_%s" % (cls, rw), ("PY", (lambda key: (lambda s: self._rec(key, s)))("%s_%s" % (cls, rw)))))
        self.obj = ("O", "variable_knowledge", tuple(tbl))

    def _rec(self, key, s):
        if not isinstance(s, MSet):
            raise Unsupported("stored value is not a set: %r" % (s,))
        self.sets[key] = list(s.items)
        return self.obj


VTYPES = {
    "Local": lambda: S("Some", E("VariableType", "Local")),
    "Component": lambda: S("Some", E("VariableType", "Component")),
    "AnonymousComponent": lambda: S("Some", E("VariableType", "AnonymousComponent")),
    "Signal": lambda: S("Some", S("Signal", O("signal_type"), O("tags"))),
    "unknown": lambda: NONE,
}
CLASS_OF = {"Local": "locals", "Component": "components", "AnonymousComponent": "components", "Signal": "signals", "unknown": None}


def make_meta(tag, vtype, vk):
    tk = O("type_knowledge", variable_type=VTYPES[vtype](), is_local=(vtype == "Local"), is_signal=(vtype == "Signal"), is_component=(vtype in ("Component", "AnonymousComponent")))
    return ("O", "meta:" + tag, (("type_knowledge", tk), ("variable_knowledge_mut", vk), ("variable_knowledge", vk)))


class LeafSets:
    """leaf expressions `Number(meta, 0)` whose meta answers the read-set getters with one marker per class; storing
    into a leaf's knowledge is a no-op"""

    def __init__(self):
        self.n = 0
        self.all = {c: [] for c in CLASSES}

    def leaf(self, tag):
        self.n += 1
        tbl = []
        for cls in CLASSES:
            mk = O("%s-of-%s#%d" % (cls, tag, self.n))
            self.all[cls].append(mk)
            tbl.append(("%s_read" % cls, MSet([mk])))
            tbl.append(("%s_written" % cls, MSet()))
        holder = []
        for cls in CLASSES:
            for rw in ("read", "written"):
                tbl.append(("set_%s_%s" % (cls, rw), ("PY", lambda s, holder=holder: holder[0])))
        vk = ("O", "leaf-knowledge#%d" % self.n, tuple(tbl))
        holder.append(vk)
        return S("Number", make_meta("leaf#%d" % self.n, "unknown", vk), 0)


def update_leaf(leaves):
    """an element update `update(x, [i].out[j], e)` as a child expression: answers the getters like a leaf"""
    lf = leaves.leaf("update")
    acc = ("L", (S("ArrayAccess", leaves.leaf("update.access[0]")), S("ComponentAccess", "in"), S("ArrayAccess", leaves.leaf("update.access[2]"))))
    return V("Expression", "Update", meta=lf[2][0], var=O("name:update.var"), access=acc, rhe=leaves.leaf("update.rhe"))


def build_ir_node(enum, vname, vdef, leaves, meta, rhe_update=False):
    fields, vals, own = {}, [], {}
    tuple_like = bool(vdef["fields"]) and all((f.get("name") or "").isdigit() for f in vdef["fields"])
    for f in vdef["fields"]:
        ty = f["ty"].replace(" ", "")
        nm = f.get("name")
        if ty == "Meta":
            v = meta
        elif ty in ("Expression", "Box<Expression>") and rhe_update and nm == "rhe":
            v = update_leaf(leaves)
        elif ty in ("Expression", "Box<Expression>"):
            v = leaves.leaf(nm)
        elif ty == "Vec<Expression>":
            v = ("L", (leaves.leaf(nm + "[0]"), leaves.leaf(nm + "[1]")))
        elif ty in ("Vec<AccessType>", "Vec<Access>"):
            v = ("L", (S("ArrayAccess", leaves.leaf(nm + "[0]")), S("ComponentAccess", "out"), S("ArrayAccess", leaves.leaf(nm + "[2]"))))
            own["access"] = v
        elif ty == "Vec<LogArgument>":
            v = ("L", (S("String", "text"), S("Expr", leaves.leaf(nm + "[1]"))))
        elif ty == "VariableName":
            v = O("name:" + nm)
            own.setdefault("name", v)
        elif ty in ("Vec<VariableName>", "NonEmptyVec<VariableName>"):
            v = ("L", (O("name:%s[0]" % nm), O("name:%s[1]" % nm)))
            own["names"] = v
        elif ty == "AssignOp":
            v = E("AssignOp", "AssignLocalOrComponent")
        else:
            v = O("%s.%s" % (vname, nm))
        fields[nm] = v
        vals.append(v)
    node = S(vname, *vals) if tuple_like else V(enum, vname, **fields)
    return node, own


def mentions(x, what, depth=0):
    """does the recorded use `x` (a struct value or an opaque constructor result) carry the object `what`?"""
    if x is what:
        return True
    if depth > 6:
        return False
    if isinstance(x, (tuple, list)):
        return any(mentions(y, what, depth + 1) for y in x if isinstance(y, (tuple, list, dict)))
    if isinstance(x, dict):
        return any(mentions(y, what, depth + 1) for y in x.values())
    return False


def evaluate(enum, impl_file, own_use):
    """own_use: variant -> 'read' | 'written' for the variants that record a use of their own variable.
    returns (worlds evaluated, {key: description of the first deviation}); raises Unsupported"""
    w = passeval.PassWorld([IRF, VMETA, EI, SI], impl_file)
    w.lenient_opaque = True
    if (enum, "cache_variable_use") not in w.methods:
        raise Unsupported("%s::cache_variable_use not found" % enum)
    fn = w.methods[(enum, "cache_variable_use")][0]
    d = a10.enum_def(IRF, enum)
    n = 0
    bad = {}
    for vname, vdef in d.items():
        vts = list(VTYPES) if vname in own_use else ["unknown"]
        shapes = [(vt, False) for vt in vts] + ([(vt, True) for vt in vts] if enum == "Statement" and vname == "Substitution" else [])
        for vt, upd in shapes:
            rec = Recorder()
            leaves = LeafSets()
            meta = make_meta(vname, vt, rec.obj)
            node, own = build_ir_node(enum, vname, vdef, leaves, meta, rhe_update=upd)
            if upd:
                # the update node answers with its own preset sets: only its marker is expected, not its children's
                for cls in CLASSES:
                    leaves.all[cls] = leaves.all[cls][:1]
            try:
                w.call_fn(fn, [node])
            except Panic as p:
                bad.setdefault("%s::%s/no-panic" % (enum, vname), str(p))
                continue
            n += 1
            for cls in CLASSES:
                got = rec.sets.get(cls + "_read")
                key = "%s::%s/%s-read" % (enum, vname, cls)
                if got is None:
                    bad.setdefault(key, "the set is never stored")
                    continue
                want_children = leaves.all[cls]
                missing = [m for m in want_children if not any(g is m for g in got)]
                extra = [g for g in got if not any(g is m for m in want_children)]
                if vname == "Phi" and cls == "locals":
                    names = own.get("names", ("L", ()))[1]
                    want_own = len(names)
                    ok_own = len(extra) == want_own and all(any(mentions(x, nm_) for x in extra) for nm_ in names)
                else:
                    want_own = 1 if (own_use.get(vname) == "read" and CLASS_OF[vt] == cls) else 0
                    ok_own = len(extra) == want_own and (want_own == 0 or (mentions(extra[0], meta) and mentions(extra[0], own.get("name"))))
                if missing:
                    bad.setdefault(key, "declared type %s: the reads of %d child(ren) are not merged (e.g. %s)" % (vt, len(missing), missing[0][1]))
                elif not ok_own:
                    bad.setdefault(key, "declared type %s: %d use(s) of the node's own variable recorded in this class, expected %d (built from the node's meta and name)" % (vt, len(extra), want_own))
            for cls in CLASSES:
                got = rec.sets.get(cls + "_written")
                key = "%s::%s/%s-written" % (enum, vname, cls)
                if got is None:
                    bad.setdefault(key, "the set is never stored")
                    continue
                want_own = 1 if (own_use.get(vname) == "written" and CLASS_OF[vt] == cls) else 0
                if len(got) != want_own or (want_own and not (mentions(got[0], meta) and mentions(got[0], own.get("name")))):
                    bad.setdefault(key, "declared type %s: %d write(s) recorded in this class, expected %d" % (vt, len(got), want_own))
    return n, bad
