"""C09.5 by evaluation: `cache_variable_use` of the IR expressions and statements is run on one instance of every variant
whose children are leaves with known read sets, for every declared type of the node's own variable; the sets it stores
must be the union of the children's sets plus the node's own use in the class of its type.

Extends the pass evaluator by mutable sets, struct defaults, callable method tables and opaque associated functions."""
import a10
from astlib import all_items, last, render
import facts
from finfun import E, NONE, Iter, S, Unsupported
import passeval
from passeval import O, Panic, V

IRF = "program_structure/src/intermediate_representation/ir.rs"
EI = "program_structure/src/intermediate_representation/expression_impl.rs"
SI = "program_structure/src/intermediate_representation/statement_impl.rs"
VMETA = "program_structure/src/intermediate_representation/variable_meta.rs"


class MSet:
    """a HashSet that is mutated in place"""

    def __init__(self, items=()):
        self.items = list(items)

    def add(self, x):
        if not any(x is y or x == y for y in self.items):
            self.items.append(x)

    def __repr__(self):
        return "MSet(%d)" % len(self.items)


SET_CTORS = ("VariableUses::new", "HashSet::new", "VariableUses::default", "HashSet::default", "VariableUses::with_capacity", "HashSet::with_capacity")


class UseWorld(passeval.PassWorld):
    def __init__(self, files, fn_file):
        super().__init__(files, fn_file)
        self.struct_fields = {}
        for f in files:
            for _p, it in all_items(facts.ast().get(f) or []):
                if it["k"] == "StructDef":
                    self.struct_fields[it["name"]] = [(x["name"], x["ty"].replace(" ", "")) for x in it["fields"]]

    def default_of(self, ty):
        if ty in ("VariableUses", "HashSet<VariableUse>"):
            return MSet()
        if ty in self.struct_fields:
            return S(ty, *[self.default_of(t) for _n, t in self.struct_fields[ty]])
        if ty == "bool":
            return False
        if ty.startswith("Option<"):
            return NONE
        if ty.startswith("Vec<"):
            return ("L", ())
        raise Unsupported("default of " + ty)

    def eval(self, e, env, uses):
        k = e["k"]
        if k == "Call" and e["func"]["k"] == "Path":
            p = e["func"]["path"]
            lp = last(p)
            segs = p.split("::")
            if p in SET_CTORS or (len(segs) >= 2 and "%s::%s" % (segs[-2], segs[-1]) in SET_CTORS):
                for a in e["args"]:
                    self.eval(a, env, uses)
                return MSet()
            if len(segs) >= 2 and lp in ("default", "new") and segs[-2] in self.struct_fields and (segs[-2], lp) not in self.methods and not e["args"]:
                return self.default_of(segs[-2])
            if p in ("Default::default", "std::default::Default::default"):
                raise Unsupported("untyped default")
            if len(segs) >= 2 and (segs[-2], lp) not in self.methods and p not in env and segs[-2][:1].isupper() and segs[-2] not in self.enums and lp not in ("Some",) and lp not in self.structs:
                args = [self.eval(a, env, uses) for a in e["args"]]
                return ("K", p, tuple(args))
        if k == "MethodCall":
            m = e["method"]
            recv = self.eval(e["recv"], env, uses)
            if isinstance(recv, MSet):
                args = [self.eval(a, env, uses) for a in e["args"]]
                if m == "insert" and len(args) == 1:
                    recv.add(args[0])
                    return True
                if m == "extend" and len(args) == 1:
                    a = args[0]
                    items = a.items if isinstance(a, MSet) else (a.rest() if isinstance(a, Iter) else (list(a[1]) if isinstance(a, tuple) and a and a[0] == "L" else None))
                    if items is None:
                        raise Unsupported("extend with %r" % (a,))
                    for x in list(items):
                        recv.add(x)
                    return ("T", ())
                if m in ("clone", "to_owned") and not args:
                    return MSet(recv.items)
                if m in ("iter", "into_iter", "drain") and not args:
                    return Iter(list(recv.items))
                if m == "len" and not args:
                    return len(recv.items)
                if m == "is_empty" and not args:
                    return not recv.items
                if m == "contains" and len(args) == 1:
                    return any(args[0] is y or args[0] == y for y in recv.items)
                if m in ("union",) and len(args) == 1 and isinstance(args[0], MSet):
                    return Iter(list(MSet(recv.items + args[0].items).items))
                raise Unsupported("set method " + m)
            if isinstance(recv, tuple) and recv and recv[0] == "O" and len(recv) > 2 and m in dict(recv[2]):
                v = dict(recv[2])[m]
                args = [self.eval(a, env, uses) for a in e["args"]]
                if isinstance(v, tuple) and v and v[0] == "PY":
                    return v[1](*args)
                return v
            if isinstance(recv, Iter) and m == "collect" and not e["args"]:
                tf = str(e.get("turbofish") or "")
                if "HashSet" in tf or "VariableUses" in tf:
                    return MSet(recv.rest())
            env2 = dict(env)
            env2["__recv2"] = recv
            try:
                return super().eval(dict(e, recv={"k": "Path", "path": "__recv2", "line": e.get("line", 0)}), env2, uses)
            finally:
                for k_ in env:
                    if k_ in env2:
                        env[k_] = env2[k_]
        return super().eval(e, env, uses)


class Recorder:
    def __init__(self):
        self.sets = {}
        tbl = {}
        for cls in ("locals", "signals", "components"):
            for rw in ("read", "written"):
                name = "set_%s_%s" % (cls, rw)
                tbl[name] = ("PY", (lambda key: (lambda s: self._rec(key, s)))("%s_%s" % (cls, rw)))
        self.obj = ("O", "variable_knowledge", tuple(tbl.items()))

    def _rec(self, key, s):
        if not isinstance(s, MSet):
            raise Unsupported("recorded value is not a set: %r" % (s,))
        self.sets[key] = list(s.items)
        return self.obj


VTYPES = {
    "Local": lambda: S("Some", E("VariableType", "Local")),
    "Component": lambda: S("Some", E("VariableType", "Component")),
    "AnonymousComponent": lambda: S("Some", E("VariableType", "AnonymousComponent")),
    "Signal": lambda: S("Some", S("Signal", O("signal_type"), O("tags"))),
    "unknown": lambda: NONE,
}
CLASS_OF = {"Local": "locals", "Component": "components", "AnonymousComponent": "components", "Signal": "signals", "unknown": None}


def make_meta(tag, vtype, rec):
    vt = VTYPES[vtype]()
    tk = O("type_knowledge", variable_type=vt, is_local=(vtype == "Local"), is_signal=(vtype == "Signal"), is_component=(vtype in ("Component", "AnonymousComponent")))
    return ("O", "meta:" + tag, (("type_knowledge", tk), ("variable_knowledge_mut", rec.obj), ("variable_knowledge", rec.obj)))


class LeafSets:
    def __init__(self):
        self.n = 0
        self.all = {"locals": [], "signals": [], "components": []}

    def leaf(self, tag):
        self.n += 1
        marks = {}
        for cls in ("locals", "signals", "components"):
            mk = O("%s-of-%s#%d" % (cls, tag, self.n))
            marks[cls] = mk
            self.all[cls].append(mk)
        return O("leaf:%s#%d" % (tag, self.n), cache_variable_use=("T", ()), locals_read=MSet([marks["locals"]]), signals_read=MSet([marks["signals"]]), components_read=MSet([marks["components"]]), locals_written=MSet(), signals_written=MSet(), components_written=MSet())


def build_ir_node(enum, vname, vdef, leaves, meta):
    fields = {}
    tuple_like = bool(vdef["fields"]) and all((f.get("name") or "").isdigit() for f in vdef["fields"])
    vals = []
    own = {}
    for f in vdef["fields"]:
        ty = f["ty"].replace(" ", "")
        nm = f.get("name")
        if ty == "Meta":
            v = meta
        elif ty in ("Expression", "Box<Expression>"):
            v = leaves.leaf(nm)
        elif ty == "Vec<Expression>":
            v = ("L", (leaves.leaf(nm + "[0]"), leaves.leaf(nm + "[1]")))
        elif ty in ("Vec<AccessType>", "Vec<Access>"):
            v = ("L", (S("ArrayAccess", leaves.leaf(nm + "[0]")), S("ComponentAccess", "out"), S("ArrayAccess", leaves.leaf(nm + "[2]"))))
            own["access"] = v
        elif ty == "Vec<LogArgument>":
            v = ("L", (S("String", "text"), S("Expr", leaves.leaf(nm + "[1]"))))
        elif ty == "VariableName":
            v = O("name:" + nm)
            own.setdefault("name", v)
        elif ty == "Vec<VariableName>":
            v = ("L", (O("name:%s[0]" % nm), O("name:%s[1]" % nm)))
            own["names"] = v
        elif ty == "AssignOp":
            v = E("AssignOp", "AssignLocalOrComponent")
        else:
            v = O("%s.%s" % (vname, nm))
        fields[nm] = v
        vals.append(v)
    node = S(vname, *vals) if tuple_like else V(enum, vname, **fields)
    return node, own


def mentions(x, what):
    """does the recorded use `x` (a struct value or an opaque constructor result) carry the object `what`?"""
    if x is what:
        return True
    if isinstance(x, tuple):
        return any(mentions(y, what) for y in x if isinstance(y, (tuple, list, dict)))
    if isinstance(x, (list,)):
        return any(mentions(y, what) for y in x)
    if isinstance(x, dict):
        return any(mentions(y, what) for y in x.values())
    return False


def evaluate(enum, impl_file, own_use):
    """own_use: variant -> ('read'|'written', name-field) for the variants that record a use of their own variable.
    returns (worlds evaluated, {key: description of the first deviation}) or raises Unsupported"""
    w = UseWorld([IRF, VMETA, impl_file], impl_file)
    if (enum, "cache_variable_use") not in w.methods:
        raise Unsupported("%s::cache_variable_use not found" % enum)
    fn = w.methods[(enum, "cache_variable_use")][0]
    d = a10.enum_def(IRF, enum)
    n = 0
    bad = {}
    for vname, vdef in d.items():
        vts = list(VTYPES) if vname in own_use else ["unknown"]
        for vt in vts:
            rec = Recorder()
            leaves = LeafSets()
            meta = make_meta(vname, vt, rec)
            node, own = build_ir_node(enum, vname, vdef, leaves, meta)
            try:
                w.call_fn(fn, [node])
            except Panic as p:
                bad.setdefault("%s::%s/no-panic" % (enum, vname), str(p))
                continue
            n += 1
            for cls in ("locals", "signals", "components"):
                got = rec.sets.get(cls + "_read")
                key = "%s::%s/%s-read" % (enum, vname, cls)
                if got is None:
                    bad.setdefault(key, "the set is never stored")
                    continue
                want_children = leaves.all[cls]
                missing = [m for m in want_children if not any(g is m for g in got)]
                extra = [g for g in got if not any(g is m for m in want_children)]
                if vname == "Phi" and cls == "locals":
                    names = own.get("names", ("L", ()))[1]
                    ok_own = len(extra) == len(names) and all(any(mentions(x, nm_) for x in extra) for nm_ in names)
                    want_own = len(names)
                else:
                    rw, _nf = own_use.get(vname, (None, None))
                    want_own = 1 if (rw == "read" and CLASS_OF[vt] == cls) else 0
                    ok_own = len(extra) == want_own and (want_own == 0 or (mentions(extra[0], meta) and mentions(extra[0], own.get("name"))))
                if missing:
                    bad.setdefault(key, "declared type %s: the reads of %d child(ren) are not merged (e.g. %s)" % (vt, len(missing), missing[0][1]))
                elif not ok_own:
                    bad.setdefault(key, "declared type %s: %d use(s) of the node's own variable recorded in this class, expected %d (built from the node's meta and name)" % (vt, len(extra), want_own))
            for cls in ("locals", "signals", "components"):
                got = rec.sets.get(cls + "_written")
                key = "%s::%s/%s-written" % (enum, vname, cls)
                if got is None:
                    bad.setdefault(key, "the set is never stored")
                    continue
                rw, _nf = own_use.get(vname, (None, None))
                want_own = 1 if (rw == "written" and CLASS_OF[vt] == cls) else 0
                if len(got) != want_own or (want_own and not (mentions(got[0], meta) and mentions(got[0], own.get("name")))):
                    bad.setdefault(key, "declared type %s: %d write(s) recorded in this class, expected %d" % (vt, len(got), want_own))
    return n, bad
