"""The signal-assignment pass by evaluation (C08.2, C08.7, C07.4): `find_signal_assignments` is run, with its own
bookkeeping (`SignalUse`, `visit_statement`), on a definition given as a table of statements - `<--` assignments of
known-quadratic, known-higher and unknown degree, to scalars and to elements, twice to the same signal; `<==`
assignments and `===` constraints that mention some of those signals; statements of every other kind - for each
definition type.  Expected, for a template: one report per `<--` statement, in order; `could be <==` exactly when the
degree of the right-hand side is known to be at most quadratic, otherwise the plain finding with the locations of all
constraints (`<==` and `===`) that mention the assigned signal under the same access; nothing for functions and custom
templates."""
import passeval
from finfun import E, NONE, S, Unsupported
from passeval import O, Panic, Sink, V

SA = "program_analysis/src/signal_assignments.rs"
IRF = "program_structure/src/intermediate_representation/ir.rs"
CFGF = "program_structure/src/control_flow_graph/cfg.rs"


def evaluate():
    w = passeval.PassWorld([IRF, CFGF, SA], SA)
    w.lenient_opaque = True
    fn = w.free.get("find_signal_assignments")
    if fn is None:
        raise Unsupported("find_signal_assignments not found")
    names = {}

    def name(x):
        names[x] = x  # variable names are compared with `==`: plain strings
        return x

    def access(*parts):
        s_ = Sink()
        s_.items = [S("ArrayAccess", O("index:%s" % p)) if not isinstance(p, str) else S("ComponentAccess", p) for p in parts]
        return s_

    metas = {}

    def meta(tag):
        if tag not in metas:
            metas[tag] = ("O", "meta@" + tag, (("clone", ("PY", lambda tag=tag: metas[tag])),))
        return metas[tag]

    def use(sig, acc):
        return ("O", "use:" + sig, (("name", name(sig)), ("access", acc)))

    def expr(tag, reads, degree=None):
        """a right-hand side / constraint side: reads = [(signal, access)], degree None | 'quadratic' | 'cubic'"""
        rng = NONE if degree is None else S("Some", O("degree:" + degree, is_quadratic=(degree == "quadratic")))
        return V("Expression", "Call", meta=meta(tag + ".expr"), name="f", args=("L", ()), __reads=("L", tuple(use(s_, a_) for s_, a_ in reads)), __degree=rng)

    w.method_stubs = {("Expression", "signals_read"): lambda recv, args: ("L", (use_of_var(recv),)) if recv[2] == "Variable" else recv[3].get("__reads", ("L", ())),
                      ("Expression", "degree"): lambda recv, args: recv[3].get("__degree", NONE)}

    def use_of_var(v):
        return ("O", "use-of-lhs", (("name", v[3].get("name")), ("access", EMPTY)))

    EMPTY = access()
    A0 = access(0)
    # statements of the definition, in order:  (kind, signal, access, rhs degree, rhs reads)
    def update(tag, acc, inner):
        return V("Expression", "Update", meta=meta(tag + ".rhs"), var=O("var"), access=acc, rhe=inner, __degree=inner[3].get("__degree", NONE), __reads=inner[3].get("__reads", ("L", ())))

    program = [
        ("sub", "AssignSignal", "s1", None, "quadratic", []),            # 0: s1 <-- quadratic         -> could be <==
        ("sub", "AssignSignal", "s2", None, "cubic", []),                # 1: s2 <-- cubic             -> finding, constraints on s2: c1, c3
        ("sub", "AssignSignal", "s3", None, None, []),                   # 2: s3 <-- unknown degree    -> finding, no constraints
        ("sub", "AssignSignal", "arr", A0, "cubic", []),                 # 3: arr[0] <-- cubic         -> finding, constraints on arr[0]: c2
        ("sub", "AssignSignal", "arr", access(1), "cubic", []),          # 4: arr[1] <-- cubic         -> finding, constraints on arr[1]: c3 (not those of arr[0])
        ("sub", "AssignSignal", "s2", None, "quadratic", []),            # 5: s2 <-- quadratic (again) -> could be <==
        ("sub", "AssignConstraintSignal", "t", None, "quadratic", [("s2", EMPTY)]),      # 6 = c1: t <== .. s2 ..
        ("eq", None, None, None, None, ([("arr", A0)], [("s1x", EMPTY)])),               # 7 = c2: arr[0] === ..
        ("eq", None, None, None, None, ([("u", EMPTY)], [("s2", EMPTY), ("arr", access(1))])),  # 8 = c3: u === .. s2 .. arr[1]
        ("sub", "AssignLocalOrComponent", "v", None, "quadratic", []),   # 9: v = ..                   -> nothing
        ("other", None, None, None, None, None),
    ]
    results = {}
    for kind in ("Template", "Function", "CustomTemplate"):
        stmts = []
        for i, (k, op, sig, acc, deg, reads) in enumerate(program):
            tag = "stmt%d" % i
            if k == "sub":
                inner = expr(tag, reads or [], deg)
                rhe = update(tag, acc, inner) if acc is not None else inner
                stmts.append(V("Statement", "Substitution", meta=meta(tag), var=name(sig), op=E("AssignOp", op), rhe=rhe))
            elif k == "eq":
                stmts.append(V("Statement", "ConstraintEquality", meta=meta(tag), lhe=expr(tag + ".l", reads[0]), rhe=expr(tag + ".r", reads[1])))
            else:
                stmts.append(V("Statement", "Return", meta=meta(tag), value=expr(tag, [("s3", EMPTY)])))
        blocks = [("O", "block0", (("iter", ("L", tuple(stmts[:4]))),)), ("O", "block1", (("iter", ("L", tuple(stmts[4:]))),))]
        cfg = ("O", "cfg", (("iter", ("L", tuple(blocks))), ("definition_type", E("DefinitionType", kind)), ("name", "T")))
        w.stubs = {"build_unecessary_assignment_report": lambda a: ("K", "could-be-constraint", tuple(a)), "build_assignment_report": lambda a: ("K", "assignment", tuple(a))}
        try:
            res = w.call_fn(fn, [cfg])
        finally:
            w.stubs = {}
        if not isinstance(res, Sink):
            raise Unsupported("the pass returns %r" % (res,))
        got = []
        for r in res.items:
            if not (isinstance(r, tuple) and r[0] == "K" and len(r[2]) >= 3):
                raise Unsupported("a report built some other way: %r" % (r,))
            sig = [k_ for k_, v_ in names.items() if v_ == r[2][0]]
            acc = r[2][1]
            acc = list(acc.items) if isinstance(acc, Sink) else (list(acc[1]) if isinstance(acc, tuple) and acc and acc[0] == "L" else None)
            m_ = [k_ for k_, v_ in metas.items() if v_ is r[2][2]]
            cm = None
            if r[1] == "assignment":
                c_ = r[2][3] if len(r[2]) > 3 else None
                c_ = list(c_.items) if isinstance(c_, Sink) else (list(c_[1]) if isinstance(c_, tuple) and c_ and c_[0] == "L" else None)
                cm = sorted(k_ for x in (c_ or []) for k_, v_ in metas.items() if v_ is x) if c_ is not None else None
            got.append((r[1], sig[0] if sig else None, len(acc) if acc is not None else None, m_[0] if m_ else None, cm))
        want = []
        if kind == "Template":
            want = [("could-be-constraint", "s1", 0, "stmt0", None), ("assignment", "s2", 0, "stmt1", ["stmt6", "stmt8"]), ("assignment", "s3", 0, "stmt2", []), ("assignment", "arr", 1, "stmt3", ["stmt7"]),
                    ("assignment", "arr", 1, "stmt4", ["stmt8"]), ("could-be-constraint", "s2", 0, "stmt5", None)]
        results[kind] = (got, want)
    return results


_CACHE = {}


def rule(ctx, R, part):
    """part: 'reports' (C08.2), 'constraints' (C08.7), 'degree' (C07.4).  Returns True when the evaluation decided."""
    from astlib import find_fn, site

    if "r" not in _CACHE:
        try:
            _CACHE["r"] = evaluate()
        except Unsupported as u:
            _CACHE["r"] = ("unsupported", str(u))
        except Panic as p_:
            _CACHE["r"] = ("panic", str(p_))
    r = _CACHE["r"]
    fn = find_fn(SA, "find_signal_assignments")
    st = site(SA, fn) if fn else None
    if isinstance(r, tuple):
        if r[0] == "unsupported":
            ctx.note("find_signal_assignments is outside the evaluator's subset (%s): shape obligations apply" % r[1])
            return False
        ctx.bad(R, "find_signal_assignments/table/no-panic", "the pass panics on the table definition: %s" % r[1], st)
        return True
    tg, tw = r["Template"]
    problems = {"reports": None, "constraints": None, "degree": None, "kinds": None}
    for kind in ("Function", "CustomTemplate"):
        if r[kind][0]:
            problems["kinds"] = "%d finding(s) for a %s" % (len(r[kind][0]), kind)
    gk = [(a, b, c, d) for a, b, c, d, _e in tg]
    wk = [(a, b, c, d) for a, b, c, d, _e in tw]
    if [x[1:] for x in gk] != [x[1:] for x in wk]:
        problems["reports"] = "findings for %s, expected one per `<--` statement in order: %s" % ([x[1:] for x in gk], [x[1:] for x in wk])
    elif [x[0] for x in gk] != [x[0] for x in wk]:
        i = [j for j in range(len(gk)) if gk[j][0] != wk[j][0]][0]
        problems["degree"] = "`%s <-- e` at %s is reported as `%s`, expected `%s` (right-hand side degree: %s)" % (wk[i][1], wk[i][3], gk[i][0], wk[i][0], {"stmt0": "quadratic", "stmt1": "cubic", "stmt2": "unknown", "stmt3": "cubic", "stmt4": "cubic", "stmt5": "quadratic"}.get(wk[i][3]))
    else:
        for g, w_ in zip(tg, tw):
            if g[4] != w_[4]:
                problems["constraints"] = "`%s <-- e` at %s lists the constraints %s, expected %s" % (w_[1], w_[3], g[4], w_[4])
                break
    if part == "reports":
        ctx.check(R, "find_signal_assignments/one-report-per-record", problems["reports"] is None and problems["kinds"] is None, problems["reports"] or problems["kinds"] or "one finding per `<--` statement of a template, in order, located at that statement; none for functions and custom templates", st)
    elif part == "constraints":
        ctx.check(R, "find_signal_assignments/all-constraints-on-the-signal", problems["constraints"] is None and problems["reports"] is None, problems["constraints"] or problems["reports"] or "the secondary locations are all `<==` / `===` statements that mention the signal under the same access", st)
    else:
        ctx.check(R, "find_signal_assignments/could-be-constraint-iff-known-quadratic", problems["degree"] is None and problems["reports"] is None, problems["degree"] or problems["reports"] or "`could be <==` exactly when the right-hand side's degree is known and at most quadratic", st)
    return True
