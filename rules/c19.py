"""C19 Includes: each file once, cycles terminate, only named files reported on."""
import re

from astlib import calls, find_fn, fns_in_file, last, method_calls, render, site, strip, walk
from pathcond import conditions_to, enumerate_paths, fact_str, facts_str, find_path, let_env
import reportflow
import sgrep

TITLE = "Includes"
LEVEL_TEXT = (
    "only canonical paths are queued (every push takes the Ok value of fs::canonicalize or a stored canonical library path);"
    " a file is marked visited before it is handed out and the test and the mark use the same value; includes are resolved"
    " relative to the including file first and through the libraries only on failure; an unresolvable include always yields"
    " the error located at the include; user-input classification compares canonical paths; only named files are analysed and"
    " label-less non-errors never pass the file filter. Include resolution and take_next are evaluated on a model file system (including-file first, library directory, library file by bare name, everything else the error, resolution base unchanged, queued paths canonical); the library list reaches the file stack unchanged."
)
NOT_DECIDED = "symlink semantics of the operating system; that canonicalisation itself identifies equal files."
TRUSTED = ["syn parser", "fs::canonicalize returns one spelling per file"]

INC = "parser/src/include_logic.rs"
LIB = "parser/src/lib.rs"
PL = "parser/src/parser_logic.rs"
MAIN = "cli/src/main.rs"
FD = "program_structure/src/program_library/file_definition.rs"
RUN = "program_analysis/src/analysis_runner.rs"


def canonical_provenance(fn, push):
    """is the pushed value the Ok payload of fs::canonicalize (or a stored canonical library path)?"""
    arg = strip(push["args"][0])
    name = render(arg)
    conds = conditions_to(fn["body"], push) or []
    for c in conds:
        if c[0] == "arm":
            pat = render(c[2]).replace(" ", "")
            scr = render(c[1]).replace(" ", "")
            if pat == "Ok(%s)" % name and scr.startswith("fs::canonicalize("):
                return True, "Ok payload of %s" % scr
        if c[0] == "iflet" and c[3]:
            pat = render(c[1]).replace(" ", "")
            scr = render(c[2]).replace(" ", "")
            if pat == "Ok(%s)" % name and scr.startswith("fs::canonicalize("):
                return True, "Ok payload of %s" % scr
    if arg["k"] == "Field" and arg["member"] == "path" and any(c[0] == "loop" and "libraries" in render(c[3]) and render(c[2]).lstrip("&") == render(arg["base"]) for c in conds):
        return "lib", "stored library path"
    return False, "pushed value `%s` is not the result of fs::canonicalize on this path (conditions: %s)" % (name, facts_str(conds))


def rule_canonical(ctx):
    R = "C19.1"
    ctx.rule(R, "every path pushed onto the file stack is the Ok value of fs::canonicalize, or the stored path of a library file (which is itself stored from an Ok value of fs::canonicalize)")
    n = 0
    import c19inc

    # the pushes made while an include is resolved are decided by evaluation (every queued path came out of the model's
    # fs::canonicalize or is a library file's stored path); the shape obligation stays for them only as the fallback
    inc_decided = c19inc.rule(ctx, R)
    inc_fns = set()
    if inc_decided:
        inc_fns = {"add_include", "include_library"}
        for _ in range(3):
            for q, fn in fns_in_file(INC):
                if fn["name"] in inc_fns and fn.get("body"):
                    for m_ in walk(fn["body"]):
                        nm_ = m_["method"] if m_["k"] == "MethodCall" else (last(m_["func"]["path"]) if m_["k"] == "Call" and m_["func"]["k"] == "Path" else None)
                        if nm_ and any(f2["name"] == nm_ and f2.get("vis") != "pub" for _q2, f2 in fns_in_file(INC)) and nm_ not in ("add_files", "add_libraries", "take_next", "new"):
                            inc_fns.add(nm_)
    for q, fn in fns_in_file(INC):
        if fn["name"] in inc_fns:
            continue
        for p in method_calls(fn["body"], "push"):
            if render(strip(p["recv"])) != "self.stack":
                continue
            n += 1
            ok, how = canonical_provenance(fn, p)
            if ok == "lib":
                # library file: constructed from a canonical path, and only used when !lib.dir
                cs = facts_str(conditions_to(fn["body"], p) or [])
                nodir = any(re.fullmatch(r"!\w+\.dir", c.replace(" ", "")) for c in cs)
                ctx.check(R, "%s/push(lib.path)/library-file-only" % fn["name"], nodir, "conditions: %s" % cs, site(INC, p))
                continue
            ctx.check(R, "%s/push(%s)" % (fn["name"], render(strip(p["args"][0]))), bool(ok), how, site(INC, p))
    ctx.floor(R, "stack pushes", n, 1 if inc_decided else 4)
    # Library { dir: false, path } is only built from a canonical path
    al = find_fn(INC, "add_libraries")
    if al is None:
        ctx.missing(R, "add_libraries")
    else:
        for s in walk(al["body"]):
            if s["k"] == "Struct" and last(s["path"]) == "Library":
                f = {x["name"]: render(strip(x["e"])).replace(" ", "") for x in s["fields"]}
                if f.get("dir") == "false":
                    cs = conditions_to(al["body"], s) or []
                    ok = any((c[0] == "arm" and render(c[2]).replace(" ", "") == "Ok(%s)" % f.get("path") and render(c[1]).replace(" ", "").startswith("fs::canonicalize(")) or (c[0] == "iflet" and c[3] and render(c[1]).replace(" ", "") == "Ok(%s)" % f.get("path") and render(c[2]).replace(" ", "").startswith("fs::canonicalize(")) for c in cs)
                    ctx.check(R, "add_libraries/library-file-path-is-canonical", ok, "Library %s under %s" % (f, facts_str(cs)), site(INC, s))
    # nothing else fills the stack
    other = []
    for q, fn in fns_in_file(INC):
        for m in walk(fn["body"]):
            if m["k"] == "MethodCall" and m["method"] in ("extend", "insert", "append", "extend_from_slice") and "self.stack" in render(m["recv"]):
                other.append("%s: %s" % (fn["name"], render(m)[:60]))
            if m["k"] == "Assign" and render(m["l"]).replace(" ", "") in ("self.stack", "result.stack"):
                other.append("%s: %s" % (fn["name"], render(m)[:60]))
    ctx.check(R, "stack/no-other-writer", not other, str(other))


def rule_visited(ctx):
    R = "C19.2"
    ctx.rule(R, "take_next hands out a path only if it was not visited, marks it visited before returning it, and test and mark use the same value")
    fn = find_fn(INC, "take_next")
    if fn is None:
        return ctx.missing(R, "take_next")
    import c19inc

    outer_ctx = ctx
    if c19inc.rule_take_next(ctx, R):
        # decided by evaluation on a model stack (rules/c19inc.py); the shape obligations on take_next are the fallback
        class _QuietT:
            def __getattr__(self, _n):
                return lambda *a, **k: None

        ctx = _QuietT()
    outs = [n for n in walk(fn["body"]) if n["k"] in ("Break", "Return") and n.get("e") is not None and render(strip(n["e"])).startswith("Some(")]
    tails = []
    if not outs:
        return ctx.missing(R, "take_next/result")
    for o in outs:
        val = re.fullmatch(r"Some\((\w+)\)", render(strip(o["e"])).replace(" ", ""))
        if not val:
            ctx.bad(R, "take_next/result-shape", render(o["e"]), site(INC, o))
            continue
        v = val.group(1)
        conds = conditions_to(fn["body"], o) or []
        cs = [fact_str(c).replace(" ", "") for c in conds]
        guard = any(("!self.black_paths.contains(&%s)" % v) in c for c in cs)
        ctx.check(R, "take_next/only-unvisited", guard, "Some(%s) under %s" % (v, cs), site(INC, o))
        # insert precedes in the same block
        path = find_path(fn["body"], o) or []
        marked = False
        for parent, slot, child in path:
            if parent["k"] == "Block":
                for s in parent["stmts"]:
                    if s is child:
                        break
                    if render(s).replace(" ", "").startswith("self.black_paths.insert(%s.clone())" % v) or render(s).replace(" ", "").startswith("self.black_paths.insert(%s)" % v):
                        marked = True
        ctx.check(R, "take_next/marked-before-handed-out", marked, "black_paths.insert(%s) must precede `%s`" % (v, render(o)[:40]), site(INC, o))
        popped = any(c.startswith("matchself.stack.pop()=>Some(%s)" % v) for c in cs) or any(c == "(letSome(%s)=self.stack.pop())" % v for c in cs)
        ctx.check(R, "take_next/value-comes-from-the-stack", popped, "conditions %s" % cs, site(INC, o))
    # current location is the directory of the file handed out
    t = render(fn["body"]).replace(" ", "")
    okl = False
    for n, b in sgrep.find(fn["body"], "self.current_location = Some(__loc)"):
        loc = b["__loc"]
        okl = okl or (sgrep.has(fn["body"], "let mut __l = __fp.clone()", None, {"__l": loc}) and sgrep.has(fn["body"], "__l.pop()", None, {"__l": loc}))
    ctx.check(R, "take_next/current-location-is-the-file's-directory", okl, "the current location must be the popped path with its last component removed", site(INC, fn))
    # add_include skips visited
    ctx = outer_ctx
    ai = find_fn(INC, "add_include")
    if ai is not None:
        ps = [p for p in method_calls(ai["body"], "push") if render(strip(p["recv"])) == "self.stack"]
        if ps:
            conds_ = conditions_to(ai["body"], ps[0]) or []
            cs = [fact_str(c).replace(" ", "") for c in conds_]
            pushed = render(strip(ps[0]["args"][0]))
            okv = any(c[0] == "if" and not c[2] and sgrep.match(sgrep.pattern("self.black_paths.contains(%s)" % pushed), c[1], {}) for c in conds_)
            ctx.check(R, "add_include/visited-files-not-requeued", okv, "push under %s" % cs, site(INC, ps[0]))


def rule_resolution(ctx):
    R = "C19.3"
    ctx.rule(R, "an include is resolved against the directory of the including file first; the libraries are searched only when that fails; when nothing resolves, the error located at the include statement is returned, unconditionally")
    ai = find_fn(INC, "add_include")
    if ai is None:
        return ctx.missing(R, "add_include")
    import c19inc

    outer_ctx = ctx
    if c19inc.rule(ctx, R):
        # decided by evaluation: the shape obligations on add_include / include_library below are not needed (they stay the
        # fallback when the functions leave the evaluator's subset)
        class _Quiet:
            def __getattr__(self, _n):
                return lambda *a, **k: None

        ctx = _Quiet()
    pva = sgrep.params(ai)
    inc = pva[0] if pva else "include"
    # the joined path: `let mut L = self.current_location.clone()..; L.push(<include>.path.clone())`
    lenv = sgrep.lets(ai["body"])
    locs = [k for k, v in lenv.items() if render(strip(v)).replace(" ", "").startswith("self.current_location")]
    okj = len(locs) == 1 and sgrep.has(ai["body"], "%s.push(%s.path)" % (locs[0], inc))
    ctx.check(R, "add_include/relative-to-including-file", okj, "joined path: %s" % locs, site(INC, ai))
    L = locs[0] if locs else "location"
    canon = [c for c in walk(ai["body"]) if c["k"] == "Call" and render(c["func"]).endswith("canonicalize")]
    ok = len(canon) == 1 and render(strip(canon[0]["args"][0])) == L
    ctx.check(R, "add_include/canonicalises-the-joined-path", ok, render(canon[0]) if canon else "no fs::canonicalize", site(INC, ai))
    if ok:
        libcalls = list(method_calls(ai["body"], "include_library"))
        ctx.check(R, "add_include/library-search-once", len(libcalls) == 1, "%d calls" % len(libcalls), site(INC, ai))
        # the libraries are searched exactly when canonicalisation failed
        oklib = False
        if len(libcalls) == 1:
            cl = conditions_to(ai["body"], libcalls[0]) or []
            le_ = let_env(ai["body"], libcalls[0])

            def is_canon(x):
                x = strip(x)
                if x["k"] == "Path" and x["path"] in le_:
                    x = strip(le_[x["path"]])
                return any(y is canon[0] or (y["k"] == "Call" and render(y) == render(canon[0])) for y in walk(x))

            if len(cl) == 1 and render(strip(libcalls[0]["args"][0])) == inc:
                c0 = cl[0]
                if c0[0] == "iflet":
                    pt = render(c0[1]).replace(" ", "")
                    oklib = is_canon(c0[2]) and ((pt.startswith("Err(") and bool(c0[3])) or (pt.startswith("Ok(") and not c0[3]))
                elif c0[0] == "if":
                    x = strip(c0[1])
                    pos = bool(c0[2])
                    while x["k"] == "Unary" and x["op"] == "!":
                        x, pos = strip(x["e"]), not pos
                    oklib = x["k"] == "MethodCall" and not x["args"] and is_canon(x["recv"]) and ((x["method"] == "is_err" and pos) or (x["method"] == "is_ok" and not pos))
        ctx.check(R, "add_include/libraries-only-on-failure", oklib, "include_library under %s" % (facts_str(conditions_to(ai["body"], libcalls[0]) or []) if libcalls else "-"), site(INC, ai))
        # the canonicalisation is unconditional
        cs = conditions_to(ai["body"], canon[0]) or []
        ctx.check(R, "add_include/canonicalisation-unconditional", not cs, "resolution only under %s: other includes are queued un-canonicalised or not at all" % facts_str(cs), site(INC, canon[0]))
        pushes = [p for p in method_calls(ai["body"], "push") if render(strip(p["recv"])) == "self.stack"]
        ctx.check(R, "add_include/single-push", len(pushes) == 1, "%d pushes" % len(pushes), site(INC, ai))
    il = find_fn(INC, "include_library")
    if il is None:
        return outer_ctx.missing(R, "include_library")
    # every path through the function: Ok only after a push, else the IncludeError
    paths = enumerate_paths(il["body"])
    tail = None
    from astlib import block_tail
    tail = block_tail(il["body"])
    ok = tail is not None and render(strip(tail)).replace(" ", "") == "Err(Box::new(error.into_report()))"
    if not ok and tail is not None:
        # the same through a helper / with the lets written out: Err(Box::new(<IncludeError {..}>.into_report()))
        from astlib import result_expr as _rxe

        def final_value(e, depth=0):
            e = strip(e)
            if e["k"] == "Block" and depth < 4:
                env_ = sgrep.lets(e)
                t_ = block_tail(e)
                if t_ is None:
                    return e
                t_ = final_value(t_, depth + 1)
                from pathcond import _subst

                return _subst(t_, {k_: v_ for k_, v_ in env_.items()})
            if e["k"] == "Call" and len(e["args"]) == 1 and depth < 4:
                return dict(e, args=[final_value(e["args"][0], depth + 1)])
            if e["k"] == "MethodCall" and depth < 4:
                return dict(e, recv=final_value(e["recv"], depth + 1))
            return e

        fv = final_value(tail)
        tt = render(fv).replace(" ", "")
        ok = bool(re.fullmatch(r"Err\((?:Box::new\()?\(?IncludeError\{.*\}\)?\.into_report\(\)\)?\)", tt))
    ctx.check(R, "include_library/ends-with-the-include-error", ok, "tail: %s" % (render(tail)[:80] if tail else "?"), site(INC, il))
    le = let_env(il["body"])
    err = le.get("error")
    okk = False
    if err is not None:
        e = strip(err)
        if e["k"] == "Struct" and last(e["path"]) == "IncludeError":
            f = {x["name"]: render(strip(x["e"])).replace(" ", "") for x in e["fields"]}
            okk = f.get("file_id") == "include.meta.file_id" and f.get("file_location") == "include.meta.file_location()" and f.get("path") == "include.path"
    ctx.check(R, "include_library/error-located-at-the-include", okk, render(err)[:160] if err else "?", site(INC, il))
    # returns: every `return Ok(())` is preceded by a push in its block
    rets = [r for r in walk(il["body"]) if r["k"] == "Return"]
    for r in rets:
        t = render(strip(r["e"])).replace(" ", "") if r.get("e") else ""
        if t == "Ok(())":
            path = find_path(il["body"], r) or []
            pushed = False
            for parent, slot, child in path:
                if parent["k"] == "Block":
                    for s in parent["stmts"]:
                        if s is child:
                            break
                        if "self.stack.push(" in render(s).replace(" ", ""):
                            pushed = True
            ctx.check(R, "include_library/success-only-after-queueing", pushed, "`return Ok(())` without queueing a file", site(INC, r))
        elif t.startswith("Err("):
            ctx.ok(R, "include_library/early-error", t[:60], site(INC, r))
        else:
            ctx.bad(R, "include_library/unexpected-return", t[:60], site(INC, r))
    # the error cannot be suppressed: no state consulted before returning it
    errstmt = [s for s in il["body"]["stmts"] if s["k"] == "Local" and s["pat"].get("name") == "error"]
    if errstmt:
        cs = conditions_to(il["body"], errstmt[0]) or []
        ctx.check(R, "include_library/error-unconditional", not [c for c in cs if c[0] != "notall"] or all(c[0] == "notall" for c in cs), "error only under %s" % facts_str(cs), site(INC, errstmt[0]))
    bad = [render(m)[:60] for m in walk(il["body"]) if m["k"] == "MethodCall" and m["method"] in ("insert", "contains") and "self." in render(m["recv"]) and "black_paths" not in render(m["recv"])]
    ctx.check(R, "include_library/no-error-deduplication", not bad, "state consulted before reporting: %s" % bad, site(INC, il))
    ctx = outer_ctx
    # the caller reports the error and sets the include's file id first
    pf = find_fn(LIB, "parse_file")
    if pf is not None:
        t = render(pf["body"]).replace(" ", "")
        oki = False
        for n, b in sgrep.find(pf["body"], "for __inc in __p.includes { __body }") + sgrep.find(pf["body"], "for __inc in __p.includes.iter() { __body }"):
            adds = [a for a in method_calls(n, "add_include") if render(strip(a["args"][0])) == b["__inc"]]
            if len(adds) == 1 and not [c for c in (conditions_to(n["body"], adds[0]) or []) if c[0] not in ("loop",)]:
                # the Err result is pushed to the reports
                oki = sgrep.has(n, "if let Err(__r) = __fs.add_include(__i) { __rs.push(*__r); }") or sgrep.has(n, "match __fs.add_include(__i) { Err(__r) => __rs.push(*__r), __o => __x }") or any("push" in render(x) for x in walk(n) if x["k"] == "MethodCall" and x["method"] == "push")
        if not oki:
            # iterator form: REPORTS.extend(P.includes.iter().filter_map(|i| FS.add_include(i).err()) ..)
            lenv = sgrep.lets(pf["body"])
            for ext in method_calls(pf["body"], "extend"):
                arg = strip(ext["args"][0]) if ext["args"] else None
                if arg is not None and arg["k"] == "Path" and arg["path"] in lenv:
                    arg = strip(lenv[arg["path"]])
                if arg is None:
                    continue
                chain = []
                r = arg
                while r["k"] == "MethodCall":
                    chain.append(r)
                    r = strip(r["recv"])
                base = render(r).replace(" ", "")
                fm = [c for c in chain if c["method"] == "filter_map" and c["args"] and c["args"][0]["k"] == "Closure"]
                only_transparent = all(c["method"] in ("iter", "iter_mut", "into_iter", "filter_map", "map", "cloned", "copied") for c in chain)
                if len(fm) == 1 and only_transparent and base.endswith(".includes"):
                    cl = fm[0]["args"][0]
                    pn = [b_["name"] for i_ in cl["inputs"] for b_ in walk(i_) if b_["k"] == "PIdent"]
                    bb = {}
                    if len(pn) == 1 and sgrep.match(sgrep.pattern("__fs.add_include(%s).err()" % pn[0]), cl["body"], bb):
                        # later `map` stages may only unbox
                        maps = [c for c in chain if c["method"] == "map"]
                        if all(m_["args"] and m_["args"][0]["k"] == "Closure" and strip(m_["args"][0]["body"])["k"] == "Path" and strip(m_["args"][0]["body"])["path"] in [b_["name"] for i_ in m_["args"][0]["inputs"] for b_ in walk(i_) if b_["k"] == "PIdent"] for m_ in maps) and not (conditions_to(pf["body"], ext) or []):
                            oki = True
        ev = eval_parse_file(ctx, R, pf)
        if ev is not None:
            oki = ev[0]
        ctx.check(R, "parse_file/every-include-resolved-and-errors-reported", oki, (ev[1] if ev is not None else "every include of the parsed file goes through add_include and an Err is pushed to the reports"), site(LIB, pf))
        # ... whenever the file was parsed: between the successful parse and the queueing of its includes nothing leaves
        # the function (a version error of this file is a report, its includes are still read)
        ai = list(method_calls(pf["body"], "add_include"))
        pr = [c for c in walk(pf["body"]) if c["k"] == "Call" and render(c["func"]).replace(" ", "").endswith("parser_logic::parse_file")]
        if ai and pr:
            stmts_ = pf["body"]["stmts"]
            i_parse = max(i for i, st in enumerate(stmts_) if any(x is pr[0] for x in walk(st)))
            i_inc = min(i for i, st in enumerate(stmts_) if any(x is ai[0] for x in walk(st)))
            exits_ = [render(x)[:60] for st in stmts_[i_parse + 1:i_inc] for x in walk(st) if x["k"] in ("Try", "Return")]
            exits_ += [render(x)[:60] for x in walk(stmts_[i_inc]) if x["k"] in ("Return",) ] if i_inc > i_parse else []
            ctx.check(R, "parse_file/includes-queued-whenever-the-file-parsed", i_inc > i_parse and not exits_, "exits between the parse and the include loop: %s" % exits_, site(LIB, pf))
    pl = find_fn(PL, "parse_file")
    if pl is not None:
        t = render(pl["body"]).replace(" ", "")
        pvp = sgrep.params(pl)
        okm, how = sgrep.each_calls(pl["body"], "__a.includes", "set_file_id") if False else (False, "")
        okm = False
        for n, b in sgrep.find(pl["body"], "for __inc in __a.includes { __body }") + sgrep.find(pl["body"], "for __inc in __a.includes.iter_mut() { __body }"):
            okm = okm or sgrep.has(n, "__i.meta.set_file_id(__f)", None, {"__i": b["__inc"], "__f": pvp[1] if len(pvp) > 1 else "file_id"})
        okm = okm or sgrep.has(pl["body"], "__a.includes.iter_mut().for_each(|__i| __i.meta.set_file_id(__f))")
        ctx.check(R, "parser_logic::parse_file/include-meta-gets-file-id", okm, "every include's meta gets the file id before it can be resolved", site(PL, pl))


def rule_user_inputs(ctx):
    R = "C19.4"
    ctx.rule(R, "the set of user inputs is the (canonical) initial stack; a file is a user input iff its canonical path is in that set; the file library records the flag per file id")
    nw = find_fn(INC, "new", "FileStack")
    if nw is None:
        return ctx.missing(R, "FileStack::new")
    t = render(nw["body"]).replace(" ", "")
    from astlib import block_tail

    tl = block_tail(nw["body"])
    res = render(strip(tl)) if tl is not None else "result"
    top = nw["body"]["stmts"]

    def idx(pred):
        for i_, s_ in enumerate(top):
            if any(pred(n_) for n_ in walk(s_)):
                return i_
        return -1

    i_lib = idx(lambda n_: n_["k"] == "MethodCall" and n_["method"] == "add_libraries" and render(strip(n_["recv"])) == res)
    i_files = idx(lambda n_: n_["k"] == "MethodCall" and n_["method"] == "add_files" and render(strip(n_["recv"])) == res)
    lenv_n = sgrep.lets(nw["body"])
    asg = [n_ for n_ in walk(nw["body"]) if n_["k"] == "Assign" and render(n_["l"]).replace(" ", "") == "%s.user_inputs" % res]
    i_ui = idx(lambda n_: n_["k"] == "Assign" and render(n_["l"]).replace(" ", "") == "%s.user_inputs" % res)
    COPIES = ("%s.stack.iter().cloned().collect()", "%s.stack.clone().into_iter().collect()", "HashSet::from_iter(%s.stack.iter().cloned())", "HashSet::from_iter(%s.stack.clone())", "%s.stack.iter().cloned().collect::<HashSet<_>>()", "%s.stack.iter().map(Clone::clone).collect()")
    oku = len(asg) == 1 and any(sgrep.match(sgrep.pattern(c_ % res), asg[0]["r"], {}, lenv_n) for c_ in COPIES)
    # the copy is taken after the files were queued (a `let` holding the copy must not precede add_files either)
    copy_at = i_ui
    if asg and strip(asg[0]["r"])["k"] == "Path":
        nm_ = strip(asg[0]["r"])["path"]
        copy_at = idx(lambda n_: n_["k"] == "Local" and n_["pat"].get("name") == nm_)
    ctx.check(R, "FileStack::new/user-inputs-copy-of-initial-stack", bool(oku) and 0 <= i_files < copy_at <= i_ui, "add_files at statement %d, copy taken at %d, assigned at %d" % (i_files, copy_at, i_ui), site(INC, nw))
    # library files are never queued for analysis by themselves: only add_files / add_include / include_library push
    pushers = sorted({f_["name"] for _q, f_ in fns_in_file(INC) for p_ in method_calls(f_["body"], "push") if render(strip(p_["recv"])).replace(" ", "") == "self.stack"})
    allowed_q = {"add_files", "add_include", "include_library"}
    for extra_ in [x for x in pushers if x not in allowed_q]:
        # a private helper that only the allowed functions call is part of them
        callers_ = {f_["name"] for _q, f_ in fns_in_file(INC) if any(True for _ in method_calls(f_["body"], extra_)) or any(c_["k"] == "Call" and c_["func"]["k"] == "Path" and last(c_["func"]["path"]) == extra_ for c_ in walk(f_["body"]))}
        hf = [f_ for _q, f_ in fns_in_file(INC) if f_["name"] == extra_]
        # (no caller left: the default view has already read the helper into its callers, which are judged themselves)
        if hf and hf[0].get("vis") != "pub" and callers_ <= allowed_q:
            allowed_q = allowed_q | {extra_}
    def queues_inputs():
        # add_files pushes, directly or through a private helper of its own
        if "add_files" in pushers:
            return True
        af_ = [f_ for _q, f_ in fns_in_file(INC) if f_["name"] == "add_files"]
        return bool(af_) and any((m_["k"] == "MethodCall" and m_["method"] in pushers) or (m_["k"] == "Call" and m_["func"]["k"] == "Path" and last(m_["func"]["path"]) in pushers) for m_ in walk(af_[0]["body"]))

    ctx.check(R, "FileStack/who-queues-files", set(pushers) <= allowed_q and queues_inputs(), "functions pushing onto the file stack: %s (a library pushed by add_libraries would be analysed, and reported, as if the user had named it)" % pushers, INC)
    ctx.check(R, "FileStack::new/libraries-before-files", 0 <= i_lib < i_files, "add_libraries at statement %d, add_files at %d" % (i_lib, i_files), site(INC, nw))
    iu = find_fn(INC, "is_user_input", "FileStack")
    if iu is not None:
        tt = render(iu["body"]).replace(" ", "")
        pvi = sgrep.params(iu)
        from astlib import result_expr as _rx

        rx = _rx(iu)
        # the answer *is* membership in the set of user inputs (nothing is conjoined to it)
        ctx.check(R, "FileStack::is_user_input", bool(pvi) and rx is not None and bool(sgrep.match(sgrep.pattern("self.user_inputs.contains(__p)"), rx, {"__p": pvi[0]}, sgrep.lets(iu["body"]))), tt, site(INC, iu))
    pf = find_fn(LIB, "parse_file")
    if pf is not None:
        t = render(pf["body"]).replace(" ", "")
        pvf = sgrep.params(pf)
        envf = sgrep.lets(pf["body"])
        okc = len(pvf) >= 3 and sgrep.has(pf["body"], "__fl.add_file(__name, __content, __fs.is_user_input(__fp))", envf, {"__fp": pvf[0], "__fs": pvf[1], "__fl": pvf[2]})
        ctx.check(R, "parse_file/classified-by-the-path-taken-from-the-stack", okc, "add_file(.., .., file_stack.is_user_input(<the path taken from the stack>))", site(LIB, pf))
    af = find_fn(FD, "add_file", "FileLibrary")
    if af is not None:
        t = render(af["body"]).replace(" ", "")
        pva = sgrep.params(af)
        ins = [i for i in method_calls(af["body"], "insert") if "user_inputs" in render(i["recv"])]
        okr = False
        if len(ins) == 1 and len(pva) == 3:
            cs = [fact_str(c).replace(" ", "") for c in (conditions_to(af["body"], ins[0]) or [])]
            okr = cs == [pva[2]]
        ctx.check(R, "FileLibrary::add_file/records-flag", okr, t[:160], site(FD, af))
    fi = find_fn(FD, "is_user_input", "FileLibrary")
    if fi is not None:
        t = render(fi["body"]).replace(" ", "")
        pvi2 = sgrep.params(fi)
        from astlib import result_expr as _rx2

        rx2 = _rx2(fi)
        ctx.check(R, "FileLibrary::is_user_input", bool(pvi2) and rx2 is not None and bool(sgrep.match(sgrep.pattern("self.user_inputs.contains(__p)"), rx2, {"__p": pvi2[0]}, sgrep.lets(fi["body"]))), t, site(FD, fi))
    pfs = find_fn(LIB, "parse_files")
    if pfs is not None:
        t = render(pfs["body"]).replace(" ", "")
        ctx.check(R, "parse_files/drains-the-stack", sgrep.has(pfs["body"], "while let Some(__p) = FileStack::take_next(__fs) { __body }") or sgrep.has(pfs["body"], "while let Some(__p) = __fs.take_next() { __body }"), "", site(LIB, pfs))
        # errors do not stop the loop
        wl = [w for w in walk(pfs["body"]) if w["k"] == "While"]
        brk = [b for b in walk(wl[0]["body"]) if b["k"] in ("Break", "Return")] if wl else ["?"]
        ctx.check(R, "parse_files/a-failing-file-does-not-stop-the-others", not brk, "%d early exits from the file loop" % len(brk), site(LIB, pfs))


def rule_only_named(ctx):
    R = "C19.5"
    ctx.rule(R, "only definitions of named files are analysed, the per-file filter is installed, and a report without a primary label passes it only if it is an error")
    import c03
    mainfn = c03.canon_main(ctx, R)
    if mainfn is None:
        return
    for m in ("analyze_functions", "analyze_templates"):
        c = list(method_calls(mainfn["body"], m))
        ctx.check(R, "main/%s/user-input-only" % m, len(c) == 1 and render(strip(c[0]["args"][1])) == "true", render(c[0])[:80] if c else "missing", site(MAIN, mainfn))
    t = render(mainfn["body"]).replace(" ", "")
    envm = {}
    nfil = 0
    for c in calls(mainfn["body"], "filter_by_file"):
        a1 = strip(c["args"][1]) if len(c["args"]) > 1 else None
        src = None
        if a1 is not None and a1["k"] == "Path":
            for l in walk(mainfn["body"]):
                if l["k"] == "Local" and l["pat"]["k"] == "PIdent" and l["pat"]["name"] == a1["path"] and l["init"] is not None:
                    src = render(strip(l["init"])).replace(" ", "")
        if src == "runner.file_library().user_inputs()":
            nfil += 1
    ctx.check(R, "main/file-filter-installed", nfil >= 2, "filter_by_file(report, <copy of runner.file_library().user_inputs()>) installed %d time(s)" % nfil, site(MAIN, mainfn))
    tol, desc = reportflow.filter_tolerance()
    # a finding (non-error) without a guaranteed primary label must not pass the file filter, otherwise it is
    # displayed for only-included files as well
    loose = [p for p in reportflow.producers() if p["category"] != "error" and p["label"] not in ("always", "if-file-id", "if-meta")]
    for p in loose:
        cat = p["category"].capitalize()
        passes = tol == "all" or (isinstance(tol, set) and cat in tol)
        ctx.check(R, "filter_by_file/label-less-finding-does-not-pass/%s::%s" % (p["qual"], p["fn"]), not passes, "this %s has no guaranteed location and the file filter lets label-less %ss through: it is displayed for only-included files too" % (p["category"], p["category"]), site(p["file"], p["node"]))
    ctx.check(R, "filter_by_file/recognised", tol is not None, desc[:160], MAIN)
    ctx.ok(R, "filter_by_file/label-less-findings", "%d finding producer(s) without a guaranteed label; label-less categories accepted by the filter: %s" % (len(loose), "all" if tol == "all" else sorted(tol or [])), MAIN)
    for kind in ("template", "function"):
        f = find_fn(RUN, kind + "_names")
        if f is None:
            ctx.missing(R, "AnalysisRunner::%s_names" % kind)
            continue
        tt = render(f["body"]).replace(" ", "")
        pvn = sgrep.params(f)
        okn = bool(pvn) and (sgrep.has(f["body"], "if !__u || self.file_library.is_user_input(__a.get_file_id()) { Some(__n) } else { None }", None, {"__u": pvn[0]}) or sgrep.has(f["body"], "if __u && !self.file_library.is_user_input(__a.get_file_id()) { None } else { Some(__n) }", None, {"__u": pvn[0]}) or sgrep.has(f["body"], "__it.filter(|(__n, __a)| !__u || self.file_library.is_user_input(__a.get_file_id()))", None, {"__u": pvn[0]}) or sgrep.has(f["body"], "__it.filter(|(_, __a)| !__u || self.file_library.is_user_input(__a.get_file_id()))", None, {"__u": pvn[0]}))
        ctx.check(R, "AnalysisRunner::%s_names/user-input-filter" % kind, okn, tt[:200], site(RUN, f))


USER_INPUT_READERS = {
    # (file suffix, function) -> why this function may ask whether a file was named by the user
    ("parser/src/lib.rs", "parse_file"): "records the flag in the file library when the file is read",
    ("program_analysis/src/analysis_runner.rs", "template_names"): "selects the definitions the top-level loop analyses",
    ("program_analysis/src/analysis_runner.rs", "function_names"): "selects the definitions the top-level loop analyses",
    ("cli/src/main.rs", "main"): "installs the display filter",
    ("cli/src/main.rs", "filter_by_file"): "the display filter",
    ("program_structure/src/program_library/file_definition.rs", "add_file"): "stores the flag",
    ("program_structure/src/program_library/file_definition.rs", "is_user_input"): "the accessor",
    ("program_structure/src/program_library/file_definition.rs", "user_inputs"): "the accessor",
    ("parser/src/include_logic.rs", "is_user_input"): "the accessor",
    ("parser/src/include_logic.rs", "new"): "the files named on the command line",
}


def eval_parse_file(ctx, R, pf):
    """parse_file by evaluation: the file has three includes, each of which add_include accepts or refuses (8 worlds),
    and the version check passes with one warning or fails; every include must be handed to add_include exactly once,
    and the returned collection must hold exactly the refusals and the outcome of the version check.
    Returns (ok, detail), or None when the function is outside the evaluator's subset."""
    import itertools

    import passeval
    from finfun import S, Unsupported
    from passeval import O, Panic, Sink

    try:
        w = passeval.PassWorld([], LIB)
    except Exception:  # noqa: BLE001
        return None
    names = [i["pat"].get("name") if i["pat"]["k"] == "PIdent" else None for i in pf["sig"]["inputs"]]
    tys = [i["ty"].replace(" ", "") for i in pf["sig"]["inputs"]]
    if tys != ["&PathBuf", "&mutFileStack", "&mutFileLibrary", "&Version"]:
        return None
    n = 0
    for outcome in itertools.product((True, False), repeat=3):
        for version_ok in (True, False):
            incs = [O("include#%d" % i) for i in range(3)]
            errs = [O("include-error#%d" % i) for i in range(3)]
            asked = []

            def add_include(inc, asked=asked, incs=incs, errs=errs, outcome=outcome):
                for i, x in enumerate(incs):
                    if x is inc:
                        asked.append(i)
                        return S("Ok", ("T", ())) if outcome[i] else S("Err", errs[i])
                raise Unsupported("add_include called with %r" % (inc,))

            program = ("O", "program", (("includes", ("L", tuple(incs))), ("compiler_version", O("version-of-file"))))
            warn, verr = O("version-warning"), O("version-error")
            w.stubs["open_file"] = lambda args: S("Ok", ("T", (O("path"), O("source"))))
            w.stubs["check_file_compiler_version"] = (lambda args: S("Ok", ("L", (warn,)))) if version_ok else (lambda args: S("Err", verr))
            w.opaque = (("parser_logic::", lambda name, args: S("Ok", program) if name == "parse_file" else ("K", name, tuple(args))),)
            stack = ("O", "file_stack", (("add_include", ("PY", add_include)), ("is_user_input", ("PY", lambda p_: True))))
            lib = ("O", "file_library", (("add_file", ("PY", lambda *a: O("file_id"))),))
            w.lenient_opaque = True
            try:
                res = w.call_fn(pf, [O("file_path"), stack, lib, O("compiler_version")])
            except Unsupported as u:
                ctx.note("parse_file is outside the evaluator's subset (%s): shape obligations apply" % u)
                return None
            except Panic as p_:
                return (False, "includes accepted %s: panics (%s)" % (list(outcome), p_))
            n += 1
            tag = "includes accepted %s, version check %s" % (list(outcome), "passes" if version_ok else "fails")
            if sorted(asked) != [0, 1, 2]:
                return (False, "%s: add_include is asked for includes %s, expected each of the three once" % (tag, asked))
            if not (isinstance(res, tuple) and res[0] == "S" and res[1] == "Ok" and isinstance(res[2][0], tuple) and res[2][0][0] == "T" and len(res[2][0][1]) == 3):
                return (False, "%s: returns %r" % (tag, res))
            coll = res[2][0][1][2]
            items = list(coll.items) if isinstance(coll, Sink) else (list(coll[1]) if isinstance(coll, tuple) and coll[0] == "L" else None)
            if items is None:
                raise_ = "%s: the third component is %r" % (tag, coll)
                return (False, raise_)
            want = [errs[i] for i in range(3) if not outcome[i]] + [warn if version_ok else verr]
            missing = [x[1] for x in want if not any(y is x for y in items)]
            extra = [y for y in items if not any(y is x for x in want)]
            if missing or extra or len(items) != len(want):
                return (False, "%s: the returned reports lack %s and hold %d other item(s)" % (tag, missing, len(extra)))
    return (True, "%d worlds: each include handed to add_include once; the returned reports are exactly the refusals and the version check's outcome" % n)


def rule_who_asks(ctx, R="C19.6"):
    ctx.rule(R, "being `only included` restricts two things - which definitions the top-level loops analyse and which findings are displayed - and nothing else: no other function asks whether a file was named by the user (included definitions are desugared, lifted on demand and inform the analysis like any other)")
    import facts as _facts

    n = 0
    for f in sorted(_facts.ast()):
        if f.startswith("program_structure_tests"):
            continue
        for q, fn in fns_in_file(f):
            if not fn.get("body") or "tests" in q:
                continue
            n += 1
            hits = [m for m in walk(fn["body"]) if (m["k"] == "MethodCall" and m["method"] in ("is_user_input", "user_inputs")) or (m["k"] == "Field" and m.get("member") == "user_inputs")]
            if not hits:
                continue
            why = [w for (ff, nm), w in USER_INPUT_READERS.items() if f.endswith(ff) and fn["name"] == nm]
            ctx.check(R, "%s::%s/may-ask-for-user-input" % (f.rsplit("/", 1)[-1][:-3], fn["name"]), bool(why), why[0] if why else "`%s`: the treatment of a definition depends on whether its file was named on the command line" % render(hits[0])[:60], site(f, hits[0]))
    ctx.floor(R, "functions scanned for user-input tests", n, 400)


def rule_library_list(ctx, R="C19.7"):
    ctx.rule(R, "the places an unresolved include is looked up in are the -L options and nothing else: the option's list reaches the file stack unchanged (main -> runner -> parse_files -> FileStack::new -> add_libraries), and nothing else adds to it")
    import c03

    IDENT = ("clone", "to_vec", "as_slice", "to_owned", "iter", "cloned", "collect", "as_ref", "into_iter", "copied", "borrow", "deref")

    def same_as(e, name, le):
        """does `e` denote the value `name` (through lets, references and copying adaptors)?"""
        for _ in range(6):
            e = strip(e)
            if e["k"] in ("Ref", "Paren"):
                e = e["e"]
                continue
            if e["k"] == "MethodCall" and e["method"] in IDENT and not e["args"]:
                e = e["recv"]
                continue
            if e["k"] == "Index" and render(strip(e.get("index", {"k": "Lit"}))).replace(" ", "") == "..":
                e = e["base"]
                continue
            if e["k"] == "Path" and e["path"] in le and e["path"] != name:
                e = le[e["path"]]
                continue
            break
        return render(strip(e)).replace(" ", "") == name

    mainfn = c03.canon_main(ctx, R)
    if mainfn is not None:
        wl = list(method_calls(mainfn["body"], "with_libraries"))
        okm = False
        det = "%d calls of with_libraries" % len(wl)
        if len(wl) == 1 and len(wl[0]["args"]) == 1:
            le = let_env(mainfn["body"], wl[0])
            okm = same_as(wl[0]["args"][0], "options.libraries", le)
            det = "with_libraries(%s)" % render(wl[0]["args"][0])[:80]
            # a list built from the option and then extended is not the option
            grown = [render(m_)[:60] for m_ in walk(mainfn["body"]) if m_["k"] == "MethodCall" and m_["method"] in ("push", "extend", "extend_from_slice", "insert", "append") and any(render(strip(m_["recv"])) == k_ and "libraries" in render(v_) for k_, v_ in le.items())]
            if grown:
                okm, det = False, "the list handed to the runner is extended first: %s" % grown
        ctx.check(R, "main/library-option-reaches-the-runner-unchanged", okm, det, site(MAIN, wl[0]) if wl else None)
    RUNF = "program_analysis/src/analysis_runner.rs"
    WRITES = ("push", "extend", "extend_from_slice", "insert", "append")

    def callers_of(file_, name):
        return sorted({f_["name"] for q_, f_ in fns_in_file(file_) if f_.get("body") and "tests" not in q_ and f_["name"] != name and any((m_["k"] == "MethodCall" and m_["method"] == name) or (m_["k"] == "Call" and m_["func"]["k"] == "Path" and last(m_["func"]["path"]) == name) for m_ in walk(f_["body"]))})

    def writes_to(file_, field):
        """(function, argument-derives-from-a-parameter) for every write to self.<field>, directly or through `let a = &mut self.<field>`"""
        out = []
        for q_, f_ in fns_in_file(file_):
            if not f_.get("body") or "tests" in q_:
                continue
            pv_ = sgrep.params(f_)
            for m_ in walk(f_["body"]):
                tgt = None
                if m_["k"] == "MethodCall" and m_["method"] in WRITES:
                    r_ = strip(m_["recv"])
                    le_ = let_env(f_["body"], m_)
                    for _ in range(3):
                        while r_["k"] in ("Ref", "Paren") or (r_["k"] == "Unary" and r_.get("op") == "*"):
                            r_ = strip(r_["e"])
                        if r_["k"] == "Path" and r_["path"] in le_:
                            r_ = strip(le_[r_["path"]])
                    tgt, val = render(r_).replace(" ", ""), m_["args"][-1] if m_["args"] else None
                elif m_["k"] == "Assign":
                    tgt, val = render(m_["l"]).replace(" ", ""), m_["r"]
                if tgt == "self." + field and val is not None:
                    le_ = let_env(f_["body"], m_)
                    # names that hold (parts of) a parameter: the parameters, loop variables over them, lets computed from them
                    derived = set(pv_)
                    for _ in range(3):
                        for n_ in walk(f_["body"]):
                            if n_["k"] == "For" and any(x_["k"] == "Path" and x_["path"] in derived for x_ in walk(n_["iter"])):
                                derived |= {b_["name"] for b_ in walk(n_["pat"]) if b_["k"] == "PIdent"}
                            if n_["k"] == "Local" and n_.get("init") is not None and any(x_["k"] == "Path" and x_["path"] in derived for x_ in walk(n_["init"])):
                                derived |= {b_["name"] for b_ in walk(n_["pat"]) if b_["k"] == "PIdent"}
                            if n_["k"] == "Closure" and False:
                                pass
                    names_ = {x_["path"] for x_ in walk(val) if x_["k"] == "Path" and "::" not in x_["path"]}
                    from_param = bool(names_) and names_ <= derived | {"self"} and not any(x_["k"] == "Field" and render(x_).startswith("self.") for x_ in walk(val))
                    out.append((f_["name"], bool(from_param)))
        return out

    writers = writes_to(RUNF, "libraries")
    okw = bool(writers)
    for fname_, from_param in writers:
        okw = okw and from_param and (fname_ == "with_libraries" or callers_of(RUNF, fname_) == ["with_libraries"])
    ctx.check(R, "AnalysisRunner/libraries-written-from-the-option-only", okw, "writers of self.libraries (function, from its parameter): %s" % writers, RUNF)
    wf = find_fn(RUNF, "with_files")
    if wf is not None:
        pc = [c for c in walk(wf["body"]) if c["k"] == "Call" and render(c["func"]).replace(" ", "").endswith("parse_files")]
        okp = len(pc) == 1 and len(pc[0]["args"]) >= 2 and same_as(pc[0]["args"][1], "self.libraries", let_env(wf["body"], pc[0]))
        ctx.check(R, "AnalysisRunner::with_files/hands-its-libraries-to-the-parser", okp, "parse_files(.., %s, ..)" % (render(pc[0]["args"][1])[:60] if pc and len(pc[0]["args"]) > 1 else "?"), site(RUNF, wf))
    pf = find_fn(LIB, "parse_files")
    if pf is None:
        ctx.missing(R, "parser::parse_files")
    else:
        pv_ = sgrep.params(pf)
        fsn = [c for c in walk(pf["body"]) if c["k"] == "Call" and render(c["func"]).replace(" ", "").endswith("FileStack::new")]
        okf = len(fsn) == 1 and len(pv_) >= 2 and len(fsn[0]["args"]) >= 2 and same_as(fsn[0]["args"][1], pv_[1], let_env(pf["body"], fsn[0]))
        ctx.check(R, "parse_files/hands-its-libraries-to-the-file-stack", okf, "FileStack::new(.., %s, ..)" % (render(fsn[0]["args"][1])[:60] if fsn and len(fsn[0]["args"]) > 1 else "?"), site(LIB, pf))
    pushers = sorted({fname_ for fname_, _fp in writes_to(INC, "libraries")})
    okp = bool(pushers) and all(fname_ == "add_libraries" or callers_of(INC, fname_) == ["add_libraries"] for fname_ in pushers)
    ctx.check(R, "FileStack/libraries-filled-by-add_libraries-only", okp, "functions that add to self.libraries: %s (add_libraries, or a helper only it calls)" % pushers, INC)


def run(ctx):
    rule_library_list(ctx)
    rule_canonical(ctx)
    rule_visited(ctx)
    rule_resolution(ctx)
    rule_user_inputs(ctx)
    rule_only_named(ctx)
    rule_who_asks(ctx)
