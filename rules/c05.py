"""C05 Comments are transparent."""
from astlib import find_fn, site
import transducer
import c04_units

TITLE = "Comments are transparent"
LEVEL_TEXT = (
    "the comment stripper is extracted from the source as a finite transducer and compared with the reference comment lexer"
    " for all input strings (product search, complete); the parser sees only stripped text; the unstripped text goes to the stripper and the file table only; the unterminated-comment report is an error."
)
NOT_DECIDED = "end-to-end equality of findings when comments are blanked (follows from the stripper equivalence, byte-length preservation and the single-reader rule, not decided separately)."
ENGINE = "mirfacts+astq"
TRUSTED = ["rustc MIR (engines/mirfacts) for C05.4", "syn parser", "transducer extractor (rules/transducer.py) over the statement forms it supports (fails closed otherwise)", "reference comment lexer written from the property statement (DESIGN App. C)"]
TECHNIQUE = "static analysis: state-machine extraction from the syntax tree + product-automaton equivalence with a reference lexer"

PL = "parser/src/parser_logic.rs"


def stripper(ctx, R):
    fn = find_fn(PL, "preprocess")
    if fn is None:
        ctx.missing(R, "parser_logic::preprocess")
        return None, None
    try:
        m = transducer.Machine(fn)
        stats, diffs = transducer.compare(m)
    except transducer.Unsupported as u:
        ctx.missing(R, "preprocess/state-machine", "the stripper uses a construct the extractor cannot interpret (fail closed): %s" % u)
        return fn, None
    return fn, (m, stats, diffs)


def run(ctx):
    R = "C05.1"
    ctx.rule(R, "the comment stripper, read as a finite transducer, is equivalent to the reference comment lexer on every input string: same verdict (Ok / unterminated-comment error) and byte-identical output (code copied, every comment byte a blank, newline ending a line comment kept)")
    fn, res = stripper(ctx, R)
    if res is not None:
        m, stats, diffs = res
        ctx.table("product search", stats)
        ctx.check(R, "preprocess/finite-state", stats["stripper_states"] >= 3, "stripper configurations reached: %d" % stats["stripper_states"], site(PL, fn))
        byclass = {}
        for d in diffs:
            byclass.setdefault(d["class"], d)  # search is breadth-first: the first witness of a class is a shortest one
        for cls, d in sorted(byclass.items()):
            n = sum(1 for x in diffs if x["class"] == cls)
            ctx.bad(R, "preprocess/differs-from-reference/" + cls, "shortest distinguishing input %r (reference state %s): %s  [%d product configurations differ in this class]" % (d["witness"][:80], d["ref_state"], d["detail"][:300], n), site(PL, fn))
        if not diffs:
            ctx.ok(R, "preprocess/equivalent-to-reference", "no distinguishing string exists: %d product configurations, %d macro transitions explored over alphabet %s" % (stats["product_configurations"], stats["macro_transitions"], stats["alphabet"]), site(PL, fn))
    c04_units.rule_single_reader(ctx, "C05.2")
    c04_units.rule_raw_text_readers(ctx, "C05.2")
    import c04
    import dropflow

    ctx.include("C05.3", "errors raised for a file are located in the text the parser saw: explicit ranges of parse errors are token positions of the stripped text, which has the length of the original (shared with C04.7)", c04.rule_explicit_ranges)
    ctx.include("C05.4", "the `unterminated comment` error of a file reaches the report collection on every path (shared with C02.10)", lambda c: dropflow.rule_consumed(c, "C02.10"), only=["parse_file", "parse_files", "preprocess", "floor"])
    import c02

    ctx.include("C05.5", "an unterminated comment is reported as an error (so that no level filter hides that the file was not analysed; shared with C02.7)", c02.rule_drop_is_error, only=["UnclosedCommentError", "floor"])
