"""C06 Constant propagation is sound."""
import re

from astlib import calls, find_fn, fns_in_file, last, method_calls, pat_paths, render, site, strip, walk
from pathcond import conditions_to, fact_str, facts_str, let_env
import opdisc

TITLE = "Constant propagation"
LEVEL_TEXT = (
    "the operator table (opcode -> field operation, argument order, result kind, fallible results only on Ok) is read from the"
    " source and compared with the reference table; the ternary rule's four rows; pessimistic phi; operand discipline of every"
    " expression kind; only versioned names enter the value environment; literals are reduced; consumers report exactly known"
    " booleans."
)
NOT_DECIDED = "that the field operations compute Circom's values (C16, numerical); that SSA/CFG construction is correct (C12-C14)."
TRUSTED = ["syn parser", "reference operator table (DESIGN App. C)", "required-operand table (DESIGN App. C)"]

EI = "program_structure/src/intermediate_representation/expression_impl.rs"
SI = "program_structure/src/intermediate_representation/statement_impl.rs"
VM = "program_structure/src/intermediate_representation/value_meta.rs"
CC = "program_analysis/src/constant_conditional.rs"
IRF_ = "program_structure/src/intermediate_representation/ir.rs"

# opcode -> (field operation, fallible, boolean result)
INFIX_FE = {
    "Mul": ("mul", False, False), "Div": ("div", True, False), "Add": ("add", False, False), "Sub": ("sub", False, False),
    "Pow": ("pow", False, False), "IntDiv": ("idiv", True, False), "Mod": ("mod_op", True, False),
    "ShiftL": ("shift_l", True, False), "ShiftR": ("shift_r", True, False),
    "LesserEq": ("lesser_eq", False, True), "GreaterEq": ("greater_eq", False, True), "Lesser": ("lesser", False, True),
    "Greater": ("greater", False, True), "Eq": ("eq", False, True), "NotEq": ("not_eq", False, True),
    "BitOr": ("bit_or", False, False), "BitAnd": ("bit_and", False, False), "BitXor": ("bit_xor", False, False),
}
INFIX_BOOL = {"BoolAnd": "&&", "BoolOr": "||"}
PREFIX_FE = {"Sub": "prefix_sub", "Complement": "complement_256"}
PREFIX_BOOL = {"BoolNot": "!"}


def some_binding(p, variant):
    """Some(Variant { value: x }) -> x"""
    t = render(p).replace(" ", "")
    m = re.fullmatch(r"Some\(%s\{value(?::(\w+))?\}\)" % variant, t)
    if m:
        return m.group(1) or "value"
    return None


def analyse_value_arm(body):
    """-> dict(op=field op name | None, args=[...], ok=bool (.ok() applied), as_bool=bool, ctor='FieldElement'|'Boolean'|None, raw=..)"""
    b = strip(body)
    txt = render(b).replace(" ", "")
    res = {"raw": txt[:160], "op": None, "args": None, "okcall": False, "as_bool": False, "ctor": None}
    ops = [c for c in walk(b) if c["k"] == "Call" and c["func"]["k"] == "Path" and c["func"]["path"].startswith("modular_arithmetic::") and last(c["func"]["path"]) != "as_bool"]
    if len(ops) == 1:
        res["op"] = last(ops[0]["func"]["path"])
        res["args"] = [render(strip(a)) for a in ops[0]["args"]]
    elif len(ops) > 1:
        res["op"] = "+".join(last(o["func"]["path"]) for o in ops)
    res["okcall"] = any(m["method"] == "ok" for m in method_calls(b))
    ab = [c for c in calls(b, "as_bool")]
    if ab:
        res["as_bool"] = True
        res["as_bool_args"] = [render(strip(a)) for a in ab[0]["args"]]
    st = [n for n in walk(b) if n["k"] == "Struct" and last(n["path"]) in ("FieldElement", "Boolean")]
    if len(st) == 1:
        res["ctor"] = last(st[0]["path"])
        res["ctor_value"] = render(strip(st[0]["fields"][0]["e"])) if st[0]["fields"] else None
    if txt == "None":
        res["ctor"] = "None"
    # does the constructed value come from the operation (through lets, `.ok()`, `?`, a `map` closure parameter)?
    lenv = let_env(b) if b.get("k") == "Block" else {}
    cl = {}
    for m in walk(b):
        if m["k"] == "MethodCall" and m["method"] in ("map", "and_then") and m["args"] and m["args"][0]["k"] == "Closure":
            for pin in m["args"][0]["inputs"]:
                for x in walk(pin):
                    if x["k"] == "PIdent":
                        cl[x["name"]] = m["recv"]

    def resolve(e, depth=0):
        e = strip(e)
        while depth < 8:
            depth += 1
            if e["k"] == "Path" and e["path"] in lenv:
                e = strip(lenv[e["path"]])
            elif e["k"] == "Path" and e["path"] in cl:
                e = strip(cl[e["path"]])
            elif e["k"] == "Try":
                e = strip(e["e"])
            elif e["k"] == "MethodCall" and e["method"] in ("ok", "unwrap") and not e["args"]:
                e = strip(e["recv"])
            else:
                break
        return e

    res["value_from_op"] = False
    if len(st) == 1 and st[0]["fields"] and len(ops) == 1:
        v = resolve(st[0]["fields"][0]["e"])
        if res["as_bool"] and v["k"] == "Call" and last(render(v["func"])) == "as_bool" and v["args"]:
            res["as_bool_modulus"] = render(strip(v["args"][1])) if len(v["args"]) > 1 else None
            v = resolve(v["args"][0])
            res["value_from_op"] = v is ops[0] or render(v) == render(ops[0])
        elif not res["as_bool"]:
            res["value_from_op"] = v is ops[0] or render(v) == render(ops[0])
    return res


MAF = "circom_algebra/src/modular_arithmetic.rs"


def eval_operator_table(ctx, R, ty, fn, fe_tab, bool_tab, arity):
    """`<opcode>::propagate_values` evaluated for every operator x operand kinds (unknown / field element / boolean, for
    booleans both truth values) x outcome of the field operation (Ok / Err for the fallible ones).  The field operations
    are opaque: the result must be *the reference operation applied to (left, right, prime)*.  False when the function is
    outside the evaluator's subset."""
    import itertools

    import passeval
    from finfun import E, NONE, S, Unsupported
    from passeval import O, V

    try:
        w = passeval.PassWorld([IRF_, VM, EI], EI)
    except Exception:
        return False
    ops = w.enums.get(ty)
    if not ops:
        return False
    fallible = {f["name"] for q, f in fns_in_file(MAF) if (f["sig"].get("output") or "").replace(" ", "").startswith("Result<")}
    P = O("prime")
    envv = O("value_environment", prime=P)
    a_, b_ = O("left"), O("right")
    roles = []
    for i in fn["sig"]["inputs"]:
        if i.get("self"):
            roles.append("self")
            continue
        t_ = i["ty"].replace(" ", "")
        if t_ in ("Option<&ValueReduction>", "Option<ValueReduction>", "&Option<ValueReduction>"):
            roles.append("operand")
        elif t_ in ("&ValueEnvironment",):
            roles.append("env")
        elif t_ in ("&BigInt",):
            roles.append("prime")
        else:
            return False
    if roles.count("operand") != arity or roles[0] != "self":
        return False
    kinds = ["none", "field", "true", "false"]
    n = 0
    bad = {}
    for op in ops:
        for ks in itertools.product(kinds, repeat=arity):
            for fail in (False, True):
                calls_made = []

                def field_fn(name, args, fail=fail, calls_made=calls_made):
                    calls_made.append((name, args))
                    r = ("K", name, tuple(args))
                    if name in fallible:
                        return S("Err", O("arithmetic-error")) if fail else S("Ok", r)
                    return r

                w.opaque = (("modular_arithmetic::", field_fn),)
                vals = []
                opaque_vals = [a_, b_]
                for j, kd in enumerate(ks):
                    if kd == "none":
                        vals.append(NONE)
                    elif kd == "field":
                        vals.append(S("Some", V("ValueReduction", "FieldElement", value=opaque_vals[j])))
                    else:
                        vals.append(S("Some", V("ValueReduction", "Boolean", value=(kd == "true"))))
                argv, vi = [], 0
                for r_ in roles:
                    if r_ == "self":
                        argv.append(E(ty, op))
                    elif r_ == "operand":
                        argv.append(vals[vi])
                        vi += 1
                    elif r_ == "env":
                        argv.append(envv)
                    else:
                        argv.append(P)
                try:
                    res = w.call_fn(fn, argv)
                except Unsupported as u:
                    ctx.note("%s::propagate_values is outside the evaluator's subset (%s): shape obligations apply" % (ty, u))
                    return False
                except passeval.Panic as p_:
                    bad.setdefault("%s/%s/no-panic" % (ty, op), str(p_))
                    continue
                n += 1
                # expected
                operands = [opaque_vals[j] for j in range(arity)]
                if all(kd == "field" for kd in ks) and op in fe_tab:
                    fname = fe_tab[op] if arity == 1 else fe_tab[op][0]
                    is_bool = False if arity == 1 else fe_tab[op][2]
                    raw = ("K", fname, tuple(operands + [P]))
                    if fname in fallible and fail:
                        want = NONE
                    elif is_bool:
                        want = S("Some", V("ValueReduction", "Boolean", value=("K", "as_bool", (raw, P))))
                    else:
                        want = S("Some", V("ValueReduction", "FieldElement", value=raw))
                elif all(kd in ("true", "false") for kd in ks) and op in bool_tab:
                    bs = [kd == "true" for kd in ks]
                    v_ = (not bs[0]) if arity == 1 else ((bs[0] and bs[1]) if bool_tab[op] == "&&" else (bs[0] or bs[1]))
                    want = S("Some", V("ValueReduction", "Boolean", value=v_))
                else:
                    want = NONE
                if res != want:
                    bad.setdefault("%s/%s" % ("infix" if arity == 2 else "prefix", op), "operands %s%s: evaluates to %s, reference %s" % (list(ks), " (operation fails)" if fail else "", _show(res), _show(want)))
    ctx.floor(R, "%s evaluation worlds" % ty, n, 20 if arity == 1 else 500)
    for op in ops:
        key = "%s/%s" % ("infix" if arity == 2 else "prefix", op)
        kp = "%s/%s/no-panic" % (ty, op)
        ctx.check(R, key + "/table", key not in bad and kp not in bad, bad.get(key) or bad.get(kp) or "for every combination of operand kinds the value is the reference operation on (left, right, prime), a boolean through as_bool for comparisons, and nothing when the operation fails or the kinds do not fit", site(EI, fn))
    return True


def _show(v):
    if isinstance(v, tuple) and v and v[0] == "S" and v[1] == "Some":
        return "Some(%s)" % _show(v[2][0])
    if isinstance(v, tuple) and v and v[0] == "V":
        return "%s{%s}" % (v[2], ", ".join("%s: %s" % (k, _show(x)) for k, x in v[3].items()))
    if isinstance(v, tuple) and v and v[0] == "K":
        return "%s(%s)" % (v[1], ", ".join(_show(x) for x in v[2]))
    if isinstance(v, tuple) and v and v[0] == "O":
        return v[1]
    if isinstance(v, tuple) and v and v[0] == "E":
        return v[2]
    return str(v)


def rule_operator_table(ctx):
    R = "C06.1"
    ctx.rule(R, "every operator is evaluated by its own field operation on (left, right, prime) in that order; comparison results become booleans through as_bool; fallible operations yield a value only on Ok; field elements and booleans are never mixed")
    for ty, fe_tab, bool_tab, arity in (("ExpressionInfixOpcode", INFIX_FE, INFIX_BOOL, 2), ("ExpressionPrefixOpcode", PREFIX_FE, PREFIX_BOOL, 1)):
        fn = find_fn(EI, "propagate_values", ty)
        if fn is None:
            ctx.missing(R, ty + "::propagate_values")
            continue
        if eval_operator_table(ctx, R, ty, fn, fe_tab, bool_tab, arity):
            continue
        env = let_env(fn["body"])
        pname = None
        for k, v in env.items():
            if render(strip(v)).replace(" ", "") == "env.prime()":
                pname = k
        ctx.check(R, ty + "/prime-from-environment", pname is not None, "the modulus must be env.prime()", site(EI, fn))
        outer = None
        for m in walk(fn["body"]):
            if m["k"] == "Match":
                outer = m
                break
        if outer is None:
            ctx.missing(R, ty + "/outer-match")
            continue
        seen_fe, seen_bool = set(), set()
        for arm in outer["arms"]:
            pat = arm["pat"]
            elems = pat["elems"] if pat["k"] == "PTuple" else [pat]
            fe = [some_binding(x, "FieldElement") for x in elems]
            bo = [some_binding(x, "Boolean") for x in elems]
            inner = [m for m in walk(arm["body"]) if m["k"] == "Match" and render(strip(m["scrut"])) == "self"]
            if all(fe) and len(fe) == arity:
                kind, binds, tab = "field", fe, fe_tab
            elif all(bo) and len(bo) == arity:
                kind, binds, tab = "bool", bo, bool_tab
            else:
                ok = render(strip(arm["body"])) == "None"
                ctx.check(R, "%s/arm[%s]/no-value" % (ty, render(pat).replace(" ", "")[:40]), ok, "mixed or unknown operand kinds must give no value: %s" % render(arm["body"])[:80], site(EI, arm))
                continue
            if len(inner) != 1:
                ctx.missing(R, "%s/%s/match-self" % (ty, kind))
                continue
            for a in inner[0]["arms"]:
                for op in [last(p) for p in pat_paths(a["pat"])]:
                    key = "%s/%s/%s" % ("infix" if arity == 2 else "prefix", kind, op)
                    r = analyse_value_arm(a["body"])
                    if op == "_":
                        ctx.check(R, "%s/%s/other-operators-no-value" % ("infix" if arity == 2 else "prefix", kind), r["ctor"] == "None", r["raw"], site(EI, a))
                        continue
                    if kind == "field":
                        seen_fe.add(op)
                        if op not in tab:
                            ctx.bad(R, key + "/not-in-reference-table", "operator %s evaluated on field elements: %s" % (op, r["raw"]), site(EI, a))
                            continue
                        fname = tab[op] if arity == 1 else tab[op][0]
                        fallible = False if arity == 1 else tab[op][1]
                        boolean = False if arity == 1 else tab[op][2]
                        ctx.check(R, key + "/operation", r["op"] == fname, "uses %s, reference %s" % (r["op"], fname), site(EI, a))
                        ctx.check(R, key + "/argument-order", r["args"] in (binds + [pname], binds + ["env.prime()"]), "arguments %s, expected %s" % (r["args"], binds + [pname]), site(EI, a))
                        ctx.check(R, key + "/value-only-on-Ok", r["okcall"] == fallible, "fallible=%s, `.ok()` applied=%s" % (fallible, r["okcall"]), site(EI, a))
                        if boolean:
                            ctx.check(R, key + "/boolean-result", r["ctor"] == "Boolean" and r["as_bool"] and r.get("value_from_op") and r.get("as_bool_modulus") in (pname, "env.prime()") and "!" not in r["raw"].split("as_bool")[0][-2:], "comparison must yield Boolean { as_bool(result, p) }: %s" % r["raw"], site(EI, a))
                        else:
                            ctx.check(R, key + "/field-result", r["ctor"] == "FieldElement" and not r["as_bool"] and r.get("value_from_op"), r["raw"], site(EI, a))
                    else:
                        seen_bool.add(op)
                        if op not in tab:
                            ctx.bad(R, key + "/not-in-reference-table", "operator %s evaluated on booleans: %s" % (op, r["raw"]), site(EI, a))
                            continue
                        want = ("(%s%s%s)" % (binds[0], tab[op], binds[1])) if arity == 2 else ("%s%s" % (tab[op], binds[0]))
                        got = (r.get("ctor_value") or "").replace("*", "").replace(" ", "")
                        ctx.check(R, key + "/operation", r["ctor"] == "Boolean" and got == want, "computes %s, reference %s" % (got, want), site(EI, a))
        for op in fe_tab:
            ctx.check(R, "%s/field/%s/covered" % ("infix" if arity == 2 else "prefix", op), op in seen_fe, "no arm for operator " + op)
        for op in bool_tab:
            ctx.check(R, "%s/bool/%s/covered" % ("infix" if arity == 2 else "prefix", op), op in seen_bool, "no arm for operator " + op)


def eval_value_rules(ctx, R):
    """Expression::propagate_values evaluated on one instance of every expression kind whose children answer with
    preset values (known or unknown): what is stored as the node's value must be the reference rule - the operator
    helper applied to both operand facts, the branch selected by a *known* condition, the environment's value of a
    variable, the common value of all phi arguments - and nothing for every other kind or when a needed fact is unknown."""
    import itertools

    import passeval
    from finfun import E, NONE, S, Unsupported
    from passeval import O, V

    try:
        w = passeval.PassWorld([IRF_, VM, EI], EI)
    except Exception:
        return False
    w.lenient_opaque = True
    key_m = ("Expression", "propagate_values")
    if key_m not in w.methods:
        return False
    fn = w.methods[key_m][0]

    def FEv(tag, zero=False):
        return V("ValueReduction", "FieldElement", value=("O", tag, (("is_zero", zero),)))

    def BOv(b):
        return V("ValueReduction", "Boolean", value=b)

    def child(val):
        return ("O", "child", (("propagate_values", ("PY", lambda env_: False)), ("value", ("PY", lambda: val)), ("is_constant", val != NONE)))

    def some(v):
        return S("Some", v)

    bad = {}
    n = 0

    def run(vname, fields, envtab, want, label):
        nonlocal n
        stored = []
        vk = ("O", "value_knowledge", (("set_reduces_to", ("PY", lambda v_: (stored.append(v_), True)[1])),))
        meta = ("O", "meta", (("value_knowledge_mut", vk), ("value_knowledge", vk)))
        node = V("Expression", vname, meta=meta, **fields)
        envv = ("O", "value_environment", (("prime", O("prime")), ("get_variable", ("PY", lambda nm: envtab.get(nm[1], NONE)))))
        try:
            w.call_fn(fn, [node, envv])
        except passeval.Panic as p_:
            bad.setdefault("Expression::%s/value-rule" % vname, "%s: panics (%s)" % (label, p_))
            return
        n += 1
        got = stored[-1] if stored else None
        if (got is None) != (want is None) or (want is not None and got != want) or len(stored) > 1:
            bad.setdefault("Expression::%s/value-rule" % vname, "%s: stores %s, reference %s" % (label, _show(got) if got is not None else "nothing", _show(want) if want is not None else "nothing"))

    try:
        A, B = FEv("a"), FEv("b")
        RES = FEv("result")
        for l, r in itertools.product([NONE, some(A)], [NONE, some(B)]):
            seen_args = []
            opv = ("O", "infix_op", (("propagate_values", ("PY", lambda x, y, e_, seen_args=seen_args: (seen_args.append((x, y)), some(RES) if x != NONE and y != NONE else NONE)[1])),))
            run("InfixOp", {"lhe": child(l), "infix_op": opv, "rhe": child(r)}, {}, RES if (l != NONE and r != NONE) else None, "operands %s / %s" % ("known" if l != NONE else "unknown", "known" if r != NONE else "unknown"))
            if seen_args and seen_args[-1] != (l, r):
                bad.setdefault("Expression::InfixOp/value-rule", "the operator helper is given %s, not (left fact, right fact)" % (seen_args[-1],))
        for r in (NONE, some(A)):
            opv = ("O", "prefix_op", (("propagate_values", ("PY", lambda x, e_: some(RES) if x != NONE else NONE)),))
            run("PrefixOp", {"prefix_op": opv, "rhe": child(r)}, {}, RES if r != NONE else None, "operand %s" % ("known" if r != NONE else "unknown"))
        VT, VF = FEv("value-if-true"), FEv("value-if-false")
        conds = [("unknown", NONE, None), ("true", some(BOv(True)), True), ("false", some(BOv(False)), False), ("non-zero", some(FEv("five", False)), True), ("zero", some(FEv("zero", True)), False)]
        for (cl, cv, truth), t, f in itertools.product(conds, [NONE, some(VT)], [NONE, some(VF)]):
            want = None
            if truth is True and t != NONE:
                want = VT
            if truth is False and f != NONE:
                want = VF
            run("SwitchOp", {"cond": child(cv), "if_true": child(t), "if_false": child(f)}, {}, want, "condition %s, first branch %s, second branch %s" % (cl, "known" if t != NONE else "unknown", "known" if f != NONE else "unknown"))
        VE = FEv("value-in-environment")
        for known in (False, True):
            run("Variable", {"name": O("x")}, {"x": some(VE)} if known else {}, VE if known else None, "variable %s in the environment" % ("known" if known else "unknown"))
        V1, V2 = FEv("one"), FEv("two")
        for tab, want, label in (({"p": some(V1), "q": some(V1)}, V1, "both arguments equal"), ({"p": some(V1), "q": some(V2)}, None, "arguments differ"), ({"p": some(V1)}, None, "second argument unknown"), ({"q": some(V1)}, None, "first argument unknown"), ({}, None, "both unknown")):
            run("Phi", {"args": ("L", (O("p"), O("q")))}, tab, want, label)
        for vname, fields in (("Call", {"name": "f", "args": ("L", (child(some(A)), child(some(B))))}), ("InlineArray", {"values": ("L", (child(some(A)),))}), ("Access", {"var": O("x"), "access": ("L", ())}), ("Update", {"var": O("x"), "access": ("L", ()), "rhe": child(some(A))})):
            run(vname, fields, {"x": some(VE)}, None, "all operands known")
    except Unsupported as u:
        ctx.note("Expression::propagate_values is outside the evaluator's subset (%s): shape obligations apply" % u)
        return False
    ctx.floor(R, "value-rule worlds evaluated", n, 35)
    for vname in ("InfixOp", "PrefixOp", "SwitchOp", "Variable", "Phi", "Call", "InlineArray", "Access", "Update"):
        k_ = "Expression::%s/value-rule" % vname
        ctx.check(R, k_, k_ not in bad, bad.get(k_, "the value stored for the node follows the reference rule in every combination of known / unknown operand facts"), site(EI, fn))
    return True


def rule_switch_phi(ctx):
    R = "C06.2"
    ctx.rule(R, "a ternary takes the value of the branch selected by a known condition (true / non-zero -> first branch, false / zero -> second) and nothing else; a phi gets a value only when every argument is known and all are equal")
    if eval_value_rules(ctx, R):
        return
    fn = find_fn(EI, "propagate_values", "ValueMeta for Expression")
    if fn is None:
        return ctx.missing(R, "Expression::propagate_values")
    ms = [m for m in walk(fn["body"]) if m["k"] == "Match" and render(strip(m["scrut"])) == "self"]
    if not ms:
        return ctx.missing(R, "match self")
    sw = [a for a in ms[0]["arms"] if "SwitchOp" in render(a["pat"])]
    if len(sw) != 1:
        return ctx.missing(R, "SwitchOp arm")
    arm = sw[0]
    fb = opdisc.field_bindings(arm["pat"])
    inner = [m for m in walk(arm["body"]) if m["k"] == "Match"]
    if len(inner) != 1:
        return ctx.missing(R, "SwitchOp/match")
    m = inner[0]
    scr = [render(strip(x)).replace(" ", "") for x in (m["scrut"]["elems"] if m["scrut"]["k"] == "Tuple" else [m["scrut"]])]
    want_scr = ["%s.value()" % fb.get("cond", "cond"), "%s.value()" % fb.get("if_true", "if_true"), "%s.value()" % fb.get("if_false", "if_false")]
    ctx.check(R, "SwitchOp/scrutinee", scr == want_scr, "match on %s, expected %s" % (scr, want_scr), site(EI, m))
    rows = set()
    for a in m["arms"]:
        ws = list(opdisc.writes_in(a["body"], "value"))
        pat = a["pat"]
        if not ws:
            continue
        if pat["k"] != "PTuple" or len(pat["elems"]) != 3:
            ctx.bad(R, "SwitchOp/row/unrecognised", render(pat)[:80], site(EI, a))
            continue
        ckind = None
        cb = some_binding(pat["elems"][0], "Boolean")
        cf = some_binding(pat["elems"][0], "FieldElement")
        cvar = cb or cf
        ckind = "bool" if cb else ("field" if cf else None)
        t1 = re.fullmatch(r"Some\((\w+)\)", render(pat["elems"][1]).replace(" ", ""))
        t2 = re.fullmatch(r"Some\((\w+)\)", render(pat["elems"][2]).replace(" ", ""))
        g = render(a["guard"]).replace(" ", "").replace("*", "") if a["guard"] else ""
        written = render(strip(ws[0]["args"][0]))
        if ckind is None or not g:
            ctx.bad(R, "SwitchOp/row/condition-not-known", "a value is taken although the condition is not a known constant: %s if %s" % (render(pat)[:80], g), site(EI, a))
            continue
        truth = None
        if ckind == "bool":
            truth = {cvar: True, "!" + cvar: False}.get(g)
        else:
            truth = {"!%s.is_zero()" % cvar: True, "%s.is_zero()" % cvar: False}.get(g)
        if truth is None:
            ctx.bad(R, "SwitchOp/row/guard", "unrecognised guard `%s` for condition %s" % (g, render(pat["elems"][0])), site(EI, a))
            continue
        src = t1.group(1) if (truth and t1) else (t2.group(1) if (not truth and t2) else None)
        rows.add((ckind, truth))
        ctx.check(R, "SwitchOp/row/%s-%s" % (ckind, "true" if truth else "false"), src is not None and written == src, "condition %s %s -> takes `%s`, must take the %s branch's value" % (ckind, truth, written, "first" if truth else "second"), site(EI, a))
    for r in (("bool", True), ("bool", False), ("field", True), ("field", False)):
        ctx.check(R, "SwitchOp/row-present/%s-%s" % (r[0], "true" if r[1] else "false"), r in rows, "rows found: %s" % sorted(rows))
    # phi
    ph = [a for a in ms[0]["arms"] if "Phi" in render(a["pat"])]
    if len(ph) != 1:
        return ctx.missing(R, "Phi arm")
    t = render(ph[0]["body"]).replace(" ", "")
    import sgrep
    from pathcond import split_cond

    envp = sgrep.lets(ph[0]["body"])
    collect = sgrep.pattern("__a.iter().map(|__n| env.get_variable(__n)).collect::<Option<HashSet<_>>>()")
    ws = [w for w in method_calls(ph[0]["body"], "set_reduces_to")]
    ok = bool(ws)
    for w in ws:
        atoms = []
        for c in conditions_to(ph[0]["body"], w) or []:
            atoms.append(c)
            if c[0] == "arm" and c[3] is not None:
                atoms += split_cond(c[3], True)
        sets = set()
        for c in atoms:
            pat, scrut = (c[1], c[2]) if c[0] == "iflet" and c[3] else ((c[2], c[1]) if c[0] == "arm" else (None, None))
            if pat is None:
                continue
            while pat["k"] == "PRef":
                pat = pat["pat"]
            if pat["k"] == "PTupleStruct" and last(pat["path"]) == "Some" and len(pat["elems"]) == 1 and pat["elems"][0]["k"] == "PIdent" and sgrep.match(collect, scrut, {}, envp):
                sets.add(pat["elems"][0]["name"])
        one = any(c[0] == "if" and c[2] and any(sgrep.match(sgrep.pattern("%s.len() == 1" % x), c[1], {}) or sgrep.match(sgrep.pattern("1 == %s.len()" % x), c[1], {}) for x in sets) for c in atoms)
        ok = ok and bool(sets) and one
    ctx.check(R, "Phi/all-known-and-equal", ok, "expected `args.iter().map(|name| env.get_variable(name)).collect::<Option<HashSet<_>>>()` and `len() == 1`: %s" % t[:200], site(EI, ph[0]))


def rule_environment(ctx):
    R = "C06.4"
    ctx.rule(R, "only single-assignment (versioned) names are published to the value environment; arrays (Update) are not; add_variable has no other caller")
    fn = find_fn(SI, "propagate_values", "Statement")
    if fn is None:
        return ctx.missing(R, "Statement::propagate_values")
    import alpha
    fn, _m = alpha.canon_fields(fn, [("meta", "Substitution", "meta"), ("var", "Substitution", "var"), ("rhe", "Substitution", "rhe")], [("env", "param", 0)])
    adds = list(method_calls(fn["body"], "add_variable"))
    ctx.floor(R, "add_variable sites", len(adds), 1)
    from pathcond import expand_value_cases

    for a in adds:
        conds = expand_value_cases(conditions_to(fn["body"], a) or [], fn["body"])
        cs = facts_str(conds)
        var = render(strip(a["args"][0]))
        guard = any(c[0] == "if" and c[2] and render(c[1]).replace(" ", "") in ("%s.version().is_some()" % var, "meta.type_knowledge().is_local()") for c in conds)
        ctx.check(R, "Statement::propagate_values/add_variable/versioned-names-only", guard, "signals and components are not in SSA form: `s <-- 1` in one branch would make every read of `s` the constant 1 and two different constants trip the assert_eq! in add_variable; guards: %s" % cs, site(SI, a))
        noupd = any("Update" in c and c.startswith("!") for c in cs)
        ctx.check(R, "Statement::propagate_values/add_variable/not-for-array-updates", noupd, "guards: %s" % cs, site(SI, a))
        known = [render(c[1]).replace(" ", "") for c in conds if c[0] == "iflet" and c[3] and render(c[2]).replace(" ", "") == "rhe.value()"]
        vb_ = re.fullmatch(r"Some\((\w+)\)", known[0]).group(1) if known and re.fullmatch(r"Some\((\w+)\)", known[0]) else None
        ctx.check(R, "Statement::propagate_values/add_variable/value-of-the-rhs", vb_ is not None and render(strip(a["args"][1])) == vb_, "add_variable(%s) under %s" % (render(a["args"]), cs), site(SI, a))
    import facts
    callers = []
    for f in facts.ast():
        if f.startswith("program_structure_tests"):
            continue
        for q, fnn in fns_in_file(f):
            for s in method_calls(fnn["body"], "add_variable"):
                if render(strip(s["recv"])) in ("env",):
                    callers.append("%s::%s" % (q, fnn["name"]))
    ctx.check(R, "ValueEnvironment::add_variable/who-may-call", set(callers) <= {"Statement::propagate_values"}, "callers: %s" % sorted(set(callers)))
    # the environment starts empty
    nw = find_fn(VM, "new", "ValueEnvironment")
    if nw is not None:
        t = render(nw["body"]).replace(" ", "")
        ctx.check(R, "ValueEnvironment::new/starts-empty", "reduces_to:HashMap::new()" in t, t, site(VM, nw))
    gv = find_fn(VM, "get_variable", "ValueEnvironment")
    if gv is not None:
        t = render(gv["body"]).replace(" ", "")
        import sgrep
        pvv = sgrep.params(gv)
        ctx.check(R, "ValueEnvironment::get_variable", bool(pvv) and sgrep.has(gv["body"], "self.reduces_to.get(__n)", sgrep.lets(gv["body"]), {"__n": pvv[0]}), t, site(VM, gv))


def rule_literals(ctx):
    R = "C06.5"
    ctx.rule(R, "a number literal enters constant propagation reduced modulo the prime (field operations assume canonical operands)")
    fn = find_fn(EI, "propagate_values", "ValueMeta for Expression")
    if fn is None:
        return ctx.missing(R, "Expression::propagate_values")
    ms = [m for m in walk(fn["body"]) if m["k"] == "Match" and render(strip(m["scrut"])) == "self"]
    arm = [a for a in ms[0]["arms"] if render(a["pat"]).startswith("Number")] if ms else []
    if len(arm) != 1:
        return ctx.missing(R, "Number arm")
    a = arm[0]
    ws = list(opdisc.writes_in(a["body"], "value"))
    ok = False
    det = render(a["body"])[:200]
    if len(ws) == 1:
        le = let_env(a["body"])
        v = strip(ws[0]["args"][0])
        for _ in range(3):
            if v["k"] == "Path" and v["path"] in le:
                v = strip(le[v["path"]])
        if v["k"] == "Struct" and last(v["path"]) == "FieldElement":
            inner = strip(v["fields"][0]["e"])
            if inner["k"] == "Path" and inner["path"] in le:
                inner = strip(le[inner["path"]])
            t = render(inner).replace(" ", "")
            ok = t.startswith("modular_arithmetic::") and "env.prime()" in t or "%env.prime()" in t or ".mod_floor(env.prime())" in t
            det = "FieldElement { value: %s }" % t
    ctx.check(R, "Expression::propagate_values/Number/reduced", ok, det, site(EI, a))


from sgrep import visits_all_statements  # noqa: E402


def eval_constant_visitor(ctx, R, fn):
    """C06.6 by evaluation: the statement visitor is run on an if-statement whose condition's recorded value is
    unknown / the boolean true / the boolean false / a field element, and on statements of every other kind; it must
    push exactly one report, built from the condition's meta and that boolean, in the two boolean worlds only."""
    import a10
    import passeval
    from finfun import NONE, S, Unsupported
    from passeval import O, Sink, V

    IRF = "program_structure/src/intermediate_representation/ir.rs"
    VMF = "program_structure/src/intermediate_representation/value_meta.rs"
    try:
        w = passeval.PassWorld([IRF, VMF], CC)
    except Exception as e:  # noqa: BLE001
        ctx.note("constant_conditional: evaluator unavailable (%s)" % e)
        return False
    roles = []
    for i in fn["sig"]["inputs"]:
        ty = i["ty"].replace(" ", "")
        if ty == "&Statement":
            roles.append("stmt")
        elif ty in ("&mutReportCollection", "&mutVec<Report>"):
            roles.append("sink")
        else:
            return False
    if sorted(roles) != ["sink", "stmt"]:
        return False
    w.stubs["build_report"] = lambda args: ("K", "build_report", tuple(args))
    worlds = []
    for tag, val in (("unknown", NONE), ("true", S("Some", V("ValueReduction", "Boolean", value=True))), ("false", S("Some", V("ValueReduction", "Boolean", value=False))), ("field-element", S("Some", V("ValueReduction", "FieldElement", value=1)))):
        cm = O("cond_meta:" + tag, value_knowledge=O("value_knowledge", get_reduces_to=val))
        cond = O("cond:" + tag, meta=cm)
        st = V("Statement", "IfThenElse", meta=O("stmt_meta", value_knowledge=O("vk", get_reduces_to=S("Some", V("ValueReduction", "Boolean", value=True)))), cond=cond, true_index=1, false_index=S("Some", 2))
        worlds.append((tag, st, cm, {"true": True, "false": False}.get(tag)))
    d = a10.enum_def(IRF, "Statement")
    lv = passeval.Leaves()
    for vname, vdef in d.items():
        if vname != "IfThenElse":
            worlds.append((vname, passeval.build_node("Statement", vname, vdef, lv)[0], None, None))
    first_bad = {}
    n = 0
    for tag, st, cm, want in worlds:
        sink = Sink()
        try:
            res = passeval.run(w, fn, [st if r == "stmt" else sink for r in roles])
        except Unsupported as u:
            ctx.note("constant_conditional::visit_statement is outside the evaluator's subset (%s): shape obligations apply" % u)
            return False
        n += 1
        got = sink.items
        if res is not None:
            first_bad.setdefault("panics", "%s: %s" % (tag, res[1]))
        elif want is None and got:
            first_bad.setdefault("spurious", "%s: %d report(s) pushed" % (tag, len(got)))
        elif want is not None and len(got) != 1:
            first_bad.setdefault("missing", "condition known to be %s: %d report(s) pushed" % (tag, len(got)))
        elif want is not None:
            g = got[0]
            if not (isinstance(g, tuple) and g[0] == "K" and g[1] == "build_report" and len(g[2]) == 2 and g[2][0] is cm and g[2][1] is want):
                first_bad.setdefault("value", "condition known to be %s: the report is built from %r" % (tag, g))
    ctx.floor(R, "statement worlds evaluated (constant_conditional)", n, 8)
    ctx.check(R, "constant_conditional/reports-known-booleans-only", not ({"panics", "spurious", "missing"} & set(first_bad)), "; ".join(first_bad.get(k_) for k_ in ("panics", "spurious", "missing") if k_ in first_bad) or "one report exactly when the condition's recorded value is a boolean (%d worlds)" % n, site(CC, fn))
    ctx.check(R, "constant_conditional/reports-that-value", "value" not in first_bad, first_bad.get("value", "built from the condition's meta and the recorded boolean"), site(CC, fn))
    return True


def rule_consumers(ctx):
    R = "C06.6"
    ctx.rule(R, "the constant-condition finding is issued exactly for conditions whose value is a known boolean, with that boolean")
    import sgrep

    # the function that issues the finding (the per-statement visitor, or the pass itself when the visitor is inlined)
    cands = [f_ for _q, f_ in fns_in_file(CC) if any(sgrep.match(sgrep.pattern("build_report(__m, __v)"), p_["args"][0], {}) for p_ in method_calls(f_["body"], "push") if p_["args"])]
    if len(cands) != 1:
        return ctx.missing(R, "constant_conditional::visit_statement", "expected one function pushing build_report(..), found %d" % len(cands))
    fn = cands[0]
    pushes = [p_ for p_ in method_calls(fn["body"], "push") if p_["args"] and sgrep.match(sgrep.pattern("build_report(__m, __v)"), p_["args"][0], {})]
    if len(pushes) != 1:
        return ctx.missing(R, "visit_statement/push")
    allconds = conditions_to(fn["body"], pushes[0]) or []
    conds = [c for c in allconds if c[0] not in ("loop", "closure")]
    cs = [c.replace(" ", "") for c in facts_str(conds)]

    le = let_env(fn["body"], pushes[0])
    pv = sgrep.params(fn)
    # the statement inspected: the visitor's parameter, or the loop variable of the pass
    stmt_names = set(pv[:1]) | {render(c[2]).replace("&", "").strip() for c in allconds if c[0] == "loop" and c[1] == "for" and c[2] is not None}
    ifl = [c for c in conds if c[0] == "iflet" and c[3]]
    ok = len(conds) == 2 and len(ifl) == 2
    if ok:
        p1, p2 = ifl[0][1], ifl[1][1]
        ok = p1["k"] == "PStruct" and last(p1["path"]) == "IfThenElse" and any(f_["name"] == "cond" and render(f_["pat"]).replace("&", "").strip() == "cond" for f_ in p1["fields"]) and render(strip(ifl[0][2])) in stmt_names
        ok = ok and render(p2).replace(" ", "") == "Some(Boolean{value})" and sgrep.match(sgrep.pattern("cond.meta().value_knowledge().get_reduces_to()"), ifl[1][2], {}, le)
    decided = fn["name"] == "visit_statement" and eval_constant_visitor(ctx, R, fn)
    if not decided:
        ctx.check(R, "constant_conditional/reports-known-booleans-only", bool(ok), "report under %s" % cs, site(CC, pushes[0]))
        ctx.check(R, "constant_conditional/reports-that-value", sgrep.match(sgrep.pattern("build_report(cond.meta(), value)"), pushes[0]["args"][0], {}, {k_: v_ for k_, v_ in le.items() if k_ != "value"}), render(pushes[0])[:100], site(CC, pushes[0]))
    # message polarity
    for q, f in fns_in_file(CC):
        if f["name"] == "into_report":
            t = render(f["body"]).replace(" . ", ".")
            tn = t.replace(" ", "")
            # `let Self { value, .. } = self` / `let value = self.value` names the field; `{value}` captures it
            named = {"self.value"} | {m_.group(1) for m_ in re.finditer(r"let(\w+)=self\.value;", tn)}
            for m_ in re.finditer(r"letSelf\{([^}]*)\}=self;", tn):
                for fld in m_.group(1).split(","):
                    if fld == "value":
                        named.add("value")
                    elif fld.startswith("value:"):
                        named.add(fld[len("value:"):])
            shown = any(("{}" in t and re.search(r'"[^"]*\{\}[^"]*",\s*&?\*?%s\s*[,)]' % re.escape(nm_), t)) or (("{%s}" % nm_) in t and "." not in nm_) for nm_ in named)
            ok = re.search(r"if self\.value \{[^}]*true[^}]*\} else \{[^}]*false", t) is not None or shown
            ctx.check(R, "ConstantBranchConditionWarning/message-states-the-value", ok, t[:200], site(CC, f))
    top = find_fn(CC, "find_constant_conditional_statement")
    if top is not None:
        okv, how = visits_all_statements(top, "visit_statement" if fn is not top else None)
        ctx.check(R, "constant_conditional/visits-all-statements", okv, how, site(CC, top))


def run(ctx):
    rule_operator_table(ctx)
    rule_switch_phi(ctx)
    opdisc.rule_values(ctx, "C06.3")
    rule_environment(ctx)
    rule_literals(ctx)
    rule_consumers(ctx)
    import c14
    import c16
    ctx.include("C06.8", "prerequisite shared with C16: the field operations the constants are computed with return canonical values, test their divisors, bound their exponents, and the comparison family realises the right truth functions", c16.rule_divisors, c16.rule_exponents, c16.rule_canonical, c16.rule_comparisons)
    import c11

    ctx.include("C06.9", "a Num2Bits / Bits2Num size judged `less than the prime size` really is: the size test is strict and the prime sizes are those of the field (shared with C11.2/C11.3)", lambda c: c11.rule_thresholds(c, c11.rule_primes(c) or {}))
    ctx.include("C06.7", "prerequisite shared with C14: phi insertion is iterated, renaming order and scope pairing, phi identity (a missing phi makes a merged variable look constant)", c14.rule_phi_insertion, c14.rule_phis_and_locals, c14.rule_plumbing)
    ctx.include("C06.11", "constants are folded in the field of the curve chosen on the command line: the option reaches the runner, the runner keeps it when it is rebuilt, and CFG generation is handed the runner's curve (shared with C11.4)", c11.rule_fromstr, only=["main/curve-option-reaches-runner", "AnalysisRunner::", "generate_cfg/"])
    ctx.include("C06.12", "the integer quotient `\\` is taken on the canonical representatives 0..p-1 of its operands, divisor tested first (shared with C16.9)", c16.rule_integer_quotient)
    import c10

    ctx.include("C06.10", "prerequisite shared with C10.1/C10.2: a constant is attributed to the variable the source names - blocks open and close the scope of declarations and of their renamed versions together, and every occurrence is renamed through the current scope (a read after a shadowing block must not resolve to the inner variable)", c10.rule_scopes, c10.rule_renaming)
