"""C03 Report conservation and output contract."""
import re

import facts
from astlib import result_expr, block_tail, calls, find_fn, find_impl, find_item, fns_in_file, last, method_calls, pat_paths, render, site, strip, walk
from finfun import E, NONE, Unsupported, World
from pathcond import conditions_to, fact_str, facts_str, find_path, let_env
import reportflow
import sgrep

TITLE = "Report conservation and output contract"
LEVEL_TEXT = (
    "drain-after-fill ordering of the per-definition report cache; exit status, summary and counter derive from the displayed"
    " collection; the SARIF writer gets the same filters and the cached reports; filter laws (complete order table of the"
    " categories by abstract evaluation, level/allow predicates); every pass is registered and its result appended; every"
    " finding can pass the per-file filter (truth table over label worlds x category); rule ids and names injective; SARIF regions use the"
    " renderer's own location lookup; type-resolved scan: nothing but the user's filters narrows a collection of reports; the three SARIF conversions evaluated with recording builders; the SARIF file is opened truncating and holds the serialisation of the reports handed in.; the analysis runner evaluated on two templates and two functions with modelled lifting and passes (what is written is exactly what was produced, each report once, also when a pass asks for a definition again). Filter arguments are resolved with the binding in force where each writer is built and the options are not modified in main; Report::to_sarif is evaluated on labels with concrete regions (a secondary label before the primary one is kept)."
)
NOT_DECIDED = "`exactly once` across recursive template instantiation; that positions in SARIF equal the terminal's beyond using the same lookup."
ENGINE = "mirfacts+astq"
TRUSTED = ["rustc MIR (engines/mirfacts) for C03.10", "syn parser", "finite-function evaluator", "codespan `Files::location` gives line/column of a byte offset"]

MAIN = "cli/src/main.rs"
RUN = "program_analysis/src/analysis_runner.rs"
WR = "program_structure/src/utils/writers.rs"
REP = "program_structure/src/program_library/report.rs"
RC = "program_structure/src/program_library/report_code.rs"
SC = "program_structure/src/utils/sarif_conversion.rs"
PA_LIB = "program_analysis/src/lib.rs"


def stmt_index(fn, node):
    """index of the top-level statement of fn's body that contains node"""
    for i, s in enumerate(fn["body"]["stmts"]):
        if any(x is node for x in walk(s)):
            return i
    return None


def rule_drain(ctx):
    R = "C03.1"
    ctx.rule(R, "the per-definition report cache is drained after the call that may fill it (CFG generation), and what was drained is what is written; every pass result is appended to that collection; the cache takes every report it is handed")
    rule_cache_append(ctx, R)
    rule_no_narrowing(ctx, R)
    import c03run
    if c03run.rule(ctx, R):
        # decided by evaluation (every world of rules/c03run.py): the shape obligations on cache_* / analyze_* below are the
        # fallback for a runner that leaves the evaluator's subset
        return
    # a definition is lifted - and its lifting reports are produced - at most once: not again when its graph is cached,
    # and not again when an earlier attempt failed (its reports are cached then; every further reference by another
    # definition would otherwise display the same error once more)
    for kind in ("template", "function"):
        cf = find_fn(RUN, "cache_" + kind)
        if cf is None:
            ctx.missing(R, "AnalysisRunner::cache_" + kind)
            continue
        gens = list(calls(cf["body"], "generate_cfg"))
        okg = len(gens) == 1
        det = "%d calls of generate_cfg" % len(gens)
        if okg:
            cs = [c.replace(" ", "") for c in facts_str(conditions_to(cf["body"], gens[0]) or [])]
            pv_ = sgrep.params(cf)
            nm_ = pv_[0] if pv_ else "name"
            okg = ("!self.%s_cfgs.contains_key(%s)" % (kind, nm_)) in cs and ("!self.%s_reports.contains_key(%s)" % (kind, nm_)) in cs
            det = "generate_cfg is reached under %s" % cs
        ctx.check(R, "AnalysisRunner::cache_%s/lifted-at-most-once" % kind, okg, det, site(RUN, cf))
    for kind in ("template", "function"):
        fn = find_fn(RUN, "analyze_" + kind)
        if fn is None:
            ctx.missing(R, "AnalysisRunner::analyze_" + kind)
            continue
        drain = list(method_calls(fn["body"], "take_%s_reports" % kind))
        fill = list(method_calls(fn["body"], "take_" + kind))
        wr = list(method_calls(fn["body"], "write_reports"))
        if len(drain) != 1 or len(fill) != 1 or len(wr) != 1:
            ctx.missing(R, "analyze_%s/calls" % kind, "drain=%d fill=%d write=%d" % (len(drain), len(fill), len(wr)))
            continue
        di, fi, wi = stmt_index(fn, drain[0]), stmt_index(fn, fill[0]), stmt_index(fn, wr[0])
        ctx.check(R, "analyze_%s/drain-after-fill" % kind, fi is not None and di is not None and fi < di, "take_%s (may generate the CFG and cache its reports) is statement %s, take_%s_reports is statement %s: reports cached during generation are drained before they exist and are never shown" % (kind, fi, kind, di), site(RUN, drain[0]))
        # drained collection is the one written
        env = let_env(fn["body"])
        dv = None
        for n in walk(fn["body"]):
            if n["k"] == "Local" and n["init"] is not None and any(x is drain[0] for x in walk(n["init"])) and n["pat"]["k"] == "PIdent":
                dv = n["pat"]["name"]
        warg = render(strip(wr[0]["args"][0]))
        ctx.check(R, "analyze_%s/written-is-drained" % kind, dv is not None and warg == dv, "drained into `%s`, write_reports(%s, ..)" % (dv, warg), site(RUN, wr[0]))
        # write is unconditional
        conds = [c for c in (conditions_to(fn["body"], wr[0]) or [])]
        ctx.check(R, "analyze_%s/write-unconditional" % kind, not conds, "write_reports under %s" % facts_str(conds), site(RUN, wr[0]))
        # pass results appended
        apps = [a for a in method_calls(fn["body"], "append") if render(strip(a["recv"])) == dv]
        okk = False
        for a in apps:
            cs = conditions_to(fn["body"], a) or []
            lp = [c for c in cs if c[0] == "loop" and "get_analysis_passes()" in fact_str(c)]
            lvn = render(lp[-1][2]) if lp else None
            arg0 = strip(a["args"][0])
            lenv_ = let_env(fn["body"], a)
            if arg0["k"] == "Path" and arg0["path"] in lenv_:
                arg0 = strip(lenv_[arg0["path"]])  # `let mut r = pass(self, &cfg); reports.append(&mut r)`
            if lvn and render(arg0).replace(" ", "").startswith(lvn + "("):
                loopok = True
                extra = [fact_str(c) for c in cs if c[0] not in ("loop",) and not (c[0] == "iflet" and c[3] and re.fullmatch(r"Ok\(\w+\)", render(c[1]).replace(" ", "")))]
                okk = loopok and not extra
        ctx.check(R, "analyze_%s/every-pass-result-appended" % kind, okk, "`for analysis_pass in get_analysis_passes() { %s.append(&mut analysis_pass(self, &cfg)) }` expected, unconditional inside the Ok branch" % dv, site(RUN, fn))
    # the outer loops visit every name once
    for kind in ("templates", "functions"):
        fn = find_fn(RUN, "analyze_" + kind)
        if fn is None:
            ctx.missing(R, "analyze_" + kind)
            continue
        # `analyze_<kind>(name, ..)` is called once, unconditionally, for every element of `self.<kind>_names(<param>)`
        pvk = sgrep.params(fn)
        okn, how = False, ""
        for pk in pvk or ["user_input_only"]:
            if not okn:
                okn, how = sgrep.each_calls(fn["body"], "self.%s_names(%s)" % (kind[:-1], pk), "analyze_" + kind[:-1], sgrep.lets(fn["body"]))
        ncalls = len(list(method_calls(fn["body"], "analyze_" + kind[:-1])))
        # nothing else is emitted here: one pass over the names, no second write / drain of the caches
        names_calls = len(list(method_calls(fn["body"], "%s_names" % kind[:-1])))
        others = [m_["method"] for m_ in walk(fn["body"]) if m_["k"] == "MethodCall" and (m_["method"] == "write_reports" or m_["method"].startswith("take_"))]
        inner = okn and ncalls == 1 and names_calls == 1 and not others and not [n for n in walk(fn["body"]) if n["k"] in ("Continue", "Break", "Return")]
        ctx.check(R, "analyze_%s/one-analysis-per-name" % kind, bool(inner), "%s; %s" % (how, render(fn["body"])[:200]), site(RUN, fn))


def canon_main(ctx, R):
    import alpha, copy
    fn0 = find_fn(MAIN, "main")
    if fn0 is None:
        ctx.missing(R, "cli::main")
        return None
    fn = copy.deepcopy(fn0)
    mp = {}
    for n in walk(fn["body"]):
        if n["k"] == "Local" and n["pat"]["k"] == "PIdent" and n["init"] is not None:
            t = render(n["init"]).replace(" ", "")
            if "CachedStdoutWriter::new(" in t:
                mp[n["pat"]["name"]] = "stdout_writer"
            elif "SarifWriter::new(" in t:
                mp[n["pat"]["name"]] = "sarif_writer"
            elif t.startswith("Cli::parse()"):
                mp[n["pat"]["name"]] = "options"
        def builds_runner(e_, at_):
            # the builder chain may be split at a `let`: follow the receiver chain to its head and through its definition
            le_ = let_env(fn["body"], at_)
            for _ in range(4):
                if "AnalysisRunner::new(" in render(e_).replace(" ", ""):
                    return True
                h_ = strip(e_)
                while h_["k"] == "MethodCall":
                    h_ = strip(h_["recv"])
                if h_["k"] == "Path" and h_["path"] in le_:
                    e_ = le_[h_["path"]]
                    continue
                return False
            return False

        if n["k"] == "Local" and n["pat"]["k"] == "PTuple" and n["init"] is not None and builds_runner(n["init"], n):
            names = [x["name"] for x in n["pat"]["elems"] if x["k"] == "PIdent"]
            if len(names) == 2:
                mp[names[0]] = "runner"
                mp[names[1]] = "reports"
    need = {"stdout_writer", "options", "runner", "reports"}
    if not need <= set(mp.values()):
        ctx.missing(R, "main/roles", "found %s" % mp)
        return None
    alpha.rename(fn["body"], {k: v for k, v in mp.items() if k != v})
    # a tail call of a private helper of the file (`summarize(&mut stdout_writer)`) is the helper's body: a `return` in it
    # is a return of main
    for _ in range(2):
        stmts_ = fn["body"]["stmts"]
        if not stmts_ or stmts_[-1]["k"] != "ExprStmt" or stmts_[-1].get("semi"):
            break
        tail_ = strip(stmts_[-1]["e"])
        if tail_["k"] == "Return" and tail_.get("e") is not None:
            tail_ = strip(tail_["e"])
        if not (tail_["k"] == "Call" and tail_["func"]["k"] == "Path" and "::" not in tail_["func"]["path"]):
            break
        hs_ = [f_ for q_, f_ in fns_in_file(MAIN) if f_["name"] == tail_["func"]["path"] and not q_ and f_.get("body") and f_.get("vis") != "pub"]
        if len(hs_) != 1:
            break
        h_ = copy.deepcopy(hs_[0])
        pn_ = [i_["pat"]["name"] for i_ in h_["sig"]["inputs"] if not i_.get("self") and i_["pat"]["k"] == "PIdent"]
        if len(pn_) != len(tail_["args"]):
            break
        ren_ = {}
        ok_ = True
        for p_, a_ in zip(pn_, tail_["args"]):
            a0_ = strip(a_)
            while a0_["k"] in ("Ref", "Paren"):
                a0_ = strip(a0_["e"])
            if a0_["k"] == "Path" and "::" not in a0_["path"]:
                if p_ != a0_["path"]:
                    ren_[p_] = a0_["path"]
            else:
                ok_ = False
        if not ok_:
            break
        alpha.rename(h_["body"], ren_)
        fn["body"]["stmts"] = stmts_[:-1] + h_["body"]["stmts"]
    return fn


def rule_duplicates_once(ctx, R="C03.11"):
    ctx.rule(R, "the duplicate-definition reports reach the result exactly once: on every way through parse_files that builds a template library, exactly one collection that carries them (the archive's error list or the library's reports) is appended")
    from pathcond import enumerate_paths

    LIBF = "parser/src/lib.rs"
    fn = find_fn(LIBF, "parse_files")
    if fn is None:
        return ctx.missing(R, "parse_files")
    import parseval

    if parseval.rule(ctx, R, aspects=["once", "file-reports", "archive-errors", "library-reports"]):
        return
    n = 0
    bad = []
    for conds, atoms, ex in enumerate_paths(fn["body"]):
        if ex == "panic":
            continue
        libs = [c for a in atoms for c in walk(a) if c["k"] == "Call" and c["func"]["k"] == "Path" and c["func"]["path"].endswith("TemplateLibrary::new")]
        if not libs:
            continue
        n += 1
        apps = []
        for a in atoms:
            for m in walk(a):
                if m["k"] == "MethodCall" and m["method"] in ("append", "extend") and render(strip(m["recv"])) == "reports" and m["args"]:
                    arg = render(strip(m["args"][0])).replace(" ", "").replace("&mut", "")
                    if arg.endswith(".reports") or arg in ("errors",) or "errors" in arg:
                        apps.append(arg)
        if len(apps) != 1:
            bad.append("%s -> appended %s" % ([fact_str(c)[:50] for c in conds if c[0] in ("arm", "iflet")][-2:], apps))
    ctx.floor(R, "ways through parse_files that build a library", n, 3)
    ctx.check(R, "parse_files/duplicate-reports-appended-exactly-once", not bad, "; ".join(bad[:3]) or "%d ways, one duplicate-carrying collection appended on each" % n, site(LIBF, fn))


def rule_exit_status(ctx, R="C03.2"):
    ctx.rule(R, "exit status is SUCCESS exactly when the displayed-report counter is 0; the summary prints that counter; the counter grows by the number of reports that passed the filters, and exactly those are emitted")
    fn = canon_main(ctx, R)
    if fn is None:
        return
    # the end of main, evaluated for a displayed-report count of 0, 1, 2 and 7: which exit status is returned and which
    # summary is printed.  A match on the counter, an if/else chain and a helper that formats the message all evaluate
    # to the same table.
    COUNT = "stdout_writer.reports_written()"

    class Unknown(Exception):
        pass

    def is_count(e, al):
        t = render(strip(e)).replace(" ", "").lstrip("&*")
        return t == COUNT or t in al

    def ev_int(e, n, al):
        e = strip(e)
        if is_count(e, al):
            return n
        if e["k"] == "Lit" and e.get("lit") == "int":
            return int(str(e["value"]).split("_")[0].rstrip("usize").rstrip("i32") or 0)
        raise Unknown(render(e))

    def ev_bool(e, n, al):
        e = strip(e)
        if e["k"] == "Binary" and e["op"] in ("==", "!=", "<", "<=", ">", ">="):
            a, b = ev_int(e["l"], n, al), ev_int(e["r"], n, al)
            return {"==": a == b, "!=": a != b, "<": a < b, "<=": a <= b, ">": a > b, ">=": a >= b}[e["op"]]
        if e["k"] == "Unary" and e["op"] == "!":
            return not ev_bool(e["e"], n, al)
        raise Unknown(render(e))

    def pick_arm(m, n, al):
        if not is_count(m["scrut"], al):
            raise Unknown(render(m["scrut"]))
        for a in m["arms"]:
            pt = a["pat"]
            cases = pt["cases"] if pt["k"] == "POr" else [pt]
            for c in cases:
                if c["k"] == "PLit":
                    if int(str(c["lit"]["value"])) == n and a.get("guard") is None:
                        return a, {}
                elif c["k"] in ("PWild",) and a.get("guard") is None:
                    return a, {}
                elif c["k"] == "PIdent" and a.get("guard") is None:
                    return a, {c["name"]: n}
                else:
                    raise Unknown(render(pt))
        raise Unknown("no arm")

    def ev_text(e, n, al, binds):
        """the text of a message expression"""
        e = strip(e)
        k = e["k"]
        if k == "Ref":
            return ev_text(e["e"], n, al, binds)
        if k == "MethodCall" and e["method"] in ("to_string", "into", "to_owned", "as_str", "clone") and not e["args"]:
            return ev_text(e["recv"], n, al, binds)
        if k == "Call" and render(e["func"]) in ("String::from",) and len(e["args"]) == 1:
            return ev_text(e["args"][0], n, al, binds)
        if k == "Lit" and e.get("lit") == "str":
            return e["value"]
        if k == "Macro" and last(e["name"]) == "format":
            raw = e["raw"]
            mm = re.match(r'\s*"((?:[^"\\]|\\.)*)"\s*(?:,(.*))?$', raw, re.S)
            if not mm:
                raise Unknown(raw)
            text, rest = mm.group(1), [x.strip() for x in (mm.group(2) or "").split(",") if x.strip()]

            def cap(m_):
                nm = m_.group(1)
                if nm == "":
                    if not rest:
                        raise Unknown(raw)
                    nm = rest.pop(0)
                if nm in al or nm in binds or nm.replace(" ", "") == COUNT:
                    return str(n)
                raise Unknown(nm)

            return re.sub(r"\{(\w*)\}", cap, text)
        if k == "Match":
            a, b = pick_arm(e, n, al)
            return ev_text(a["body"], n, al, dict(binds, **b))
        if k == "If" and e.get("else") is not None and e["cond"]["k"] != "Let":
            return ev_text(e["then"] if ev_bool(e["cond"], n, al) else e["else"], n, al, binds)
        if k == "Block":
            tl = block_tail(e)
            if tl is not None and len(e["stmts"]) == 1:
                return ev_text(tl, n, al, binds)
        if k == "Path" and e["path"] in texts:
            return ev_text(texts[e["path"]], n, al, binds)
        raise Unknown(render(e)[:60])

    texts = {}

    def run_block(stmts, n, al, binds, out):
        """returns the exit status the block yields as its value / by `return`, or None"""
        for i, st in enumerate(stmts):
            is_tail = i == len(stmts) - 1 and st["k"] == "ExprStmt" and not st.get("semi")
            e = st.get("e") if st["k"] == "ExprStmt" else None
            if st["k"] == "Local":
                if st["pat"]["k"] == "PIdent" and st.get("init") is not None:
                    if is_count(st["init"], al) and not st["pat"].get("mut"):
                        al.add(st["pat"]["name"])
                    else:
                        texts[st["pat"]["name"]] = st["init"]
                continue
            if e is None:
                continue
            r = run_expr(e, n, al, binds, out)
            if r is not None:
                return r
        return None

    def run_expr(e, n, al, binds, out):
        e = strip(e)
        k = e["k"]
        if k == "Path" and e["path"].startswith("ExitCode::"):
            return last(e["path"])
        if k == "Return":
            return run_expr(e["e"], n, al, binds, out) if e.get("e") else "?"
        if k == "Block":
            return run_block(e["stmts"], n, al, binds, out)
        if k == "Match" and is_count(e["scrut"], al):
            a, b = pick_arm(e, n, al)
            return run_expr(a["body"], n, al, dict(binds, **b), out)
        if k == "If":
            try:
                c = ev_bool(e["cond"], n, al) if e["cond"]["k"] != "Let" else None
            except Unknown:
                c = None
            if c is None:
                # a test that is not about the counter (the SARIF branch): it must not decide the exit status
                for br in (e["then"], e.get("else")):
                    if br is not None and run_expr(br, n, al, binds, []) is not None:
                        raise Unknown("exit status decided under `%s`" % render(e["cond"])[:60])
                return None
            br = e["then"] if c else e.get("else")
            return run_expr(br, n, al, binds, out) if br is not None else None
        if k == "MethodCall" and e["method"] == "write_message" and render(strip(e["recv"])) == "stdout_writer":
            try:
                out.append(ev_text(e["args"][0], n, al, binds))
            except Unknown as u:
                out.append("<?%s>" % u)
            return None
        return None

    body = fn["body"]["stmts"]
    first = [i for i, st in enumerate(body) if "reports_written" in render(st)]
    if not first:
        ctx.missing(R, "main/summary", "main never reads the displayed-report counter")
    else:
        for n in (0, 1, 2, 7):
            texts.clear()
            out = []
            try:
                code = run_block(body[first[0]:], n, set(), {}, out)
                why = ""
            except Unknown as u:
                code, why = None, "cannot evaluate: %s" % u
            summ = [t for t in out if "issue" in t.lower()]
            want_code = "SUCCESS" if n == 0 else "FAILURE"
            want_text = {0: "No issues found.", 1: "1 issue found."}.get(n, "%d issues found." % n)
            ctx.check(R, "main/exit[displayed=%d]" % n, code == want_code, "exit status %s, expected %s (from what was displayed on stdout) %s" % (code, want_code, why), site(MAIN, fn))
            ctx.check(R, "main/summary[displayed=%d]" % n, summ == [want_text], "summary %s, expected [%r] %s" % (summ, want_text, why), site(MAIN, fn))
        # no other way out: once the inputs are being read, main ends in the summary above - an early `return`, an exit
        # code other than SUCCESS / FAILURE or a process::exit elsewhere ends the run without the summary line
        last_nodes = {id(y) for y in walk(body[-1])} if body else set()
        for x in walk(fn["body"]):
            if id(x) in last_nodes:
                continue
            bad_exit = None
            if x["k"] == "Return":
                cs = facts_str(conditions_to(fn["body"], x) or [])
                if not any("input_files.is_empty()" in c and not c.lstrip("(").startswith("!") for c in cs):
                    # an early return that follows the summary line in its own block (and returns SUCCESS / FAILURE,
                    # decided by the evaluation above) is the end of the run written differently
                    after_summary = False
                    for parent, slot, child in (find_path(fn["body"], x) or []):
                        if parent["k"] == "Block":
                            for st_ in parent["stmts"]:
                                if st_ is child:
                                    break
                                if any(m_["k"] == "MethodCall" and m_["method"] == "write_message" and re.search(r"issues? found|summary", render(m_), re.I) for m_ in walk(st_)):
                                    after_summary = True
                    val_ = render(strip(x["e"])) if x.get("e") is not None else ""
                    if not (after_summary and val_ in ("ExitCode::SUCCESS", "ExitCode::FAILURE")):
                        bad_exit = "`%s` under %s" % (render(x)[:60], cs)
            elif x["k"] == "Call" and x["func"]["k"] == "Path" and (x["func"]["path"].endswith("ExitCode::from") or x["func"]["path"].endswith("process::exit") or x["func"]["path"].endswith("process::abort") or x["func"]["path"] in ("exit", "abort")):
                bad_exit = "`%s`" % render(x)[:60]
            if bad_exit:
                ctx.bad(R, "main/no-exit-without-the-summary", "%s leaves main without printing the summary line (or with a status other than 0 / 1)" % bad_exit, site(MAIN, x))
        ctx.check(R, "main/exits-inspected", True, "every return / exit call of main outside the help path and the final summary was looked at")
        # other SUCCESS exits: only the help path
        tail_nodes = {id(x) for st in body[first[0]:] for x in walk(st)}
        others = [x for x in walk(fn["body"]) if x["k"] == "Path" and x["path"] == "ExitCode::SUCCESS" and id(x) not in tail_nodes]
        for o in others:
            cs = facts_str(conditions_to(fn["body"], o) or [])
            ctx.check(R, "main/other-success-exit", any("input_files.is_empty()" in c and not c.lstrip("(").startswith("!") for c in cs), "ExitCode::SUCCESS under %s: the only other successful exit is the help path (no input files)" % cs, site(MAIN, o))
    # StdoutWriter::write_reports
    w = None
    for q, f in fns_in_file(WR):
        if f["name"] == "write_reports" and q.replace(" ", "") == "ReportWriterforStdoutWriter":
            w = f
    if w is None:
        return ctx.missing(R, "StdoutWriter::write_reports")
    import sgrep
    envl = sgrep.lets(w["body"])
    pv = sgrep.params(w)
    fr = [k for k, v in envl.items() if pv and sgrep.has(v, "self.filter(__r)", None, {"__r": pv[0]}) and render(strip(v)).replace(" ", "").startswith("self.filter(")]
    ctx.check(R, "StdoutWriter::write_reports/filtered-collection", len(fr) == 1, "the reports that are displayed are `self.filter(<the offered reports>)`: %s" % fr, site(WR, w))
    FR = fr[0] if fr else "reports"
    incs = [n for n in walk(w["body"]) if n["k"] == "Binary" and n["op"] == "+=" and render(n["l"]) == "self.written"]
    ctx.check(R, "StdoutWriter::write_reports/counter-grows-by-displayed", len(incs) == 1 and sgrep.match(sgrep.pattern(FR + ".len()"), incs[0]["r"], {}, envl) and not (conditions_to(w["body"], incs[0]) or []), "self.written += %s" % (render(incs[0]["r"]) if incs else "?"), site(WR, w))
    t = block_tail(w["body"])
    ctx.check(R, "StdoutWriter::write_reports/returns-displayed-count", t is not None and sgrep.match(sgrep.pattern(FR + ".len()"), t, {}, envl), "returns %s" % render(t), site(WR, w))
    # diagnostics: one per filtered report (loop with one unconditional push, or a map/collect without filtering)
    okb, how = sgrep.each_calls(w["body"], FR + ".iter()", "to_diagnostic", envl)
    if not okb:
        okb, how = sgrep.each_calls(w["body"], FR, "to_diagnostic", envl)
    filt = [m["method"] for m in walk(w["body"]) if m["k"] == "MethodCall" and m["method"] in NARROWING and FR in render(m["recv"])]
    ctx.check(R, "StdoutWriter::write_reports/one-diagnostic-per-report", okb and not filt, "%s; narrowing adaptors on the displayed collection: %s" % (how, filt), site(WR, w))
    emits = list(calls(w["body"], "term::emit"))
    oke = False
    if len(emits) == 1:
        cs = conditions_to(w["body"], emits[0]) or []
        loops_ = [c for c in cs if c[0] == "loop"]
        extra = [fact_str(c) for c in cs if c[0] not in ("loop", "closure")]
        oke = len(loops_) == 1 and not extra and not any(x["k"] in ("Continue", "Break") for x in walk(w["body"]))
    ctx.check(R, "StdoutWriter::write_reports/every-diagnostic-emitted", oke, "term::emit runs once per diagnostic, unconditionally", site(WR, w))
    # reports_written returns the counter
    for q, f in fns_in_file(WR):
        if f["name"] == "reports_written" and "StdoutWriter" in q and "Cached" not in q:
            t = result_expr(f)
            ctx.check(R, "StdoutWriter::reports_written", t is not None and render(strip(t)) == "self.written", render(t), site(WR, f))
        if f["name"] == "reports_written" and "CachedStdoutWriter" in q:
            t = result_expr(f)
            lenv_c = sgrep.lets(f["body"])
            ctx.check(R, "CachedStdoutWriter::reports_written", t is not None and (render(strip(t)).replace(" ", "") == "self.writer.reports_written()" or any(render(strip(t)).replace(" ", "") == "%s.reports_written()" % k_ for k_, v_ in lenv_c.items() if render(strip(v_)) == "self.writer")), render(t), site(WR, f))
    # filter(): all filters must accept
    for ty in ("StdoutWriter", "SarifWriter"):
        ff = find_fn(WR, "filter", ty)
        if ff is None:
            ctx.missing(R, ty + "::filter")
            continue
        t = render(ff["body"]).replace(" ", "")
        pvf = sgrep.params(ff)
        okc = bool(pvf) and (sgrep.has(ff["body"], "__rs.iter().filter(|__r| self.filters.iter().all(|__f| __f.filter(__r))).cloned().collect()", sgrep.lets(ff["body"]), {"__rs": pvf[0]}) or sgrep.has(ff["body"], "__rs.iter().filter(|__r| self.filters.iter().all(|__f| __f.filter(__r))).cloned().collect::<ReportCollection>()", sgrep.lets(ff["body"]), {"__rs": pvf[0]}))
        if not okc and pvf:
            # loop form: for x in RS { if <all filters accept x> { kept.push(x.clone()) } } kept
            tl = block_tail(ff["body"])
            lenv_f = sgrep.lets(ff["body"])
            for lp in [n for n in walk(ff["body"]) if n["k"] == "For" and render(strip(n["iter"])).replace(" ", "") in (pvf[0], pvf[0] + ".iter()")]:
                xv = render(lp["pat"]).replace("&", "").strip()
                ps = list(method_calls(lp["body"], "push"))
                if len(ps) != 1 or tl is None or render(strip(ps[0]["recv"])) != render(strip(tl)) or render(strip(ps[0]["args"][0])) != xv:
                    continue
                init = lenv_f.get(render(strip(tl)))
                if init is None or render(strip(init)).replace(" ", "") not in ("ReportCollection::new()", "Vec::new()", "vec![]", "Vec::default()"):
                    continue
                cs_ = conditions_to(lp["body"], ps[0]) or []
                if len(cs_) == 1 and cs_[0][0] == "if" and cs_[0][2] and sgrep.match(sgrep.pattern("self.filters.iter().all(|__f| __f.filter(%s))" % xv), cs_[0][1], {}) and not [x for x in walk(lp["body"]) if x["k"] in ("Break", "Continue", "Return")]:
                    okc = True
        decided = eval_filter_fn(ctx, R, ty, ff)
        if not decided:
            ctx.check(R, ty + "::filter/conjunction-of-all-filters", okc and "any(" not in t, t[:200], site(WR, ff))


def eval_filter_fn(ctx, R, ty, ff):
    """`<Writer>::filter` evaluated on three reports and two filters for all 64 accept tables: the result must be the
    reports accepted by every filter, in order, each once.  False when outside the evaluator's subset."""
    import itertools

    import passeval
    from finfun import Iter, S, Unsupported
    from passeval import O, Sink

    try:
        w = passeval.PassWorld([WR], WR)
    except Exception:
        return False
    fields = w.structs.get(ty)
    if not fields or "filters" not in fields:
        return False
    reports = [O("report%d" % i) for i in range(3)]
    n = 0
    bad = None
    for bits in itertools.product([False, True], repeat=6):
        table = [bits[0:3], bits[3:6]]
        filters = ("L", tuple(O("filter%d" % j, filter=("PY", (lambda j: (lambda r: table[j][[k for k, x in enumerate(reports) if x is r][0]]))(j))) for j in range(2)))
        selfv = S(ty, *[filters if f == "filters" else O("%s.%s" % (ty, f)) for f in fields])
        try:
            res = w.call_fn(ff, [selfv, ("L", tuple(reports))])
        except Unsupported as u:
            ctx.note("%s::filter is outside the evaluator's subset (%s): shape obligations apply" % (ty, u))
            return False
        except passeval.Panic as p_:
            bad = bad or "panics: %s" % p_
            continue
        n += 1
        got = res.items if isinstance(res, Sink) else (res.rest() if isinstance(res, Iter) else (list(res[1]) if isinstance(res, tuple) and res and res[0] == "L" else None))
        want = [r for k, r in enumerate(reports) if table[0][k] and table[1][k]]
        if got is None or len(got) != len(want) or any(a is not b for a, b in zip(got, want)):
            bad = bad or "accept table %s: returns %s, expected %s" % (table, [x[1] for x in got] if got is not None else res, [x[1] for x in want])
    ctx.floor(R, ty + "::filter worlds evaluated", n, 64)
    ctx.check(R, ty + "::filter/conjunction-of-all-filters", bad is None, bad or "for all 64 accept tables of two filters over three reports the result is the reports every filter accepts, in order", site(WR, ff))
    return True


def filter_chain(expr):
    """x.add_filter(c1).add_filter(c2)... -> [(callee, args)] and the base expression"""
    out = []
    e = expr
    while e["k"] == "MethodCall" and e["method"] == "add_filter":
        cl = strip(e["args"][0])
        body = cl["body"] if cl["k"] == "Closure" else cl
        c = strip(body)
        # the closure's own parameter, whatever it is called, is `report`
        pname = None
        if cl["k"] == "Closure" and len(cl["inputs"]) == 1:
            ids = [b["name"] for b in walk(cl["inputs"][0]) if b["k"] == "PIdent"]
            pname = ids[0] if len(ids) == 1 else None
        if c["k"] == "Call":
            out.append((render(c["func"]), tuple("report" if pname is not None and render(strip(a)) == pname else ("?" + render(strip(a)) if render(strip(a)) == "report" and pname not in (None, "report") else render(strip(a))) for a in c["args"])))
        else:
            out.append(("?", (render(c),)))
        e = e["recv"]
    return list(reversed(out)), e


def rule_sarif(ctx):
    R = "C03.3"
    ctx.rule(R, "the SARIF writer is configured with the same filters (same predicates over the same option fields) as the stdout writer and is fed the cache of everything that was offered to stdout")
    fn = canon_main(ctx, R)
    if fn is None:
        return
    env = {}
    order = {}
    for i, n in enumerate(walk(fn["body"])):
        if n["k"] == "Local" and n["pat"]["k"] == "PIdent" and n["init"] is not None:
            env.setdefault(n["pat"]["name"], []).append(n["init"])
            order[id(n["init"])] = i
    so = env.get("stdout_writer", [None])[0]
    sa = env.get("sarif_writer", [None])[0]
    if so is None or sa is None:
        return ctx.missing(R, "main/writers")
    c1, b1 = filter_chain(so)
    c2, b2 = filter_chain(sa)

    def norm(chain, scope_node):
        res = []
        for f, args in chain:
            a2 = []
            for a in args:
                a = a.lstrip("&")
                # resolve local copies:  let allow_list = options.allow_list.clone();
                # (the binding in force where this writer is built: the last one before it)
                for name, inits in env.items():
                    if a == name:
                        before = [x for x in inits if order[id(x)] < order.get(id(scope_node), 1 << 30)] or inits
                        a = render(strip(before[-1]))
                        if a.endswith(".clone()"):
                            a = a[:-len(".clone()")]
                a2.append(a)
            res.append((f, tuple(a2)))
        return sorted(res)

    n1, n2 = norm(c1, so), norm(c2, sa)
    ctx.table("stdout filters", [str(x) for x in n1])
    ctx.table("sarif filters", [str(x) for x in n2])
    ctx.check(R, "main/same-filters", n1 == n2 and len(n1) >= 3, "stdout: %s ; sarif: %s" % (n1, n2), site(MAIN, sa))
    # the option fields the filters read are not changed between the two writers
    muts = [render(x) for x in walk(fn["body"]) if (x["k"] == "Ref" and x.get("mut") and render(strip(x["e"])).replace(" ", "").startswith("options")) or ((x["k"] in ("Assign", "AssignOp") or (x["k"] == "Binary" and x.get("op", "").endswith("=") and x["op"] not in ("==", "!=", "<=", ">="))) and render(strip(x["l"])).replace(" ", "").startswith("options."))]
    ctx.check(R, "main/options-not-modified", not muts, "options is modified in main: %s" % muts[:3], site(MAIN, fn))
    want = {"filter_by_level", "filter_by_file", "filter_by_id"}
    ctx.check(R, "main/all-three-filters-installed", {f for f, _ in n1} == want, "installed: %s" % sorted({f for f, _ in n1}), site(MAIN, so))
    ctx.check(R, "main/stdout-writer-caches", "CachedStdoutWriter::new" in render(b1), render(b1)[:80], site(MAIN, so))
    # the filters are applied to the report the closure receives
    for f, args in c1 + c2:
        ctx.check(R, "main/filter-applied-to-its-report/" + f, args and args[0] == "report", "%s%s" % (f, args))
    sw = [c for c in method_calls(fn["body"], "write_reports") if render(strip(c["recv"])) == "sarif_writer"]
    ok = len(sw) == 1 and render(strip(sw[0]["args"][0])).replace(" ", "") == "stdout_writer.reports()"
    ctx.check(R, "main/sarif-fed-from-stdout-cache", ok, "sarif_writer.write_reports(%s, ..)" % (render(sw[0]["args"][0]) if sw else "?"), site(MAIN, fn))
    # everything written to stdout goes through the caching writer
    direct = [c for c in method_calls(fn["body"], "write_reports") if render(strip(c["recv"])) not in ("sarif_writer", "stdout_writer")]
    ctx.check(R, "main/no-other-report-sink", not direct, str([render(d)[:60] for d in direct]))
    an = [c for c in walk(fn["body"]) if c["k"] == "MethodCall" and c["method"] in ("analyze_functions", "analyze_templates")]
    ctx.check(R, "main/analysis-writes-to-the-caching-writer", len(an) == 2 and all(render(strip(a["args"][0])) == "stdout_writer" for a in an), str([render(a)[:80] for a in an]))
    first = [c for c in method_calls(fn["body"], "write_reports") if render(strip(c["recv"])) == "stdout_writer"]
    ctx.check(R, "main/parser-reports-written", len(first) == 1 and render(strip(first[0]["args"][0])) == "reports", "stdout_writer.write_reports(%s)" % (render(first[0]["args"][0]) if first else "?"))
    # CachedStdoutWriter::write_reports caches all, delegates
    w = None
    for q, f in fns_in_file(WR):
        if f["name"] == "write_reports" and "CachedStdoutWriter" in q:
            w = f
    if w is None:
        return ctx.missing(R, "CachedStdoutWriter::write_reports")
    t = render(w["body"]).replace(" ", "")
    pvw = sgrep.params(w)
    tl = block_tail(w["body"])
    lenv_w = sgrep.lets(w["body"])
    # every offered report is cached: extend / extend_from_slice with the parameter, or an unconditional push per element
    cached = len(pvw) == 2 and (sgrep.has(w["body"], "self.reports.extend(__rs.iter().cloned())", None, {"__rs": pvw[0]}) or sgrep.has(w["body"], "self.reports.extend_from_slice(__rs)", None, {"__rs": pvw[0]}) or sgrep.has(w["body"], "self.reports.extend(__rs.to_vec())", None, {"__rs": pvw[0]}))
    if not cached and len(pvw) == 2:
        for lp in [n for n in walk(w["body"]) if n["k"] == "For" and render(strip(n["iter"])).replace(" ", "") in (pvw[0], pvw[0] + ".iter()")]:
            xv = render(lp["pat"]).replace("&", "").strip()
            ps = [p_ for p_ in method_calls(lp["body"], "push") if render(strip(p_["recv"])) == "self.reports" and render(strip(p_["args"][0])) == xv]
            if len(ps) == 1 and not (conditions_to(lp["body"], ps[0]) or []) and not [x for x in walk(lp["body"]) if x["k"] in ("Break", "Continue", "Return")]:
                cached = True
    # .. and all of them are handed to the inner writer, whose count is returned (the writer may be named by a let)
    delegated = tl is not None and len(pvw) == 2 and (sgrep.match(sgrep.pattern("self.writer.write_reports(__rs, __fl)"), tl, {"__rs": pvw[0], "__fl": pvw[1]}, lenv_w) or any(sgrep.match(sgrep.pattern("%s.write_reports(__rs, __fl)" % k_), tl, {"__rs": pvw[0], "__fl": pvw[1]}, lenv_w) for k_, v_ in lenv_w.items() if render(strip(v_)) == "self.writer"))
    ok = cached and delegated
    ctx.check(R, "CachedStdoutWriter::write_reports/cache-all-then-delegate", ok and not [n for n in walk(w["body"]) if n["k"] in ("If", "Match")], t[:200], site(WR, w))
    rp = find_fn(WR, "reports", "CachedStdoutWriter")
    if rp is not None:
        tt = result_expr(rp)
        ctx.check(R, "CachedStdoutWriter::reports", tt is not None and render(strip(tt)) == "self.reports", render(tt))
    # SarifWriter::write_reports filters then serialises exactly the filtered set
    sw_ = None
    for q, f in fns_in_file(WR):
        if f["name"] == "write_reports" and "SarifWriter" in q:
            sw_ = f
    if sw_ is not None:
        env2 = sgrep.lets(sw_["body"])
        pvs = sgrep.params(sw_)
        ser = list(method_calls(sw_["body"], "serialize_reports"))
        # (the filtered collection may shadow the parameter's name: resolve exactly one level)
        arg0 = strip(ser[0]["args"][0]) if len(ser) == 1 else None
        ok = arg0 is not None and bool(pvs) and arg0["k"] == "Path" and arg0["path"] in env2 and render(strip(env2[arg0["path"]])).replace(" ", "") == "self.filter(%s)" % pvs[0]
        ctx.check(R, "SarifWriter::write_reports/serialises-the-filtered-set", ok, render(sw_["body"])[:160], site(WR, sw_))
        # .. on every call: the file must reflect this run even when nothing passed the filters (no stale file)
        cs_ = (conditions_to(sw_["body"], ser[0]) or []) if len(ser) == 1 else None
        ctx.check(R, "SarifWriter::write_reports/serialises-unconditionally", cs_ is not None and not cs_, "serialize_reports is only reached under %s" % (facts_str(cs_) if cs_ else "?"), site(WR, sw_))
    rule_sarif_file(ctx, R)
    # SARIF result fields come from the report
    ts = None
    for q, f in fns_in_file(SC):
        if f["name"] == "to_sarif" and q.replace(" ", "") == "ToSarifforReport":
            ts = f
    if ts is None:
        ctx.missing(R, "ToSarif for Report")
    elif not eval_report_to_sarif(ctx, R, ts):
        from astlib import inline_helpers

        ts = inline_helpers(ts, SC)
        env3 = let_env(ts["body"])
        exp = {"level": "self.category().to_level()", "rule_id": "self.id()"}
        for k, v in exp.items():
            ctx.check(R, "Report::to_sarif/" + k, any(render(strip(x)).replace(" ", "") == v for x in env3.values()), "a local bound to %s" % v, site(SC, ts))
        t = render(ts["body"]).replace(" ", "")
        pvs = sgrep.params(ts)
        bf = {"__fl": pvs[0]} if pvs else None
        lp = [k for k, v in env3.items() if sgrep.has(v, "self.primary().iter().map(|__l| __l.to_sarif(__fl))", None, bf)]
        ls = [k for k, v in env3.items() if sgrep.has(v, "self.secondary().iter().map(|__l| __l.to_sarif(__fl))", None, bf)]
        lm = [k for k, v in env3.items() if sgrep.has(v, "__b.text(self.message())")]
        lv = [k for k, v in env3.items() if render(strip(v)).replace(" ", "") == "self.category().to_level()"]
        li = [k for k, v in env3.items() if render(strip(v)).replace(" ", "") == "self.id()"]
        ctx.check(R, "Report::to_sarif/locations-from-primary", len(lp) == 1, str(lp), site(SC, ts))
        ctx.check(R, "Report::to_sarif/related-from-secondary", len(ls) == 1, str(ls), site(SC, ts))
        ctx.check(R, "Report::to_sarif/message", len(lm) == 1, str(lm), site(SC, ts))
        bld = {}
        for m_ in walk(ts["body"]):
            if m_["k"] == "MethodCall" and m_["method"] in ("level", "rule_id", "locations", "related_locations", "message") and m_["args"] and "ResultBuilder" in render(m_["recv"]):
                bld[m_["method"]] = render(strip(m_["args"][0]))
        wantb = {"level": lv, "rule_id": li, "locations": lp, "related_locations": ls, "message": lm}
        for fld, names in wantb.items():
            ctx.check(R, "Report::to_sarif/builder.%s" % fld, bld.get(fld) in names, "ResultBuilder.%s(%s), expected one of %s" % (fld, bld.get(fld), names), site(SC, ts))
    tc = None
    for q, f in fns_in_file(SC):
        if f["name"] == "to_sarif" and q.replace(" ", "") == "ToSarifforReportCollection":
            tc = f
    if tc is not None and not eval_collection_to_sarif(ctx, R, tc):
        t = render(tc["body"]).replace(" ", "")
        pvc = sgrep.params(tc)
        ctx.check(R, "ReportCollection::to_sarif/one-result-per-report", bool(pvc) and sgrep.has(tc["body"], "self.iter().map(|__r| __r.to_sarif(__fl)).collect::<SarifResult<Vec<_>>>()", None, {"__fl": pvc[0]}), "", site(SC, tc))
        ctx.check(R, "ReportCollection::to_sarif/rules-keyed-by-name-and-id", sgrep.has(tc["body"], "self.iter().map(|__r| (__r.name(), __r.id())).collect::<HashSet<_>>()"), "", site(SC, tc))


def eval_report_to_sarif(ctx, R, ts):
    """`Report::to_sarif` by evaluation: the SARIF builders record what they are given; the report has 0..2 primary
    and secondary labels whose conversion succeeds or fails.  The built result must carry the report's level, id and
    message, one location per primary label and one related location per secondary label, in order; a label that
    cannot be converted makes the conversion fail.  Returns True when decided."""
    import itertools

    import passeval
    from finfun import S, Unsupported
    from passeval import O, Panic, Sink

    try:
        w = passeval.PassWorld([], SC)
    except Exception:  # noqa: BLE001
        return False
    w.lenient_opaque = True

    def builder(kind):
        fields = {}
        me = []

        def call(m, args):
            if m == "build" and not args:
                return S("Ok", ("BUILT", kind, dict(fields)))
            if len(args) != 1:
                raise Unsupported("builder method %s with %d arguments" % (m, len(args)))
            fields[m] = args[0]
            return me[0]

        me.append(("O", "builder:" + kind, (("*", ("PY", call)),)))
        return me[0]

    def sarif_fn(name, args):
        if name.endswith("Builder::default") and not args:
            return builder(name[: -len("Builder::default")])
        return ("K", "sarif::" + name, tuple(args))

    w.opaque = (("sarif::", sarif_fn),)

    def aslist(x):
        if isinstance(x, Sink):
            return list(x.items)
        if isinstance(x, tuple) and x and x[0] == "L":
            return list(x[1])
        return None

    bad = {}
    n = 0
    files = O("files")
    for np_, ns_ in itertools.product((0, 1, 2), (0, 2)):
        for fail in [None] + [("p", i) for i in range(np_)] + [("s", i) for i in range(ns_)]:
            locs = {}

            def label(kind, i, fail=fail, locs=locs):
                # a location with a concrete region: the first secondary label lies before every primary one, the second after
                line = 10 + i if kind == "p" else (3 if i == 0 else 40)
                loc = O("location-of-%s%d" % (kind, i), physical_location=S("Some", O("physical-location", region=S("Some", O("region", start_line=S("Some", line), end_line=S("Some", line), start_column=S("Some", 1), end_column=S("Some", 2))))))
                locs[(kind, i)] = loc
                err = O("error-of-%s%d" % (kind, i))
                locs[("err", kind, i)] = err

                def to_sarif(f_):
                    if f_ is not files:
                        raise Unsupported("label converted with %r" % (f_,))
                    return S("Err", err) if fail == (kind, i) else S("Ok", loc)

                return ("O", "label:%s%d" % (kind, i), (("to_sarif", ("PY", to_sarif)),))

            LEVEL, ID, MSG = O("level"), O("id"), O("message")
            prim = ("L", tuple(label("p", i) for i in range(np_)))
            sec = ("L", tuple(label("s", i) for i in range(ns_)))
            rep = ("O", "report", (("category", O("category", to_level=LEVEL)), ("id", ID), ("message", MSG), ("primary", prim), ("secondary", sec), ("name", O("name"))))
            tag = "%d primary, %d secondary label(s)%s" % (np_, ns_, "" if fail is None else ", %s%d cannot be converted" % fail)
            try:
                res = w.call_fn(ts, [rep, files])
            except Unsupported as u:
                ctx.note("Report::to_sarif is outside the evaluator's subset (%s): shape obligations apply" % u)
                return False
            except Panic as p_:
                bad.setdefault("error", "%s: panics (%s)" % (tag, p_))
                continue
            n += 1
            if not (isinstance(res, tuple) and len(res) > 2 and res[0] == "S" and res[1] in ("Ok", "Err")):
                raise_ = "%s: returns %r" % (tag, res)
                bad.setdefault("error", raise_)
                continue
            if fail is not None:
                if res[1] != "Err":
                    bad.setdefault("error", "%s: the conversion succeeds" % tag)
                continue
            if res[1] != "Ok" or not (isinstance(res[2][0], tuple) and res[2][0][0] == "BUILT" and res[2][0][1] == "Result"):
                bad.setdefault("error", "%s: returns %r" % (tag, res))
                continue
            f = res[2][0][2]
            if f.get("level") is not LEVEL:
                bad.setdefault("level", "%s: level is %r" % (tag, f.get("level")))
            if f.get("rule_id") is not ID:
                bad.setdefault("rule_id", "%s: rule_id is %r" % (tag, f.get("rule_id")))
            m_ = f.get("message")
            if not (isinstance(m_, tuple) and m_[0] == "BUILT" and m_[1] == "Message" and m_[2].get("text") is MSG):
                bad.setdefault("message", "%s: message is %r" % (tag, m_))
            r_ = f.get("rule")
            if r_ is not None and not (isinstance(r_, tuple) and r_[0] == "BUILT" and r_[2].get("id") is ID):
                bad.setdefault("rule_id", "%s: rule is %r" % (tag, r_))
            for fld, kind, cnt in (("locations", "p", np_), ("related_locations", "s", ns_)):
                got = aslist(f.get(fld))
                want = [locs[(kind, i)] for i in range(cnt)]
                if got is None or len(got) != len(want) or any(a is not b for a, b in zip(got, want)):
                    bad.setdefault(fld, "%s: %s = %s" % (tag, fld, [g[1] if isinstance(g, tuple) and len(g) > 1 else g for g in (got or [])] if got is not None else f.get(fld)))
    ctx.floor(R, "report worlds evaluated (to_sarif)", n, 15)
    for fld, text in (("level", "the level of the report's category"), ("rule_id", "the report's id (also in the rule reference)"), ("message", "the report's message"), ("locations", "one location per primary label, in order"), ("related_locations", "one related location per secondary label, in order")):
        ctx.check(R, "Report::to_sarif/builder.%s" % fld, fld not in bad, bad.get(fld, text), site(SC, ts))
    ctx.check(R, "Report::to_sarif/label-errors-propagate", "error" not in bad, bad.get("error", "a label that cannot be converted fails the conversion; otherwise a Result is built"), site(SC, ts))
    return True


def _sarif_world():
    """an evaluator for sarif_conversion.rs whose `sarif::*Builder`s record what they are given"""
    import passeval
    from finfun import S, Unsupported

    w = passeval.PassWorld([SC], SC)
    w.lenient_opaque = True

    def builder(kind):
        fields = {}
        me = []

        def call(m, args):
            if m == "build" and not args:
                return S("Ok", ("BUILT", kind, dict(fields)))
            if len(args) != 1:
                raise Unsupported("builder method %s with %d arguments" % (m, len(args)))
            fields[m] = args[0]
            return me[0]

        me.append(("O", "builder:" + kind, (("*", ("PY", call)),)))
        return me[0]

    def sarif_fn(name, args):
        if name.endswith("Builder::default") and not args:
            return builder(name[: -len("Builder::default")])
        return ("K", "sarif::" + name, tuple(args))

    w.opaque = (("sarif::", sarif_fn),)
    return w


def _built(x, kind):
    return isinstance(x, tuple) and len(x) == 3 and x[0] == "BUILT" and x[1] == kind


def eval_label_to_sarif(ctx, R, fn):
    """`ReportLabel::to_sarif` by evaluation: the storage answers a location query for (file, offset) with a line and a
    column that encode the offset; the region built must carry the line / column of the label's start offset and of
    its end offset, and the artifact the uri of the label's file.  Returns True when decided."""
    from finfun import S, Unsupported
    from passeval import O, Panic

    try:
        w = _sarif_world()
    except Exception:  # noqa: BLE001
        return False
    bad = {}
    n = 0
    for start, end, fail in ((10, 25, None), (0, 0, None), (7, 400, None), (10, 25, "start"), (10, 25, "end"), (10, 25, "uri")):
        URI, MSG = O("uri"), ("O", "message", ())
        files_holder = []

        def to_uri(f_, fail=fail, URI=URI):
            if f_ is not files_holder[0]:
                raise Unsupported("to_uri asked with %r" % (f_,))
            return S("Err", O("unknown-file")) if fail == "uri" else S("Ok", URI)

        fid = ("O", "file_id", (("to_uri", ("PY", to_uri)),))

        def location(f_, off, fail=fail, start=start, end=end, fid=fid):
            if f_ is not fid or not isinstance(off, int):
                raise Unsupported("location asked with (%r, %r)" % (f_, off))
            if (fail == "start" and off == start) or (fail == "end" and off == end):
                return S("Err", O("no-such-location"))
            return S("Ok", ("O", "location@%d" % off, (("line_number", 1000 + off), ("column_number", 5000 + off))))

        storage = ("O", "storage", (("location", ("PY", location)),))
        files = ("O", "files", (("to_storage", storage),))
        files_holder.append(files)
        rng = ("O", "range", (("start", start), ("end", end)))
        label = ("O", "label", (("file_id", fid), ("range", rng), ("message", MSG)))
        tag = "label %d..%d%s" % (start, end, "" if fail is None else ", %s lookup fails" % fail)
        try:
            res = w.call_fn(fn, [label, files])
        except Unsupported as u:
            ctx.note("ReportLabel::to_sarif is outside the evaluator's subset (%s): shape obligations apply" % u)
            return False
        except Panic as p_:
            bad.setdefault("error", "%s: panics (%s)" % (tag, p_))
            continue
        n += 1
        if not (isinstance(res, tuple) and len(res) > 2 and res[0] == "S" and res[1] in ("Ok", "Err")):
            bad.setdefault("error", "%s: returns %r" % (tag, res))
            continue
        if fail is not None:
            if res[1] != "Err":
                bad.setdefault("error", "%s: the conversion succeeds" % tag)
            continue
        loc = res[2][0]
        ph = loc[2].get("physical_location") if _built(loc, "Location") and res[1] == "Ok" else None
        if not _built(ph, "PhysicalLocation"):
            bad.setdefault("error", "%s: returns %r" % (tag, res))
            continue
        reg, art = ph[2].get("region"), ph[2].get("artifact_location")
        want = {"start_line": 1000 + start, "start_column": 5000 + start, "end_line": 1000 + end, "end_column": 5000 + end}
        for k_, v_ in want.items():
            got = reg[2].get(k_) if _built(reg, "Region") else None
            if got != v_:
                what = "nothing" if got is None else ("the %s of offset %d" % ("line" if 1000 <= got < 5000 else "column", got % 1000 if got < 5000 else got - 5000) if isinstance(got, int) else repr(got))
                bad.setdefault(k_, "%s: %s is %s" % (tag, k_, what))
        if not (_built(art, "ArtifactLocation") and art[2].get("uri") is URI):
            bad.setdefault("uri", "%s: artifact location is %r" % (tag, art))
        m_ = loc[2].get("message")
        if not (_built(m_, "Message") and m_[2].get("text") is MSG):
            bad.setdefault("message", "%s: message is %r" % (tag, m_))
    ctx.floor(R, "label worlds evaluated (to_sarif)", n, 6)
    for k_ in ("start_line", "start_column", "end_line", "end_column"):
        ctx.check(R, "ReportLabel::to_sarif/" + k_, k_ not in bad, bad.get(k_, "from the storage's lookup of the label's %s offset in the label's file" % k_.split("_")[0]), site(SC, fn))
    ctx.check(R, "ReportLabel::to_sarif/uri-of-the-label-file", "uri" not in bad, bad.get("uri", "the uri of the label's file id"), site(SC, fn))
    ctx.check(R, "ReportLabel::to_sarif/message-and-errors", "message" not in bad and "error" not in bad, bad.get("message") or bad.get("error") or "the label's message; a failing lookup fails the conversion", site(SC, fn))
    return True


def eval_collection_to_sarif(ctx, R, fn):
    """`ReportCollection::to_sarif` by evaluation: one result per report, in order; one rule per distinct
    (name, id); a report that cannot be converted fails the conversion.  Returns True when decided."""
    from finfun import S, Unsupported
    from passeval import O, Panic, Sink

    try:
        w = _sarif_world()
    except Exception:  # noqa: BLE001
        return False

    def aslist(x):
        if isinstance(x, Sink):
            return list(x.items)
        if isinstance(x, tuple) and x and x[0] == "L":
            return list(x[1])
        return None

    bad = {}
    n = 0
    NAMES = {k_: ("O", "name:" + k_, ()) for k_ in "AB"}
    IDS = {k_: ("O", "id:" + k_, ()) for k_ in "AB"}
    for kinds, fail in (("", None), ("A", None), ("AB", None), ("AAB", None), ("ABAB", None), ("AAA", None), ("AB", 1), ("AAB", 0)):
        files = O("files")
        results = [O("result#%d" % i) for i in range(len(kinds))]

        def mk(i, k_, fail=fail, files=files, results=results):
            def to_sarif(f_):
                if f_ is not files:
                    raise Unsupported("report converted with %r" % (f_,))
                return S("Err", O("error#%d" % i)) if fail == i else S("Ok", results[i])

            return ("O", "report#%d" % i, (("name", NAMES[k_]), ("id", IDS[k_]), ("to_sarif", ("PY", to_sarif))))

        coll = ("L", tuple(mk(i, k_) for i, k_ in enumerate(kinds)))
        tag = "reports of kinds %s%s" % (list(kinds), "" if fail is None else ", report %d cannot be converted" % fail)
        try:
            res = w.call_fn(fn, [coll, files])
        except Unsupported as u:
            ctx.note("ReportCollection::to_sarif is outside the evaluator's subset (%s): shape obligations apply" % u)
            return False
        except Panic as p_:
            bad.setdefault("error", "%s: panics (%s)" % (tag, p_))
            continue
        n += 1
        if not (isinstance(res, tuple) and len(res) > 2 and res[0] == "S" and res[1] in ("Ok", "Err")):
            bad.setdefault("error", "%s: returns %r" % (tag, res))
            continue
        if fail is not None:
            if res[1] != "Err":
                bad.setdefault("error", "%s: the conversion succeeds" % tag)
            continue
        top = res[2][0]
        runs = aslist(top[2].get("runs")) if _built(top, "Sarif") and res[1] == "Ok" else None
        if not runs or len(runs) != 1 or not _built(runs[0], "Run"):
            bad.setdefault("error", "%s: returns %r" % (tag, res))
            continue
        got = aslist(runs[0][2].get("results"))
        if got is None or len(got) != len(results) or any(a is not b for a, b in zip(got, results)):
            bad.setdefault("results", "%s: %s result(s), expected the %d converted reports in order" % (tag, len(got) if got is not None else "no", len(results)))
        tool = runs[0][2].get("tool")
        drv = tool[2].get("driver") if _built(tool, "Tool") else None
        rules = aslist(drv[2].get("rules")) if _built(drv, "ToolComponent") else None
        pairs = sorted((r_[2].get("name")[1], r_[2].get("id")[1]) for r_ in (rules or []) if _built(r_, "ReportingDescriptor") and isinstance(r_[2].get("name"), tuple) and isinstance(r_[2].get("id"), tuple))
        want = sorted(("name:" + k_, "id:" + k_) for k_ in set(kinds))
        if rules is None or len(rules) != len(pairs) or pairs != want:
            bad.setdefault("rules", "%s: rules %s, expected %s" % (tag, pairs if rules is not None else None, want))
    ctx.floor(R, "collection worlds evaluated (to_sarif)", n, 8)
    ctx.check(R, "ReportCollection::to_sarif/one-result-per-report", "results" not in bad and "error" not in bad, bad.get("results") or bad.get("error") or "every report converted, in order; a failing report fails the conversion", site(SC, fn))
    ctx.check(R, "ReportCollection::to_sarif/rules-keyed-by-name-and-id", "rules" not in bad, bad.get("rules", "one rule per distinct (name, id)"), site(SC, fn))
    return True


def rule_sarif_file(ctx, R):
    """the SARIF file holds this run's serialisation and nothing else: it is opened truncating (a file left by an
    earlier run with more findings would otherwise keep its tail), under the configured path, and what is written
    is the JSON text of `reports.to_sarif(..)` of the collection handed in"""
    sr = None
    for q, f in fns_in_file(WR):
        if f["name"] == "serialize_reports" and "SarifWriter" in q:
            sr = f
    if sr is None:
        return ctx.missing(R, "SarifWriter::serialize_reports")
    pvs = sgrep.params(sr)
    env = let_env(sr["body"])

    def resolve(e, depth=0):
        e = strip(e)
        while e["k"] in ("Ref", "Try") or (e["k"] == "MethodCall" and e["method"] in ("context", "with_context", "map_err", "clone", "as_str", "as_bytes", "to_string", "as_ref", "unwrap", "expect", "as_path", "to_path_buf", "to_owned", "as_os_str")):
            e = strip(e["e"] if e["k"] in ("Ref", "Try") else e["recv"])
        if e["k"] == "Path" and e["path"] in env and depth < 6:
            return resolve(env[e["path"]], depth + 1)
        return e

    opens = []
    for n in walk(sr["body"]):
        if n["k"] == "Call" and n["func"]["k"] == "Path":
            p_ = n["func"]["path"]
            if p_.endswith("File::create") or p_ in ("fs::write", "std::fs::write", "File::create_new", "fs::File::create", "std::fs::File::create"):
                opens.append(("truncating", n, n["args"][0] if n["args"] else None))
            elif p_.endswith("File::open") or p_.endswith("File::options"):
                opens.append(("not truncating", n, n["args"][0] if n["args"] else None))
        if n["k"] == "MethodCall" and n["method"] == "open" and len(n["args"]) == 1 and "OpenOptions" in render(n["recv"]):
            chain = {}
            r_ = n["recv"]
            while r_["k"] == "MethodCall":
                chain[r_["method"]] = render(strip(r_["args"][0])) if r_["args"] else ""
                r_ = strip(r_["recv"])
            trunc = chain.get("truncate") == "true" and chain.get("write") == "true" and chain.get("append", "false") == "false"
            opens.append(("truncating" if trunc else "not truncating", n, n["args"][0]))
    ok = len(opens) == 1 and opens[0][0] == "truncating" and opens[0][2] is not None and render(resolve(opens[0][2])).replace(" ", "") == "self.sarif_file"
    ctx.check(R, "SarifWriter::serialize_reports/file-truncated-under-the-configured-path", ok, "the output file is opened by %s" % [("%s (%s)" % (render(n_)[:80], how)) for how, n_, _a in opens], site(WR, sr))
    # what is written
    written = []
    for n in walk(sr["body"]):
        if n["k"] == "Macro" and last(n["name"]) in ("write", "writeln") and n.get("parsed") and len(n.get("args") or []) >= 2:
            fmt = n["args"][1]
            fv = str(fmt.get("value")) if fmt.get("k") == "Lit" else ""
            cap = re.fullmatch(r"\{(\w+)\}", fv)
            if fv == "{}":
                written.append((n, n["args"][2:]))
            elif cap and len(n["args"]) == 2:
                written.append((n, [{"k": "Path", "path": cap.group(1), "line": n.get("line", 0)}]))  # `{json}`: the captured variable
            else:
                written.append((n, None))
        elif n["k"] == "MethodCall" and n["method"] in ("write_all", "write") and len(n["args"]) == 1 and n["recv"].get("k") in ("Path", "Ref", "MethodCall"):
            written.append((n, n["args"]))
        elif n["k"] == "Call" and n["func"]["k"] == "Path" and n["func"]["path"] in ("fs::write", "std::fs::write") and len(n["args"]) == 2:
            written.append((n, n["args"][1:]))
    okw = False
    det = "writes: %s" % [render(n_)[:80] for n_, _a in written]
    if len(written) == 1 and written[0][1] and len(written[0][1]) == 1:
        j = resolve(written[0][1][0])
        if j["k"] == "Call" and j["func"]["k"] == "Path" and re.search(r"serde_json::to_(string|string_pretty|vec|vec_pretty)$", j["func"]["path"]) and len(j["args"]) == 1:
            sv = resolve(j["args"][0])
            okw = len(pvs) >= 2 and sv["k"] == "MethodCall" and sv["method"] == "to_sarif" and render(strip(sv["recv"])) == pvs[0] and len(sv["args"]) == 1 and render(resolve(sv["args"][0])) == pvs[1]
            det = "the text written is %s of %s" % (j["func"]["path"], render(sv)[:80])
        cs_ = [c for c in (conditions_to(sr["body"], written[0][0]) or []) if c[0] != "notall" or "Err" not in fact_str(c)]
        okw = okw and not [c for c in cs_ if c[0] in ("if", "iflet", "arm", "loop")]
    ctx.check(R, "SarifWriter::serialize_reports/writes-the-serialisation-of-the-given-reports", okw, det, site(WR, sr))


def rule_region(ctx, R="C03.8"):
    ctx.rule(R, "SARIF regions: start line/column come from the renderer's own location lookup of the label's start offset, end line/column from the lookup of its end offset (same file id)")
    fn = None
    for q, f in fns_in_file(SC):
        if f["name"] == "to_sarif" and q.replace(" ", "") == "ToSarifforReportLabel":
            fn = f
    if fn is None:
        return ctx.missing(R, "ToSarif for ReportLabel")
    if eval_label_to_sarif(ctx, R, fn):
        return
    env = let_env(fn["body"])

    def lookup(name):
        e = env.get(name)
        if e is None:
            return None
        for c in method_calls(e, "location"):
            r_ = strip(c["recv"])
            if r_["k"] == "Path" and r_["path"] in env:
                r_ = strip(env[r_["path"]])  # `let storage = files.to_storage();`
            from pathcond import _subst

            simple = {k_: v_ for k_, v_ in env.items() if strip(v_).get("k") in ("Field", "Path") or (strip(v_).get("k") == "MethodCall" and strip(v_)["method"] in ("clone",) and not strip(v_)["args"])}
            return (render(r_).replace(" ", ""), tuple(render(strip(_subst(a, simple))).replace(" ", "").replace(".clone()", "") for a in c["args"]))
        return None

    builder = None
    for n in walk(fn["body"]):
        if n["k"] == "MethodCall" and n["method"] == "build" and "RegionBuilder" in render(n["recv"]):
            builder = n["recv"]
    if builder is None:
        return ctx.missing(R, "RegionBuilder chain")
    fields = {}
    e = builder
    while e["k"] == "MethodCall":
        if e["args"]:
            a = strip(e["args"][0])
            while a["k"] == "Cast":
                a = strip(a["e"])
            fields[e["method"]] = a
        e = e["recv"]
    want = {"start_line": ("start", "line_number"), "start_column": ("start", "column_number"), "end_line": ("end", "line_number"), "end_column": ("end", "column_number")}
    srcs = {"start": "self.range.start", "end": "self.range.end"}
    for m, (var, fld) in want.items():
        a = fields.get(m)
        ok = False
        det = render(a) if a else "missing"
        if a is not None and a["k"] == "Field" and a["member"] == fld and a["base"]["k"] == "Path":
            lk = lookup(a["base"]["path"])
            det += " where %s = location%s" % (a["base"]["path"], lk)
            ok = lk is not None and lk[0].endswith("to_storage()") and lk[1] == ("self.file_id", srcs[var])
        ctx.check(R, "ReportLabel::to_sarif/" + m, ok, det, site(SC, fn))
    # the artifact uri: the argument of `.uri(..)`, through lets, is `self.file_id.to_uri(files)`
    from pathcond import _subst as _sb

    simple_ = {k_: v_ for k_, v_ in env.items() if strip(v_).get("k") in ("Field", "Path")}
    uris = [m_ for m_ in walk(fn["body"]) if m_["k"] == "MethodCall" and m_["method"] == "uri" and len(m_["args"]) == 1]
    uri = None
    if len(uris) == 1:
        uri = strip(uris[0]["args"][0])
        if uri["k"] == "Path" and uri["path"] in env:
            uri = strip(env[uri["path"]])
        uri = _sb(uri, simple_)
    ctx.check(R, "ReportLabel::to_sarif/uri-of-the-label-file", uri is not None and render(strip(uri)).replace(" ", "").startswith("self.file_id.to_uri(files)"), render(uri) if uri else "?", site(SC, fn))


NARROWING = ("filter", "filter_map", "take", "skip", "take_while", "skip_while", "step_by", "dedup", "dedup_by", "dedup_by_key", "retain", "retain_mut", "truncate", "remove", "swap_remove", "drain", "clear", "pop", "split_off", "unique")


def rule_no_narrowing(ctx, R):
    """between production and display nothing removes reports except the user's filters: the runner and the writers
    never narrow a report collection (de-duplication keyed by text or position drops distinct findings, and which one
    survives depends on hash order)"""
    n = 0
    for file, quals in ((RUN, None), (WR, None)):
        for q, f in fns_in_file(file):
            if not f.get("body"):
                continue
            if file == WR and f["name"] == "filter":
                continue  # the user's filters: checked by C03.2 (conjunction of all filters, nothing else)
            if file == RUN and f["name"].startswith(("take_", "function_names", "template_names")):
                continue  # draining a cache / selecting definitions is not narrowing a report collection
            n += 1
            bad = []
            for m in walk(f["body"]):
                if m["k"] == "MethodCall" and m["method"] in NARROWING:
                    recv = render(strip(m["recv"]))
                    if re.search(r"report", recv, re.I) or recv in ("reports", "self.reports"):
                        bad.append("%s.%s(..)" % (recv[:30], m["method"]))
            ctx.check(R, "%s::%s/no-narrowing" % ((q or file.rsplit("/", 1)[-1]), f["name"]), not bad, "report collections are narrowed: %s" % bad, site(file, f))
    ctx.floor(R, "runner and writer functions", n, 15)
    # the same, type-resolved and program-wide (MIR): a narrowing operation whose element type is Report
    import os

    if os.environ.get("VERIF_SKIP_MIR_RULES") == "1":
        return ctx.note("%s type-resolved narrowing scan skipped (VERIF_SKIP_MIR_RULES=1)" % R)
    import dropflow
    import mirlib

    ALLOWED = {
        r"utils::writers::(StdoutWriter|SarifWriter)::filter(::\{closure#\d+\})*$": "the user's filters (C03.2: conjunction of all filters, nothing else)",
        r"analysis_runner::AnalysisRunner::take_(function|template)_reports$": "draining the per-definition cache hands the whole entry to the writer",
    }
    k = scanned = 0
    for fid, fn in sorted(mirlib.index().items()):
        if fn.get("gen") or dropflow._is_test(fn):
            continue
        for _i, t in mirlib.calls_of(fn):
            p_ = t.get("pretty") or ""
            m_ = re.search(r"::(\w+)$", p_)
            scanned += 1
            g_ = t.get("gargs") or []
            # the element type of the receiver: Self of an iterator adaptor / T of a Vec method / V of a map method
            elem = [g_[0]] if g_ else []
            if "HashMap" in p_ or "BTreeMap" in p_:
                elem = g_[1:2]
            if not m_ or m_.group(1) not in NARROWING or t.get("exp") or not any("report::Report" in g for g in elem):
                continue
            k += 1
            why = [w for pat, w in ALLOWED.items() if re.search(pat, fn["pretty"])]
            ctx.check(R, "%s/no-narrowing/%s" % (fn["pretty"], m_.group(1)), bool(why), why[0] if why else "%s on %s: reports are removed between production and display (which ones depends on the order files and definitions were processed in)" % (m_.group(1), [dropflow.short_ty(g) for g in t["gargs"]][:2]), (fn["file"], t["line"]))
    ctx.note("%d narrowing operations on report collections, all reviewed" % k)
    ctx.floor(R, "calls scanned for narrowing operations", scanned, 5000)


def rule_cache_append(ctx, R):
    """the per-definition report caches take every report they are handed (no de-duplication, no filter)"""
    for kind in ("template", "function"):
        f = find_fn(RUN, "append_%s_reports" % kind)
        if f is None:
            ctx.missing(R, "append_%s_reports" % kind)
            continue
        pv = sgrep.params(f)
        body = f["body"]
        ok = len(pv) == 2 and (sgrep.has(body, "self.%s_reports.entry(__k).or_default().append(__r)" % kind, sgrep.lets(body), {"__r": pv[1]}) or sgrep.has(body, "self.%s_reports.entry(__k).or_default().extend(__r.drain(..))" % kind, sgrep.lets(body), {"__r": pv[1]}))
        plain = not [n for n in walk(body) if n["k"] in ("If", "Match", "For", "While", "Loop", "Closure")] and not [c for c in walk(body) if c["k"] == "Call" and c["func"]["k"] == "Path" and "::" not in c["func"]["path"]]
        ctx.check(R, "append_%s_reports/appends-everything" % kind, ok and plain, render(body)[:200], site(RUN, f))


def rule_label_passthrough(ctx, R):
    """Report::add_primary / add_secondary store exactly the location and file id they were given"""
    for nm, ctor in (("add_primary", "primary"), ("add_secondary", "secondary")):
        f = find_fn(REP, nm, "Report")
        if f is None:
            ctx.missing(R, "Report::" + nm)
            continue
        pv = sgrep.params(f)
        rebound = [n_["pat"]["name"] for n_ in walk(f["body"]) if n_["k"] == "Local" and n_["pat"].get("k") == "PIdent" and n_["pat"]["name"] in pv[:2]]
        lab = [c for c in walk(f["body"]) if c["k"] == "Call" and c["func"]["k"] == "Path" and c["func"]["path"].endswith("ReportLabel::" + ctor)]
        ok = len(pv) >= 2 and not rebound and len(lab) == 1 and [render(strip(a)) for a in lab[0]["args"]] == [pv[1], pv[0]]
        ctx.check(R, "Report::%s/label-is-the-given-range-and-file" % nm, ok, "parameters %s rebound: %s; label built from %s" % (pv[:2], rebound, [render(a) for a in lab[0]["args"]] if lab else "?"), site(REP, f))


def rule_filter_laws(ctx):
    R = "C03.4"
    ctx.rule(R, "MessageCategory is totally ordered Info < Warning < Error (complete table by abstract evaluation); a report passes the level filter iff category >= level and the allow filter iff its id is not listed; level names parse case-insensitively onto exactly the three categories; SARIF levels are distinct")
    w = World([REP])
    cats = ["Info", "Warning", "Error"]
    if set(w.enums.get("MessageCategory", [])) != set(cats):
        return ctx.missing(R, "enum MessageCategory", str(w.enums.get("MessageCategory")))
    try:
        tab = {}
        for i, a in enumerate(cats):
            for j, b in enumerate(cats):
                c = w.compare(E("MessageCategory", a), E("MessageCategory", b))
                tab["%s,%s" % (a, b)] = c
                ctx.check(R, "Ord for MessageCategory/%s,%s" % (a, b), c == (i > j) - (i < j), "cmp = %d, expected %d" % (c, (i > j) - (i < j)), REP)
        ctx.table("MessageCategory::cmp", tab)
        # partial_cmp consistent
        for a in cats:
            for b in cats:
                r = w.call_method(E("MessageCategory", a), "partial_cmp", [E("MessageCategory", b)])
                exp = {-1: "Less", 0: "Equal", 1: "Greater"}[tab["%s,%s" % (a, b)]]
                ctx.check(R, "PartialOrd for MessageCategory/%s,%s" % (a, b), r != NONE and r[2][0][2] == exp, str(r), REP)
    except Unsupported as u:
        ctx.missing(R, "Ord for MessageCategory", "cannot evaluate: %s" % u)
    # to_level
    fn = find_fn(REP, "to_level")
    if fn is None:
        ctx.missing(R, "MessageCategory::to_level")
    else:
        ms = [m for m in walk(fn["body"]) if m["k"] == "Match"]
        tab = {}
        if ms:
            for a in ms[0]["arms"]:
                lits = [n["value"] for n in walk(a["body"]) if n["k"] == "Lit" and n["lit"] == "str"]
                for v in pat_paths(a["pat"]):
                    tab[last(v)] = lits[0] if lits else None
        ctx.table("to_level", tab)
        ctx.check(R, "MessageCategory::to_level", tab == {"Error": "error", "Warning": "warning", "Info": "note"}, str(tab), site(REP, fn))
    # FromStr
    fs = None
    for q, f in fns_in_file(REP):
        if f["name"] == "from_str" and "MessageCategory" in q:
            fs = f
    if fs is None:
        ctx.missing(R, "FromStr for MessageCategory")
    else:
        ms = [m for m in walk(fs["body"]) if m["k"] == "Match"]
        ok = False
        tab = {}
        if len(ms) == 1:
            from astlib import inline_lets

            scr = render(inline_lets(ms[0]["scrut"], fs["body"])).replace(" ", "")
            lower = "to_lowercase()" in scr or "to_ascii_lowercase()" in scr
            upper = "to_uppercase()" in scr or "to_ascii_uppercase()" in scr
            wild_err = False
            for a in ms[0]["arms"]:
                b = strip(a["body"])
                if a["pat"]["k"] == "PLit":
                    tab[a["pat"]["lit"]["value"]] = last(render(strip(b["args"][0]))) if b["k"] == "Call" and render(b["func"]) == "Ok" else None
                else:
                    wild_err = b["k"] == "Call" and render(b["func"]) == "Err"
            norm = str.lower if lower else (str.upper if upper else None)
            ok = norm is not None and wild_err and all(norm(k) == k for k in tab) and {k.lower(): v for k, v in tab.items()} == {"warning": "Warning", "info": "Info", "error": "Error"}
        ctx.table("MessageCategory::from_str", tab)
        ctx.check(R, "FromStr for MessageCategory", ok, "scrutinee %s, table %s" % (render(ms[0]["scrut"]) if ms else "?", tab), site(REP, fs))
    # filters
    f1 = find_fn(MAIN, "filter_by_level")
    if f1 is None:
        ctx.missing(R, "filter_by_level")
    else:
        t = result_expr(f1)
        tt = render(strip(t)).replace(" ", "") if t else ""
        pv1 = sgrep.params(f1)
        okl = len(pv1) == 2 and t is not None and (sgrep.match(sgrep.pattern("__r.category() >= __l"), t, {"__r": pv1[0], "__l": pv1[1]}, sgrep.lets(f1["body"])) or sgrep.match(sgrep.pattern("__l <= __r.category()"), t, {"__r": pv1[0], "__l": pv1[1]}, sgrep.lets(f1["body"])))
        ctx.check(R, "filter_by_level", bool(okl), tt, site(MAIN, f1))
    f2 = find_fn(MAIN, "filter_by_id")
    if f2 is None:
        ctx.missing(R, "filter_by_id")
    else:
        t = result_expr(f2)
        tt = render(t).replace(" ", "") if t else ""
        pv2 = sgrep.params(f2)
        ctx.check(R, "filter_by_id", len(pv2) == 2 and t is not None and sgrep.match(sgrep.pattern("!__a.contains(__r.id())"), t, {"__r": pv2[0], "__a": pv2[1]}, sgrep.lets(f2["body"])), tt, site(MAIN, f2))
    f3 = find_fn(MAIN, "filter_by_file")
    if f3 is None:
        ctx.missing(R, "filter_by_file")
    else:
        tt = render(f3["body"]).replace(" ", "")
        pv3 = sgrep.params(f3)
        # complete truth table over the label worlds (no label / all labels in user files / none / both) x category
        import reportflow

        for lw, exp in (("empty", {"Error"}), ("user", "all"), ("other", set()), ("mixed", "all")):
            got, d = reportflow.filter_tolerance(lw)
            ctx.check(R, "filter_by_file/table[labels=%s]" % lw, got == exp, "passes %s, expected %s (a report is shown iff one of its primary labels is in a file named by the user, or it is an error without any label): %s" % (sorted(got) if isinstance(got, set) else got, sorted(exp) if isinstance(exp, set) else exp, d[:200]), site(MAIN, f3))
        ctx.check(R, "filter_by_file/primary-label-in-user-input", len(pv3) == 2 and sgrep.has(f3["body"], "__r.primary_file_ids().iter().any(|__f| __u.contains(__f))", sgrep.lets(f3["body"]), {"__r": pv3[0], "__u": pv3[1]}), tt[:200], site(MAIN, f3))
    # default level
    cfgf = "program_analysis/src/config.rs"
    dl = find_item(cfgf, "Const", "DEFAULT_LEVEL")
    if dl is not None:
        v = strip(dl["expr"])
        ctx.check(R, "DEFAULT_LEVEL/parses", v["k"] == "Lit" and v["value"].lower() in ("warning", "info", "error"), render(v))
    # Report accessors used by the filters return the stored fields
    for nm, fld in (("category", "self.category"), ("id", "self.code.id()"), ("name", "self.code.name()"), ("primary_file_ids", "self.primary_file_ids")):
        f = find_fn(REP, nm, "Report")
        if f is None:
            ctx.missing(R, "Report::" + nm)
            continue
        t = result_expr(f)
        ctx.check(R, "Report::" + nm, t is not None and render(strip(t)) == fld, render(t), site(REP, f))
    # add_primary records the file id of the label it adds
    ap = find_fn(REP, "add_primary", "Report")
    if ap is not None:
        t = render(ap["body"]).replace(" ", "")
        pva = sgrep.params(ap)
        envp = sgrep.lets(ap["body"])
        # (trivial getters on self are read as the field: normalize.py N4)
        oka = len(pva) == 3 and (sgrep.has(ap["body"], "self.primary_file_ids_mut().push(__f)", None, {"__f": pva[1]}) or sgrep.has(ap["body"], "self.primary_file_ids.push(__f)", None, {"__f": pva[1]})) and (sgrep.has(ap["body"], "self.primary_mut().push(ReportLabel::primary(__f, __l).with_message(__m))", envp, {"__f": pva[1], "__l": pva[0], "__m": pva[2]}) or sgrep.has(ap["body"], "self.primary.push(ReportLabel::primary(__f, __l).with_message(__m))", envp, {"__f": pva[1], "__l": pva[0], "__m": pva[2]}))
        ctx.check(R, "Report::add_primary/records-file-id", oka, t[:200], site(REP, ap))
    # constructors set the category they are named after
    for nm, cat in (("error", "Error"), ("warning", "Warning"), ("info", "Info")):
        f = find_fn(REP, nm, "Report")
        if f is not None:
            t = render(f["body"]).replace(" ", "")
            pvn = sgrep.params(f)
            ctx.check(R, "Report::%s/category" % nm, len(pvn) == 2 and (sgrep.has(f["body"], "Report::new(MessageCategory::%s, __m, __c)" % cat, sgrep.lets(f["body"]), {"__m": pvn[0], "__c": pvn[1]}) or sgrep.has(f["body"], "Self::new(MessageCategory::%s, __m, __c)" % cat, sgrep.lets(f["body"]), {"__m": pvn[0], "__c": pvn[1]})), t, site(REP, f))


def rule_passes(ctx):
    R = "C03.5"
    ctx.rule(R, "every analysis pass (a public function of program_analysis from a CFG, optionally a context, to a report collection) is registered in get_analysis_passes")
    reg = find_fn(PA_LIB, "get_analysis_passes")
    if reg is None:
        return ctx.missing(R, "get_analysis_passes")
    regtxt = render(reg["body"])
    registered = set(re.findall(r"(\w+)::(\w+)", regtxt))
    n = 0
    for f in sorted(facts.ast()):
        if not f.startswith("program_analysis/src/") or f.endswith(("lib.rs", "analysis_runner.rs", "analysis_context.rs")):
            continue
        mod = f.rsplit("/", 1)[-1][:-3]
        for q, fn in fns_in_file(f):
            if q or fn.get("vis") != "pub":
                continue
            out = (fn["sig"]["output"] or "").replace(" ", "")
            ins = [i["ty"].replace(" ", "") for i in fn["sig"]["inputs"] if not i.get("self")]
            if out == "ReportCollection" and ins in (["&Cfg"], ["&mutdynAnalysisContext", "&Cfg"]):
                n += 1
                ctx.check(R, "registered/%s::%s" % (mod, fn["name"]), (mod, fn["name"]) in registered, "pass %s::%s is not in get_analysis_passes: its findings are never produced" % (mod, fn["name"]), site(f, fn))
    ctx.floor(R, "analysis passes", n, 13)
    # registry is a plain vec of boxed closures / fns (no cfg-gating, no filter)
    tail = result_expr(reg)  # `let passes = vec![..]; passes` reads as the vec
    if tail is not None:
        tail = strip(tail)
    ctx.check(R, "get_analysis_passes/plain-list", tail is not None and tail["k"] == "Macro" and tail["name"] == "vec" and len(tail["args"]) >= 13, "registry has %s entries" % (len(tail["args"]) if tail is not None and tail["k"] == "Macro" else "?"), site(PA_LIB, reg))


def rule_displayable(ctx):
    R = "C03.6"
    ctx.rule(R, "every finding below error level carries a primary label on every path, otherwise the per-file filter can never display it whatever the options")
    tol, desc = reportflow.filter_tolerance()
    for p in reportflow.producers():
        if p["category"] == "error":
            continue
        key = "%s::%s/%s" % (p["qual"] or p["file"].rsplit("/", 1)[-1], p["fn"], p["code"].replace("ReportCode::", ""))
        cat = p["category"].capitalize()
        ok = p["label"] in ("always", "if-file-id", "if-meta") or tol == "all" or (isinstance(tol, set) and cat in tol)
        ctx.check(R, key + "/displayable", ok, "label coverage: %s; this %s has no primary label so filter_by_file never lets it through" % (p["label"], p["category"]), site(p["file"], p["node"]))


def rule_ids(ctx):
    R = "C03.7"
    ctx.rule(R, "rule ids and names are injective over the report codes (two different codes never share an id or a name)")
    for nm in ("id", "name"):
        fn = find_fn(RC, nm, "ReportCode")
        if fn is None:
            ctx.missing(R, "ReportCode::" + nm)
            continue
        ms = [m for m in walk(fn["body"]) if m["k"] == "Match"]
        if not ms:
            ctx.missing(R, "ReportCode::%s/match" % nm)
            continue
        tab = {}
        for a in ms[0]["arms"]:
            lits = [n["value"] for n in walk(a["body"]) if n["k"] == "Lit" and n["lit"] == "str"]
            for v in pat_paths(a["pat"]):
                tab[last(v)] = lits[0] if lits else None
        used = set()
        for f2 in facts.ast():
            if f2 == RC:
                continue
            used |= set(re.findall(r"ReportCode::(\w+)", facts.src(f2)))
        ctx.floor(R, "report codes constructed in the workspace", len(used & set(tab)), 25)
        inv = {}
        for k, v in tab.items():
            if k in used:
                inv.setdefault(v, []).append(k)
        dups = {v: ks for v, ks in inv.items() if len(ks) > 1}
        ctx.floor(R, "ReportCode::%s arms" % nm, len(tab), 60)
        ctx.check(R, "ReportCode::%s/injective" % nm, not dups, "shared %ss: %s" % (nm, dups), site(RC, fn))


def run(ctx):
    import c19 as _c19

    ctx.include("C03.12", "a finding of a file named on the command line is not filtered out as a library finding: the user inputs are the set of canonical paths queued from the command line, whatever route reached the file first (shared with C19.1/C19.4)", _c19.rule_canonical, _c19.rule_user_inputs)
    rule_drain(ctx)
    rule_duplicates_once(ctx)
    rule_exit_status(ctx)
    rule_sarif(ctx)
    rule_filter_laws(ctx)
    rule_passes(ctx)
    rule_displayable(ctx)
    rule_ids(ctx)
    rule_region(ctx)
    import c02

    import dropflow

    ctx.include("C03.10", "prerequisite shared with C02.10: no report-carrying value (warnings returned next to a parse result, the reports of a library, an error payload) is left untouched and dropped", lambda c: dropflow.rule_consumed(c, "C02.10"))
    ctx.include("C03.9", "prerequisite shared with C02: when CFG generation fails, everything collected so far (not only the fatal error) is appended to the per-definition cache before the error exit", c02.rule_error_path)
