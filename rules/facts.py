"""Fact loading for the rule modules: syntax trees (astq), MIR facts (mirfacts),
source text.  Everything is derived from the *current* working tree of the
repository (VERIF_REPO, default /repo) and cached under the hash of its sources."""
import fcntl
import glob
import hashlib
import json
import os
import shutil
import subprocess
import sys
import time

VERIF = os.path.dirname(os.path.dirname(os.path.abspath(__file__)))
REPO = os.environ.get("VERIF_REPO", "/repo")
CACHE = os.environ.get("VERIF_CACHE", os.path.join(VERIF, ".cache"))
ASTQ = os.path.join(VERIF, "engines/astq/target/release/astq")
MIRFACTS = os.path.join(VERIF, "engines/mirfacts/target/release/mirfacts")

SRC_EXT = (".rs", ".lalrpop", ".toml", ".md", ".lock")
WORKSPACE_CRATES = (
    "circomspect",
    "circomspect_parser",
    "circomspect_program_analysis",
    "circomspect_program_structure",
    "circomspect_circom_algebra",
)


def _walk_sources():
    out = []
    for root, dirs, files in os.walk(REPO):
        dirs[:] = sorted(d for d in dirs if d not in ("target", ".git", "node_modules"))
        for f in sorted(files):
            if f.endswith(SRC_EXT):
                out.append(os.path.relpath(os.path.join(root, f), REPO))
    return out


_tree_hash = None


def tree_hash():
    global _tree_hash
    if _tree_hash is None:
        h = hashlib.sha256()
        for f in _walk_sources():
            h.update(f.encode())
            h.update(b"\0")
            with open(os.path.join(REPO, f), "rb") as fh:
                h.update(fh.read())
            h.update(b"\0")
        # engine versions are part of the key
        for eng in ("engines/astq/src/main.rs", "engines/mirfacts/src/main.rs"):
            with open(os.path.join(VERIF, eng), "rb") as fh:
                h.update(fh.read())
        _tree_hash = h.hexdigest()[:24]
    return _tree_hash


def rust_files():
    return [f for f in _walk_sources() if f.endswith(".rs")]


_src_cache = {}


def src(relpath):
    if relpath not in _src_cache:
        with open(os.path.join(REPO, relpath), encoding="utf-8") as fh:
            _src_cache[relpath] = fh.read()
    return _src_cache[relpath]


def exists(relpath):
    return os.path.exists(os.path.join(REPO, relpath))


def ensure_engines(need_mir=False):
    if not os.path.exists(ASTQ) or (need_mir and not os.path.exists(MIRFACTS)):
        subprocess.check_call([sys.executable, os.path.join(VERIF, "rules/setup.py")])


class Lock:
    def __init__(self, name):
        os.makedirs(CACHE, exist_ok=True)
        self.path = os.path.join(CACHE, name + ".lock")

    def __enter__(self):
        self.fh = open(self.path, "w")
        fcntl.flock(self.fh, fcntl.LOCK_EX)
        return self

    def __exit__(self, *a):
        fcntl.flock(self.fh, fcntl.LOCK_UN)
        self.fh.close()


_ast = None


def ast():
    """dict: relative file path -> list of items (generic JSON syntax tree)."""
    global _ast
    if _ast is not None:
        return _ast
    ensure_engines()
    files = rust_files()
    t0 = time.time()
    p = subprocess.run([ASTQ, "files", REPO] + files, capture_output=True, text=True)
    if p.returncode != 0:
        raise RuntimeError("astq failed: " + p.stderr[-2000:])
    data = json.loads(p.stdout)
    out = {}
    errors = {}
    for f in data["files"]:
        if "error" in f:
            errors[f["file"]] = f["error"]
        else:
            out[f["file"]] = f["items"]
    import normalize

    for items in out.values():
        normalize.normalise_items(items)
    _ast = out
    if os.environ.get("VERIF_NO_INLINE") != "1":
        import astlib

        for fname, items in out.items():
            if fname.startswith("program_structure_tests") or "/tests/" in fname or fname.endswith("_tests.rs"):
                continue
            astlib.inline_unknown_helpers(items)
    _ast_meta.update({"files": len(out), "errors": errors, "wall_s": round(time.time() - t0, 2)})
    return out


_ast_meta = {}


def ast_meta():
    ast()
    return _ast_meta


def parse_exprs(srcs):
    """Parse Rust expressions / statement lists given as text (grammar actions)."""
    ensure_engines()
    p = subprocess.run([ASTQ, "exprs"], input=json.dumps(srcs), capture_output=True, text=True)
    if p.returncode != 0:
        raise RuntimeError("astq exprs failed: " + p.stderr[-2000:])
    return json.loads(p.stdout)


_mir = None
_mir_meta = {}


def mir(force=False):
    """dict crate -> facts.  Extracted with the rustc driver from the current tree;
    cached under the tree hash.  `force` re-extracts from a clean member state."""
    global _mir
    if _mir is not None and not force:
        return _mir
    ensure_engines(need_mir=True)
    h = tree_hash()
    outdir = os.path.join(CACHE, "mir-" + h)
    with Lock("mir"):
        done = os.path.join(outdir, "DONE")
        if force or not os.path.exists(done):
            if os.path.exists(outdir):
                shutil.rmtree(outdir)
            os.makedirs(outdir)
            t0 = time.time()
            target = os.path.join(CACHE, "target")
            # cargo must not skip the wrapper for workspace members
            for fp in glob.glob(os.path.join(target, "debug/.fingerprint/circomspect*")):
                shutil.rmtree(fp, ignore_errors=True)
            sysroot = subprocess.check_output(["rustc", "+nightly", "--print", "sysroot"], text=True).strip()
            env = dict(os.environ)
            env.update(
                {
                    "LD_LIBRARY_PATH": sysroot + "/lib:" + env.get("LD_LIBRARY_PATH", ""),
                    "RUSTFLAGS": "-Zmir-opt-level=0 -Awarnings",
                    "RUSTC_WORKSPACE_WRAPPER": MIRFACTS,
                    "CARGO_TARGET_DIR": target,
                    "CARGO_NET_OFFLINE": "true",
                    "MIRFACTS_OUT": outdir,
                }
            )
            env.pop("RUSTC_WRAPPER", None)
            p = subprocess.run(
                ["cargo", "+nightly", "check", "--offline", "--workspace", "-j", "16"],
                cwd=REPO,
                env=env,
                capture_output=True,
                text=True,
            )
            if p.returncode != 0:
                shutil.rmtree(outdir, ignore_errors=True)
                raise RuntimeError("mirfacts extraction failed (does the tree compile?):\n" + p.stderr[-4000:])
            with open(done, "w") as fh:
                json.dump({"wall_s": round(time.time() - t0, 2)}, fh)
            # keep the cache small: drop other hashes
            for d in glob.glob(os.path.join(CACHE, "mir-*")):
                if d != outdir and time.time() - os.path.getmtime(d) > 6 * 3600:
                    shutil.rmtree(d, ignore_errors=True)
        res = {}
        for f in glob.glob(os.path.join(outdir, "*.json")):
            with open(f) as fh:
                d = json.load(fh)
            if d["crate"] in WORKSPACE_CRATES:
                if d["crate"] in res:
                    raise RuntimeError("two fact files for crate " + d["crate"])
                res[d["crate"]] = d
        missing = [c for c in WORKSPACE_CRATES if c not in res]
        if missing:
            shutil.rmtree(outdir, ignore_errors=True)
            raise RuntimeError("mirfacts: no facts for crates %s (wrapper skipped?)" % missing)
        with open(done) as fh:
            _mir_meta.update(json.load(fh))
        _mir_meta["crates"] = {c: len(d["fns"]) for c, d in res.items()}
    _mir = res
    return res


def mir_meta():
    mir()
    return _mir_meta
