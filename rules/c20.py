"""C20 Cutting propagation short never makes a claim wrong."""
import re

from astlib import last, calls, find_fn, find_item, fns_in_file, method_calls, render, site, strip, walk
import facts
from pathcond import conditions_to, fact_str, facts_str, let_env
import c06
import c07
import opdisc

TITLE = "Cutting propagation short"
LEVEL_TEXT = (
    "each propagation loop checks its own clock on every iteration and the cut only stops the loop (no fact is written on the cut"
    " edge, no duration arithmetic that can panic); the environments start from the sound seeds only; every fact is derived from"
    " already known operand facts (the operand-discipline, merge and transfer-table rules of C06/C07), so every prefix of the"
    " iteration carries a subset of the fixpoint's facts. What the cut records is consulted by no pass."
)
NOT_DECIDED = "nothing beyond C06/C07: C20 adds no runtime quantity of its own."
ENGINE = "mirfacts+astq"
TRUSTED = ["rustc MIR (engines/mirfacts) for C20.5", "syn parser", "finite-function evaluator", "reference tables of C06/C07"]

CFG = "program_structure/src/control_flow_graph/cfg.rs"
BB = "program_structure/src/control_flow_graph/basic_block.rs"

WRITERS = ("set_reduces_to", "set_degree", "add_variable", "set_type", "insert")


def rule_cut(ctx, R="C20.1"):
    ctx.rule(R, "value and degree propagation each run `while changed` with a clock started just before the loop; the elapsed time is compared with the time box once per iteration, unconditionally; exceeding it only clears the loop flag (or leaves the loop); no fact is written and no duration is subtracted")
    for kind in ("values", "degrees"):
        fn = find_fn(CFG, "propagate_" + kind, "Cfg")
        key = "Cfg::propagate_" + kind
        if fn is None:
            ctx.missing(R, key)
            continue
        import sgrep

        loops = [n for n in walk(fn["body"]) if n["k"] in ("While", "Loop") and not [c for c in (conditions_to(fn["body"], n) or []) if c[0] == "loop"]]
        if len(loops) != 1:
            ctx.missing(R, key + "/loop", "expected one fixpoint loop, found %d" % len(loops))
            continue
        lp = loops[0]
        lbody = lp["body"]
        flag = render(strip(lp["cond"])) if lp["k"] == "While" else None
        if lp["k"] == "While":
            ctx.check(R, key + "/loops-while-changed", re.fullmatch(r"\w+", flag) is not None, "loop condition: %s" % flag, site(CFG, lp))
        le = let_env(fn["body"], lp)
        starts = [k for k, v in le.items() if render(strip(v)).replace(" ", "") == "Instant::now()"]
        ctx.check(R, key + "/own-clock-started-before-the-loop", len(starts) == 1, "clocks: %s" % starts, site(CFG, fn))
        clock = starts[0] if starts else "start"
        # the time test: an `if` of the loop body whose condition (through the loop body's lets) compares the own clock's
        # elapsed time with the time box
        lenv = sgrep.lets(lbody)
        forms = ["%s.elapsed() > MAX_ANALYSIS_DURATION" % clock, "%s.elapsed() >= MAX_ANALYSIS_DURATION" % clock, "MAX_ANALYSIS_DURATION < %s.elapsed()" % clock, "MAX_ANALYSIS_DURATION <= %s.elapsed()" % clock]
        from pathcond import split_cond

        def resolve_c(e, depth=0):
            e = strip(e)
            if e["k"] == "Path" and e["path"] in lenv and depth < 3:
                return resolve_c(lenv[e["path"]], depth + 1)
            if e["k"] == "Binary":
                e = dict(e)
                e["l"], e["r"] = resolve_c(e["l"], depth), resolve_c(e["r"], depth)
            if e["k"] == "Unary":
                e = dict(e)
                e["e"] = resolve_c(e["e"], depth)
            return e

        def is_timeout(e):
            return any(sgrep.match(sgrep.pattern(f_), e, {}, lenv) for f_ in forms)

        def mentions_clock(e):
            return "elapsed()" in render(resolve_c(e))

        # every `if` of the loop body whose condition involves the clock: either the time test itself, or a disjunction
        # that contains it (`if !changed || timed_out { break }`)
        tests = []
        for n in walk(lbody):
            if n["k"] != "If" or not mentions_clock(n["cond"]):
                continue
            fs = split_cond(resolve_c(n["cond"]), True)
            if len(fs) == 1 and fs[0][0] == "if" and fs[0][2] and is_timeout(fs[0][1]):
                tests.append((n, "test"))
            elif len(fs) == 1 and fs[0][0] == "notall" and any(g[0] == "if" and not g[2] and is_timeout(g[1]) for g in fs[0][1]):
                tests.append((n, "disjunct"))
            else:
                tests.append((n, "other"))
        if not tests:
            ctx.bad(R, key + "/time-box-test", "no elapsed-time test inside the loop", site(CFG, lp))
            continue
        ctx.check(R, key + "/time-box-test/compares-own-clock-with-the-time-box", all(kind_ != "other" for _n, kind_ in tests), "conditions: %s" % [render(n_["cond"])[:60] for n_, _k in tests], site(CFG, tests[0][0]))
        uncond = [n_ for n_, _k in tests if not (conditions_to(lbody, n_) or [])]
        ctx.check(R, key + "/time-box-test/every-iteration", bool(uncond), "no time test is reached on every iteration", site(CFG, tests[0][0]))
        # the cut edge: some test that is reached on every iteration leaves the loop / clears the flag, unconditionally
        def stops_of(n_):
            return [x for x in walk(n_["then"]) if (flag and x["k"] == "Assign" and render(x["l"]) == flag and render(x["r"]) == "false") or x["k"] in ("Break", "Return")]
        stopping = [n_ for n_ in uncond if stops_of(n_) and not (conditions_to(n_["then"], stops_of(n_)[0]) or [])]
        ctx.check(R, key + "/cut/stops-the-loop", bool(stopping), "the cut must clear the loop flag (or leave the loop) unconditionally", site(CFG, tests[0][0]))
        writes = [render(x)[:60] for n_, _k in tests for x in walk(n_["then"]) if (x["k"] == "MethodCall" and x["method"] in WRITERS) or (x["k"] == "Call" and not render(x["func"]).startswith(("debug", "trace", "warn")))]
        ctx.check(R, key + "/cut/writes-nothing", not writes, "calls on the cut edge: %s" % writes, site(CFG, tests[0][0]))
        # what the cut records, nobody asks for: a field assigned on the cut edge (besides the loop flag) must not be read
        # outside this file - a pass that behaves differently after a cut (e.g. keeps quiet) turns `no fact yet` into a claim
        recorded = sorted({render(x["l"]).replace(" ", "")[5:] for n_, _k in tests for x in walk(n_["then"]) if x["k"] == "Assign" and render(x["l"]).replace(" ", "").startswith("self.") and render(x["l"]) != flag})
        askers = []
        if recorded:
            accessors = {f_["name"] for q_, f_ in fns_in_file(CFG) if f_.get("body") and f_["name"] not in ("propagate_values", "propagate_degrees", "new") and any(("self.%s" % r_) in render(f_["body"]).replace(" ", "") for r_ in recorded)}
            for file_ in facts.ast():
                if file_ == CFG or file_.startswith("program_structure_tests"):
                    continue
                for q_, f_ in fns_in_file(file_):
                    if not f_.get("body") or "tests" in q_:
                        continue
                    for m_ in walk(f_["body"]):
                        if (m_["k"] == "MethodCall" and m_["method"] in accessors) or (m_["k"] == "Field" and m_.get("member") in recorded):
                            askers.append("%s::%s asks `%s`" % (file_.rsplit("/", 1)[-1], f_["name"], render(m_)[:40]))
        ctx.check(R, key + "/cut/what-the-cut-records-is-not-consulted", not askers, ("the cut records %s; read by: %s" % (recorded, sorted(set(askers))[:4])) if askers else ("the cut edge records %s, read nowhere outside cfg.rs" % (recorded or "nothing")), site(CFG, tests[0][0]))
        ctx.check(R, key + "/cut/no-else", all(n_["else"] is None for n_, _k in tests), "the time test must not select between two propagation modes", site(CFG, tests[0][0]))
        t = tests[0][0]
        # a cut leaves propagation incomplete: nothing in the function may insist on completeness
        insist = [m_["name"] for m_ in walk(fn["body"]) if m_["k"] == "Macro" and last(m_["name"]) in ("assert", "assert_eq", "assert_ne", "debug_assert", "debug_assert_eq", "panic", "unreachable", "todo", "unimplemented")] + [m_["method"] for m_ in walk(fn["body"]) if m_["k"] == "MethodCall" and m_["method"] in ("unwrap", "expect")]
        ctx.check(R, key + "/no-completeness-assertion", not insist, "assertions / unwraps in the propagation driver: %s (after a cut not every node has a fact)" % insist, site(CFG, fn))
        # no panicking duration arithmetic
        arith = [render(n)[:80] for n in walk(fn["body"]) if n["k"] == "Binary" and n["op"] in ("-", "-=") and ("elapsed()" in render(n) or "DURATION" in render(n))]
        ctx.check(R, key + "/no-duration-subtraction", not arith, "Duration subtraction panics on underflow: %s" % arith, site(CFG, fn))
        # the iteration offers every block to propagate_<kind> (a loop, or a short-circuiting `any`)
        okf, howf = False, ""
        for coll in ("self.iter_mut()", "self.basic_blocks.iter_mut()", "self.basic_blocks"):
            if not okf:
                okf, howf = sgrep.each_calls(lbody, coll, "propagate_" + kind, lenv, allow_guard=lambda c: c[0] == "if" and not c[2] and strip(c[1])["k"] == "Path")
        fors = [n for n in walk(lbody) if n["k"] == "For"]
        anys = [m_ for m_ in walk(lbody) if m_["k"] == "MethodCall" and m_["method"] == "any" and any(True for _ in method_calls(m_, "propagate_" + kind))]
        unc = (fors and not (conditions_to(lbody, fors[0]) or [])) or (anys and not [c_ for c_ in (conditions_to(lbody, anys[0]) or []) if c_[0] != "closure"])
        ctx.check(R, key + "/iteration-over-all-blocks", bool(okf and unc), howf, site(CFG, lp))
        # the change flag: mutable (`flag = flag || p`, `if !flag { flag = p }`) or the value of the `any`
        any_flags = [k_ for k_, v_ in lenv.items() if anys and any(x is anys[0] for x in walk(v_))]
        if lp["k"] == "Loop":
            tops = [s_ for s_ in lbody["stmts"] if s_["k"] == "Local" and s_["pat"]["k"] == "PIdent" and s_["pat"].get("mut") and s_["init"] is not None and render(strip(s_["init"])) == "false"]
            flag = tops[0]["pat"]["name"] if len(tops) == 1 else (any_flags[0] if len(any_flags) == 1 else None)
            # leaving the loop when nothing changed: an `if` reached on every iteration that breaks and whose condition is
            # `!flag`, alone or as one disjunct
            okx = False
            for n_ in [x for x in lbody["stmts"] if x["k"] == "ExprStmt" and x["e"]["k"] == "If"]:
                i_ = n_["e"]
                if not any(x["k"] == "Break" for x in walk(i_["then"])) or i_["else"] is not None or flag is None:
                    continue
                fs = split_cond(i_["cond"], True)
                if (len(fs) == 1 and fs[0][0] == "if" and not fs[0][2] and render(strip(fs[0][1])) == flag) or (len(fs) == 1 and fs[0][0] == "notall" and any(g[0] == "if" and g[2] and render(strip(g[1])) == flag for g in fs[0][1])):
                    okx = True
            ctx.check(R, key + "/flag-initially-true", flag is not None, "loop form: the body runs at least once", site(CFG, fn))
            ctx.check(R, key + "/flag-reset-each-iteration", okx, "loop form: a per-iteration change flag and `if !changed { break }` (alone or as a disjunct) once per iteration", site(CFG, lp))
        if fors and flag and not anys:
            t2 = render(fors[0]["body"]).replace(" ", "")
            lv = render(fors[0]["pat"])
            okf2 = sgrep.has(fors[0]["body"], "__f = __f || __b.propagate_%s(__e)" % kind, None, {"__f": flag, "__b": lv}) or sgrep.has(fors[0]["body"], "__f = __b.propagate_%s(__e) || __f" % kind, None, {"__f": flag, "__b": lv}) or sgrep.has(fors[0]["body"], "__f |= __b.propagate_%s(__e)" % kind, None, {"__f": flag, "__b": lv}) or sgrep.has(fors[0]["body"], "if !__f { __f = __b.propagate_%s(__e); }" % kind, None, {"__f": flag, "__b": lv})
            ctx.check(R, key + "/flag-accumulates-updates", okf2 and len(fors[0]["body"]["stmts"]) == 1, t2, site(CFG, fors[0]))
        elif anys:
            # `flag = blocks.any(..)`: the flag is true iff some block changed
            okany = (flag is not None and (flag in any_flags or any(a_["k"] == "Assign" and render(a_["l"]) == flag and any(x is anys[0] for x in walk(a_["r"])) for a_ in walk(lbody))))
            ctx.check(R, key + "/flag-accumulates-updates", bool(okany), "the change flag is the value of the `any` over the blocks", site(CFG, anys[0]))
        elif fors:
            ctx.bad(R, key + "/flag-accumulates-updates", "no loop flag recognised", site(CFG, fors[0]))
        if lp["k"] == "While":
            # flag reset at the top of each iteration and true initially
            ctx.check(R, key + "/flag-initially-true", flag in le and render(strip(le[flag])) == "true", "let %s = %s" % (flag, render(le.get(flag)) if flag in le else "?"), site(CFG, fn))
            first = lbody["stmts"][0] if lbody["stmts"] else None
            reset_ok = first is not None and (render(first).replace(" ", "") == "%s=false;" % flag or (anys and any(a_["k"] == "Assign" and render(a_["l"]) == flag for a_ in walk(first))))
            ctx.check(R, key + "/flag-reset-each-iteration", bool(reset_ok), render(first) if first else "?", site(CFG, lp))
    mx = find_item(CFG, "Const", "MAX_ANALYSIS_DURATION")
    if mx is None:
        ctx.missing(R, "MAX_ANALYSIS_DURATION")
    else:
        t = render(strip(mx["expr"])).replace(" ", "")
        m = re.fullmatch(r"Duration::from_(secs|millis)\((\d+)\)", t)
        secs = (int(m.group(2)) / (1000.0 if m.group(1) == "millis" else 1.0)) if m else None
        ctx.check(R, "MAX_ANALYSIS_DURATION/finite-time-box", secs is not None and 0 < secs <= 60, "time box: %s" % t, site(CFG, mx))


def rule_seeds(ctx, R="C20.2"):
    ctx.rule(R, "the value environment starts empty and the degree environment starts from the parameter seeds only; basic blocks forward propagation to every statement")
    import sgrep

    for kind, init in (("values", "ValueEnvironment::new(&self.constants)"), ("degrees", "DegreeEnvironment::new()")):
        fn = find_fn(CFG, "propagate_" + kind, "Cfg")
        if fn is None:
            continue
        le = sgrep.lets(fn["body"])
        # the environment is whatever is handed to the basic blocks' propagate_<kind>
        envs = {render(strip(c["args"][0])) for c in walk(fn["body"]) if c["k"] == "MethodCall" and c["method"] == "propagate_" + kind and c["args"]}
        ok = len(envs) == 1 and all(e in le and sgrep.match(sgrep.pattern(init), le[e], {}) for e in envs)
        ctx.check(R, "Cfg::propagate_%s/environment-starts-empty" % kind, ok, "environment(s) handed to the blocks: %s = %s" % (sorted(envs), [render(le[e]) for e in envs if e in le]), site(CFG, fn))
    # one change per pass, at the level of blocks as well: a block is propagated only while no earlier block changed in
    # this pass (`rerun = rerun || b.propagate(env)`, `if !rerun {..}`, a short-circuiting `any`) - so a later block never
    # runs ahead of an earlier one that is still unresolved, which is what the pessimistic reading of a cut state needs
    from pathcond import find_path

    for kind in ("values", "degrees"):
        fn = find_fn(CFG, "propagate_" + kind, "Cfg")
        if fn is None:
            continue
        cs_ = [c_ for c_ in method_calls(fn["body"], "propagate_" + kind)]
        sc_ok = False
        how = "propagate_%s x%d" % (kind, len(cs_))
        if len(cs_) == 1:
            path = find_path(fn["body"], cs_[0]) or []
            lazy_or = any(parent["k"] == "Binary" and parent.get("op") == "||" and slot == "r" and strip(parent["l"])["k"] == "Path" for parent, slot, _c in path)
            conds_ = conditions_to(fn["body"], cs_[0]) or []
            in_any = any(c_[0] == "closure" for c_ in conds_) and any(m_["k"] == "MethodCall" and m_["method"] == "any" and any(x is cs_[0] for x in walk(m_)) for m_ in walk(fn["body"]))
            guarded = any(c_[0] == "if" and not c_[2] and strip(c_[1])["k"] == "Path" for c_ in conds_)
            sc_ok = lazy_or or in_any or guarded
            how = "lazy-or=%s any=%s guarded=%s" % (lazy_or, in_any, guarded)
        ctx.check(R, "Cfg::propagate_%s/one-change-per-pass" % kind, sc_ok, "the blocks' propagate_%s must be short-circuited on the change flag (%s)" % (kind, how), site(CFG, fn))
    for kind in ("values", "degrees"):
        f = find_fn(BB, "propagate_" + kind, "BasicBlock")
        if f is None:
            ctx.missing(R, "BasicBlock::propagate_" + kind)
            continue
        t = render(f["body"]).replace(" ", "")
        import sgrep
        oke, how = sgrep.each_calls(f["body"], "self.iter_mut()", "propagate_" + kind, None, allow_guard=lambda c: c[0] == "if" and not c[2] and c[1]["k"] == "Path")
        ok = oke and not [n for n in walk(f["body"]) if n["k"] in ("Break", "Return", "Continue")]
        ctx.check(R, "BasicBlock::propagate_%s/every-statement" % kind, ok, t[:200], site(BB, f))
        # one change per pass: a statement is propagated only while no earlier statement of the block changed in this
        # pass (`result = result || s.propagate(env)`, `if !result {..}`, or a short-circuiting `any`); the pessimistic
        # reading of intermediate states rests on earlier statements being stable first
        cs_ = [c_ for c_ in method_calls(f["body"], "propagate_" + kind)]
        sc_ok = False
        if len(cs_) == 1:
            conds_ = conditions_to(f["body"], cs_[0]) or []
            in_any = any(c_[0] == "closure" for c_ in conds_) and any(m_["k"] == "MethodCall" and m_["method"] == "any" and any(x is cs_[0] for x in walk(m_)) for m_ in walk(f["body"]))
            guarded = any(c_[0] == "if" and not c_[2] and strip(c_[1])["k"] == "Path" for c_ in conds_)
            sc_ok = in_any or guarded
        ctx.check(R, "BasicBlock::propagate_%s/one-change-per-pass" % kind, sc_ok, "the statements' propagate_%s must be short-circuited on the block's change flag: %s" % (kind, t[:160]), site(BB, f))


def run(ctx):
    rule_cut(ctx)
    import os

    if os.environ.get("VERIF_SKIP_MIR_RULES") != "1":
        import c01

        ctx.include("C20.5", "the cut itself cannot fail: the propagation loops contain no integer division by a possibly-zero value (shared with C01.14, MIR)", lambda c: c01.rule_division_asserts(c, "C01.14", only_file="control_flow_graph/cfg.rs"))
    rule_seeds(ctx)
    ctx.include("C20.3", "every value fact is derived from known operand facts (C06.1-C06.5 shared): pessimistic merge, operand discipline, versioned names only", c06.rule_operator_table, c06.rule_switch_phi, lambda c: opdisc.rule_values(c, "C06.3"), c06.rule_environment, c06.rule_literals)
    ctx.include("C20.4", "every degree fact is an upper bound derived from known operand facts (C07.1-C07.3 shared): transfer tables, operand discipline, seeds", c07.rule_tables, lambda c: opdisc.rule_degrees(c, "C07.2"), lambda c: c07.eval_array_arms(c, "C07.2"), c07.rule_env)
