"""A11 operand discipline (C06.3, C07.2, C20.3).

For every arm of `Expression::propagate_degrees` / `propagate_values`, every
*fact write* (`meta.<k>_knowledge_mut().set_*(v)`) must be supported by every
semantic operand of that node kind: the operand's own fact flows into `v`, or
guards the write positively.  The required operands per variant are frozen
(DESIGN App. C); everything else is read from the source."""
import re

from astlib import find_fn, is_node, last, method_calls, render, site, strip, walk, pat_paths
from pathcond import conditions_to, fact_str, find_path

EI = "program_structure/src/intermediate_representation/expression_impl.rs"

REQUIRED_DEGREES = {
    "InfixOp": [("sub", "lhe"), ("sub", "rhe")],
    "PrefixOp": [("sub", "rhe")],
    "SwitchOp": [("const", "cond"), ("sub", "if_true"), ("sub", "if_false")],
    "Variable": [("env", "name")],
    "Number": [],
    "Call": [("all-const", "args")],
    "InlineArray": [("all-sub", "values")],
    "Access": [("env", "var"), ("index-const", "access")],
    "Update": [("env-or-first", "var"), ("sub", "rhe"), ("index-const", "access")],
    "Phi": [("all-env", "args")],
}
REQUIRED_VALUES = {
    "InfixOp": [("sub", "lhe"), ("sub", "rhe")],
    "PrefixOp": [("sub", "rhe")],
    "SwitchOp": "switch",
    "Variable": [("env", "name")],
    "Number": [],
    "Call": None,  # no value may be attached
    "InlineArray": None,
    "Access": None,
    "Update": None,
    "Phi": [("all-env", "args"), ("agree", "args")],
}


def arm_variant(arm):
    ps = pat_paths(arm["pat"])
    return [last(p) for p in ps]


def field_bindings(pat):
    """field name -> bound identifier for a struct / tuple-struct pattern."""
    out = {}
    if pat["k"] == "PStruct":
        for f in pat["fields"]:
            if f["shorthand"]:
                out[f["name"]] = f["name"]
            elif f["pat"]["k"] == "PIdent":
                out[f["name"]] = f["pat"]["name"]
    elif pat["k"] == "PTupleStruct":
        for i, e in enumerate(pat["elems"]):
            if e["k"] == "PIdent":
                out[str(i)] = e["name"]
    return out


def sources_in(e, getter):
    """Operand facts read inside expression e.  getter = 'degree' | 'value'."""
    out = set()
    envget = "degree" if getter == "degree" else "get_variable"
    for n in walk(e):
        if n["k"] != "MethodCall":
            continue
        if n["method"] == getter and not n["args"]:
            r = strip(n["recv"])
            out.add(("sub", render(r)))
        elif n["method"] == envget and len(n["args"]) == 1 and render(strip(n["recv"])) == "env":
            out.add(("env", render(strip(n["args"][0]))))
    # iterator forms:  X.iter().map(|v| v.degree())  /  X.iter().map(|a| env.degree(a))
    for n in walk(e):
        if n["k"] == "MethodCall" and n["method"] == "map" and len(n["args"]) == 1 and n["args"][0]["k"] == "Closure":
            cl = n["args"][0]
            base = strip(n["recv"])
            coll = render(base)
            var = render(cl["inputs"][0]) if cl["inputs"] else "?"
            inner = sources_in(cl["body"], getter)
            # the mapped facts count as `all known` only when they are consumed by an all-or-nothing combinator:
            # DegreeRange::iter_opt (evaluated by C07.1: None as soon as one element is None) or a collect into Option
            strict = False
            for c_ in walk(e):
                if c_["k"] == "Call" and c_["func"]["k"] == "Path" and last(c_["func"]["path"]) == "iter_opt" and any(x is n for a_ in c_["args"] for x in walk(a_)):
                    strict = True
                if c_["k"] == "MethodCall" and c_["method"] == "collect" and "Option" in str(c_.get("turbofish") or "") and any(x is n for x in walk(c_["recv"])):
                    strict = True
                if c_["k"] == "MethodCall" and c_["method"] in ("all", "any") and any(x is n for x in walk(c_["recv"])):
                    strict = True
            if ("sub", var) in inner:
                out.discard(("sub", var))
                out.add(("all-sub", coll) if strict else ("some-sub", coll))
            if ("env", var) in inner:
                out.discard(("env", var))
                out.add(("all-env", coll) if strict else ("some-env", coll))
    return out


def resolve_idents(v, arm_body, target, getter, depth=0):
    """Sources that flow into expression v (through let / if-let bindings on the path to target)."""
    out = set(sources_in(v, getter))
    if depth > 6:
        return out
    names = {n["path"] for n in walk(v) if n["k"] == "Path" and "::" not in n["path"]}
    if not names:
        return out
    path = find_path(arm_body, target) or []
    binders = []
    for parent, slot, child in path:
        if parent["k"] == "Block":
            for s in parent["stmts"]:
                if s is child:
                    break
                if s["k"] == "Local" and s["init"] is not None:
                    binders.append((s["pat"], s["init"]))
        elif parent["k"] == "If" and slot == "then":
            for c in walk(parent["cond"]):
                if c["k"] == "Let":
                    binders.append((c["pat"], c["e"]))
        elif parent["k"] == "Match" and slot == "arms":
            binders.append((child["pat"], parent["scrut"]))
    for pat, init in binders:
        bound = {n["name"] for n in walk(pat) if n["k"] == "PIdent"}
        if bound & names:
            out |= resolve_idents(init, arm_body, target, getter, depth + 1)
    return out


DMF = "program_structure/src/intermediate_representation/degree_meta.rs"
DEGS = ["Constant", "Linear", "Quadratic", "NonQuadratic"]


def closure_is_all_constant(cl):
    """Is the one-parameter closure `|a| ..` true exactly when a.degree() is known and constant?  Decided by evaluating
    it (finite-function evaluator) on an element whose degree() is None and Some(range) for all 10 ranges."""
    from finfun import E as FE, NONE as FNONE, S as FS, Unsupported as FUnsupported, World as FWorld

    try:
        w = FWorld([DMF])
        cases = [(FNONE, False)]
        for lo in range(4):
            for hi in range(lo, 4):
                cases.append((FS("Some", FS("DegreeRange", FE("Degree", DEGS[lo]), FE("Degree", DEGS[hi]))), hi == 0))
        for deg, want in cases:
            elem = ("O", "element", (("degree", deg),))
            got = w.apply(("C", cl, {}), [elem], [])
            if got is not want:
                return False
        return True
    except FUnsupported:
        return False


def guard_sources(conds, arm_body, target, getter):
    """Sources that guard the write positively: (kind, what)."""
    out = set()
    extra = []
    # a condition that is a plain name stands for its definition (`let all_constant = ..; if all_constant`)
    from pathcond import let_env as _let_env

    lenv = _let_env(arm_body, target)
    conds2 = []
    for f in conds:
        if f[0] == "if" and strip(f[1]).get("k") == "Path" and strip(f[1])["path"] in lenv:
            from pathcond import split_cond as _sc

            conds2 += _sc(lenv[strip(f[1])["path"]], f[2])
        else:
            conds2.append(f)
    conds = conds2
    for f in conds:
        if f[0] == "arm" and f[3] is not None:
            from pathcond import split_cond
            extra += split_cond(f[3], True)
    for f in list(conds) + extra:
        if f[0] == "iflet" and f[3]:
            pat = render(f[1])
            if pat.startswith("Some") or "Some(" in pat:
                out |= resolve_idents(f[2], arm_body, target, getter)
        elif f[0] == "arm":
            pat = render(f[2])
            if "Some" in pat:
                out |= resolve_idents(f[1], arm_body, target, getter)
        elif f[0] == "if" and f[2]:
            e = strip(f[1])
            # X.is_constant() where X bound from S.degree()
            if e["k"] == "MethodCall" and e["method"] == "is_constant" and not e["args"]:
                srcs = set(resolve_idents(e["recv"], arm_body, target, getter))
                # the receiver may be bound by a pattern on this very path (`matches!(c.degree(), Some(r) if r.is_constant())`)
                rn = {n_["path"] for n_ in walk(e["recv"]) if n_["k"] == "Path"}
                for f2 in list(conds) + extra:
                    if f2[0] == "iflet" and f2[3] and ({b_["name"] for b_ in walk(f2[1]) if b_["k"] == "PIdent"} & rn):
                        srcs |= set(resolve_idents(f2[2], arm_body, target, getter))
                for s in srcs:
                    if s[0] == "sub":
                        out.add(("const", s[1]))
            # ARGS.iter().all(|a| <a.degree() known and constant>)
            if e["k"] == "MethodCall" and e["method"] == "all" and e["args"] and e["args"][0]["k"] == "Closure":
                cl = e["args"][0]
                var = render(cl["inputs"][0]) if cl["inputs"] else "?"
                body = render(cl["body"]).replace(" ", "")
                coll = render(strip(e["recv"]))
                forms = (
                    "{iflet Some(range)=%s.degree(){range.is_constant()}else{false}}" % var,
                    "%s.degree().map_or(false,|range|range.is_constant())" % var,
                    "%s.degree().is_some_and(|range|range.is_constant())" % var,
                    "matches!(%s.degree(),Some(range)ifrange.is_constant())" % var,
                )
                norm = re.sub(r"\blet\b", "let ", body)
                if body in forms or norm.replace(" ", "") in [x.replace(" ", "") for x in forms] or (getter == "degree" and closure_is_all_constant(cl)):
                    out.add(("all-const", coll))
            # values.len() == 1 over a set collected from all args
            if e["k"] == "Binary" and e["op"] == "==" and render(e["r"]) == "1" and render(e["l"]).endswith(".len()"):
                out.add(("agree", "?"))
    return out


def writes_in(arm_body, kind):
    setter = "set_degree" if kind == "degree" else "set_reduces_to"
    know = "degree_knowledge_mut" if kind == "degree" else "value_knowledge_mut"
    for n in method_calls(arm_body, setter):
        if know in render(n["recv"]):
            yield n


def analyse(ctx, R, kind, required_tab, known_gap_keys=()):
    getter = "degree" if kind == "degree" else "value"
    fname = "propagate_degrees" if kind == "degree" else "propagate_values"
    trait = "DegreeMeta for Expression" if kind == "degree" else "ValueMeta for Expression"
    fn = find_fn(EI, fname, trait)
    if fn is None:
        ctx.missing(R, "Expression::" + fname)
        return
    ms = [m for m in walk(fn["body"]) if m["k"] == "Match" and render(strip(m["scrut"])) == "self"]
    if len(ms) != 1:
        ctx.missing(R, "Expression::%s/match-self" % fname)
        return
    seen = set()
    for arm in ms[0]["arms"]:
        for variant in arm_variant(arm):
            seen.add(variant)
            key = "Expression::%s/%s" % (fname, variant)
            if variant not in required_tab:
                ctx.bad(R, key + "/unknown-variant", "no operand table for expression kind %s (new kind, or a catch-all arm)" % variant, site(EI, arm))
                continue
            req = required_tab[variant]
            fb = field_bindings(arm["pat"])
            ws = list(writes_in(arm["body"], kind))
            if req is None:
                ctx.check(R, key + "/no-fact-attached", not ws, "a %s is attached to a node kind whose semantics are not modelled" % kind, site(EI, ws[0]) if ws else site(EI, arm))
                continue
            if req == "switch":
                continue  # dedicated rule (C06.2)
            if not ws and req != []:
                ctx.ok(R, key + "/no-write", "arm attaches no fact (always sound)", site(EI, arm))
                continue
            for wi, w in enumerate(ws):
                conds = conditions_to(arm["body"], w) or []
                data = resolve_idents(w["args"][0], arm["body"], w, getter)
                guards = guard_sources(conds, arm["body"], w, getter)
                support = data | guards
                # negative guards: fact written while a source is known to be absent
                absent = set()
                for f in conds:
                    if f[0] != "if":
                        continue
                    e = f[1]
                    if e["k"] == "MethodCall" and not e["args"] and ((e["method"] == "is_none" and f[2]) or (e["method"] == "is_some" and not f[2])):
                        for src in sources_in(e, getter):
                            absent.add(src)
                if len(ws) > 1:
                    sig = ",".join(sorted("%s(%s)" % x for x in support)) or "-"
                    wkey = "%s/write{%s}" % (key, sig)
                else:
                    wkey = key
                for rk, field in req:
                    b = fb.get(field, field)
                    okk = False
                    if rk == "sub":
                        okk = ("sub", b) in support
                    elif rk == "const":
                        okk = ("const", b) in support
                    elif rk == "env":
                        okk = ("env", b) in support and ("env", b) not in absent
                    elif rk == "env-or-first":
                        okk = ("env", b) in support and ("env", b) not in absent
                    elif rk == "all-sub":
                        okk = ("all-sub", b) in support
                    elif rk == "all-env":
                        okk = ("all-env", b) in support
                    elif rk == "all-const":
                        okk = ("all-const", b) in support
                    elif rk == "agree":
                        okk = ("agree", "?") in support
                    elif rk == "index-const":
                        okk = any(s[0] in ("index-const",) for s in support)
                    det = "fact written from %s; support %s; path %s" % (render(w["args"][0])[:60], sorted(support), [fact_str(c) for c in conds][:6])
                    if ("env", b) in absent and rk in ("env", "env-or-first"):
                        det = "fact assigned while operand env(%s) is known to be unknown (is_none guard); " % b + det
                    ctx.check(R, "%s/requires:%s(%s)" % (wkey, rk, field), okk, det, site(EI, w))
    for v in required_tab:
        if v not in seen:
            ctx.bad(R, "Expression::%s/%s/arm-missing" % (fname, v), "no arm for expression kind " + v)


def helper_all_some(ctx, R, kind):
    """The opcode helpers return a fact only when every operand fact is known."""
    fname = "propagate_values" if kind == "value" else "propagate_degrees"
    for ty, arity in (("ExpressionInfixOpcode", 2), ("ExpressionPrefixOpcode", 1)):
        fn = find_fn(EI, fname, ty)
        if fn is None:
            ctx.missing(R, "%s::%s" % (ty, fname))
            continue
        key = "%s::%s/fact-only-from-known-operands" % (ty, fname)
        # outermost match / if-let on the operand parameters
        params = [i["pat"]["name"] for i in fn["sig"]["inputs"] if not i.get("self") and i["ty"].replace(" ", "").startswith("Option<")]
        if len(params) != arity:
            ctx.missing(R, key, "expected %d Option parameters, found %s" % (arity, params))
            continue
        # evaluation first: for every operator and every combination of operand facts in which at least one is unknown
        # the helper must return None (whatever its shape)
        try:
            import itertools

            import passeval
            from finfun import E as FE2, NONE as FNONE2, S as FS2, Unsupported as FUns2

            w2 = passeval.PassWorld([EI, "program_structure/src/intermediate_representation/ir.rs", "program_structure/src/intermediate_representation/degree_meta.rs", "program_structure/src/intermediate_representation/value_meta.rs"], EI)
            w2.lenient_opaque = True
            w2.opaque = (("modular_arithmetic::", lambda name, args: ("K", name, tuple(args))),)
            ops2 = w2.enums.get(ty) or []
            nonparams2 = [i for i in fn["sig"]["inputs"] if not i.get("self")]
            wrong2 = []
            if not ops2:
                raise FUns2("operators not found")
            for op in ops2:
                for combo in itertools.product((False, True), repeat=arity):
                    if all(combo):
                        continue
                    it2 = iter(combo)
                    args2 = []
                    for i in nonparams2:
                        if i["ty"].replace(" ", "").startswith("Option<"):
                            args2.append(FS2("Some", ("O", "known")) if next(it2) else FNONE2)
                        else:
                            args2.append(("O", i["pat"].get("name", "arg")))
                    if w2.call_fn(fn, [FE2(ty, op)] + args2) != FNONE2:
                        wrong2.append("%s%s" % (op, combo))
            ctx.check(R, key, not wrong2, "evaluated for %d operators x %d operand combinations; a fact is returned although an operand is unknown: %s" % (len(ops2), 2 ** arity - 1, wrong2[:6]), site(EI, fn))
            continue
        except (FUns2, passeval.Panic):
            pass
        top = None
        for n in walk(fn["body"]):
            if n["k"] == "Match" and set(re.findall(r"\w+", render(n["scrut"]))) >= set(params):
                top = n
                break
            if n["k"] == "If" and n["cond"]["k"] == "Let" and set(re.findall(r"\w+", render(n["cond"]["e"]))) >= set(params):
                top = n
                break
        if top is None:
            # let-else form:  let Some(x) = x else { return None; };
            les = [n for n in walk(fn["body"]) if n["k"] == "Local" and n.get("else") is not None and n["init"] is not None and set(re.findall(r"\w+", render(n["init"]))) & set(params)]
            covered = set()
            okle = True
            for n in les:
                elems = n["pat"]["elems"] if n["pat"]["k"] == "PTuple" else [n["pat"]]
                if not all(render(x).startswith("Some(") for x in elems):
                    okle = False
                if "None" not in render(n["else"]):
                    okle = False
                covered |= set(re.findall(r"\w+", render(n["init"]))) & set(params)
            if les and okle and covered == set(params):
                ctx.ok(R, key, "let-else on every operand fact, returning None", site(EI, fn))
                continue
            # any other shape (Option combinators, `?`, helper closures): evaluate the helper for every operator with
            # each combination of operand facts in which at least one is unknown - the result must be None
            from finfun import E as FE, NONE as FNONE, S as FS, Unsupported as FUnsupported, World as FWorld
            import itertools

            try:
                w = FWorld([EI, "program_structure/src/intermediate_representation/ir.rs", "program_structure/src/intermediate_representation/degree_meta.rs", "program_structure/src/intermediate_representation/value_meta.rs"])
                ops = w.enums.get(ty) or []
                nonparams = [i for i in fn["sig"]["inputs"] if not i.get("self")]
                wrong = []
                for op in ops:
                    for combo in itertools.product((False, True), repeat=arity):
                        if all(combo):
                            continue
                        it = iter(combo)
                        args = []
                        for i in nonparams:
                            if i["ty"].replace(" ", "").startswith("Option<"):
                                args.append(FS("Some", ("O", "known")) if next(it) else FNONE)
                            else:
                                args.append(("O", i["pat"].get("name", "arg")))
                        if w.call_fn(fn, [FE(ty, op)] + args) != FNONE:
                            wrong.append("%s%s" % (op, combo))
                if not ops:
                    raise FUnsupported("operators of %s not found" % ty)
                ctx.check(R, key, not wrong, "evaluated for %d operators x %d operand combinations; a fact is returned although an operand is unknown: %s" % (len(ops), 2 ** arity - 1, wrong[:6]), site(EI, fn))
            except FUnsupported as ex:
                ctx.missing(R, key, "no match / if-let / let-else on the operand facts, and the evaluator cannot decide: %s" % ex)
            continue
        bad = []
        if top["k"] == "Match":
            for a in top["arms"]:
                pat = a["pat"]
                elems = pat["elems"] if pat["k"] == "PTuple" else [pat]
                allsome = len(elems) == arity and all(render(x).startswith("Some(") for x in elems)
                if not allsome and render(strip(a["body"])) != "None":
                    bad.append("arm %s => %s" % (render(pat), render(a["body"])[:40]))
        else:
            pat = top["cond"]["pat"]
            elems = pat["elems"] if pat["k"] == "PTuple" else [pat]
            allsome = len(elems) == arity and all(render(x).startswith("Some(") for x in elems)
            els = top["else"]
            if not allsome or els is None or render(strip(els)) != "None":
                bad.append("if let %s .. else %s" % (render(pat), render(els)[:40] if els else "-"))
        ctx.check(R, key, not bad, "; ".join(bad), site(EI, fn))


def rule_degrees(ctx, R):
    ctx.rule(R, "operand discipline of degree propagation: a degree is attached to an expression node only when the degree of every semantic operand of that node kind is known and flows into it (required operands per kind frozen in the checker)")
    analyse(ctx, R, "degree", REQUIRED_DEGREES)
    helper_all_some(ctx, R, "degree")


def rule_values(ctx, R):
    ctx.rule(R, "operand discipline of value propagation: a constant is attached to an expression node only from known operand constants; no value for calls, arrays, accesses, updates")
    # when the value rules of every expression kind were decided by evaluation (c06.eval_value_rules: what is stored for
    # each combination of known / unknown operand facts), the shape analysis of the same function is not needed
    decided = False
    try:
        import core as _core
        import c06 as _c06

        sub = _core.Ctx(ctx.pid, ctx.tier)
        decided = _c06.eval_value_rules(sub, R)
        if decided:
            for o in sub.obs:
                ctx._add(R, o.key.split("/", 1)[1] if "/" in o.key else o.key, o.ok, o.detail, o.site)
    except Exception:
        decided = False
    if not decided:
        analyse(ctx, R, "value", REQUIRED_VALUES)
    helper_all_some(ctx, R, "value")
