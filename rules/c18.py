"""C18 Tuples and anonymous components are desugared completely and faithfully."""
import re

import a10
import facts
import grammar
from astlib import calls, find_fn, fns_in_file, last, method_calls, pat_paths, render, site, strip, walk
from pathcond import conditions_to, fact_str, facts_str, let_env

TITLE = "Desugaring"
LEVEL_TEXT = (
    "sanitisation flow: in every arm of the four removers every expression-carrying field is tested with the matching"
    " containment predicate under an error return, or replaced by the result of the matching remover, and every statement field"
    " goes through the recursive call; the statement kinds the IR lifting cannot handle are eliminated for templates and"
    " rejected for functions; the containment traversal visits every child; input/output binding uses declaration order;"
    " named inputs keep their operator; `_` targets consume their value; the whole pipeline (27 stage outcomes x 4 function kinds) and the anonymous-component expansion (positional / named / permuted / faulty calls, loop context, statement position) are evaluated on table worlds. An anonymous call on the right of an assignment is evaluated through the statement remover: the output is assigned with the operator written."
)
NOT_DECIDED = "equality of the findings with those of the hand-written expansion."
TRUSTED = ["syn parser", "enum definitions read from the source", "alias closure of the flow analysis is a may-analysis (it can miss a gap, it cannot invent one)"]

SSR = "parser/src/syntax_sugar_remover.rs"
SST = "parser/src/syntax_sugar_traits.rs"
AST = "program_structure/src/abstract_syntax_tree/ast.rs"
IRL = "program_structure/src/intermediate_representation/lifting.rs"
CFL = "program_structure/src/control_flow_graph/lifting.rs"
TD = "program_structure/src/program_library/template_data.rs"

EXPR_T = ("Expression", "Access", "LogArgument")


def fields_of(variant):
    ex, st = [], []
    for f in variant["fields"]:
        ty = f["ty"]
        if re.search(r"\bStatement\b", ty):
            st.append(f["name"])
        elif any(re.search(r"\b%s\b" % t, ty) for t in EXPR_T):
            ex.append(f["name"])
    return ex, st


from a10 import alias_closure  # noqa: E402,F401


def sanitised(body, field, K, T, self_name):
    """-> (ok, how)"""
    reach = alias_closure(body, field)
    # (i) containment test under an error return
    for n in walk(body):
        if n["k"] == "If":
            tests = [m for m in method_calls(n["cond"], K)]
            for m in tests:
                names = {p["path"] for p in walk(m["recv"]) if p["k"] == "Path"}
                if names & (reach | ({self_name} if self_name else set())):
                    t = render(n["then"])
                    if "Err(" in t:
                        return True, "tested with %s under an error return" % K
    # (i') the same test with the branches the other way round, or named / folded into an iterator:
    #      every `Ok(..)` of the arm is reached only when the containment test was false, and the arm has an error result
    oks = [n for n in walk(body) if n["k"] == "Call" and render(n["func"]) == "Ok"]
    if oks and "Err(" in render(body):
        lets_ = {n["pat"]["name"]: n["init"] for n in walk(body) if n["k"] == "Local" and n["pat"]["k"] == "PIdent" and n["init"] is not None and not n["pat"].get("mut")}

        def guarded(okn):
            for f in conditions_to(body, okn) or []:
                if f[0] == "if" and not f[2]:
                    e_ = strip(f[1])
                    if e_["k"] == "Path" and e_["path"] in lets_:
                        e_ = lets_[e_["path"]]  # a named test whose definition has control flow inside (closure with match)
                    for m in method_calls(e_, K):
                        names = {p["path"] for p in walk(m["recv"]) if p["k"] == "Path"}
                        if names & (reach | ({self_name} if self_name else set())):
                            return True
            return False

        if all(guarded(o) for o in oks):
            return True, "every Ok result is reached only when %s was false" % K
    # (ii) replaced by the remover's result
    for n in walk(body):
        if n["k"] == "Call" and n["func"]["k"] == "Path" and last(n["func"]["path"]) == T:
            for a in n["args"]:
                if {p["path"] for p in walk(a) if p["k"] == "Path"} & reach:
                    return True, "passed through %s" % T
    return False, "flows into the result untested (aliases: %s)" % sorted(reach)


def eval_remover_flow(ctx, R, fname, en_name, en, sugar_kind, expr_remover, is_stmt):
    """One remover evaluated on an instance of every node kind, the recursive call and the expression remover replaced
    by recording stubs: (a) with a sugar node (tuple / anonymous component) put in each child position in turn the node
    is rejected or the sugar is handed to a remover; (b) without sugar the result is Ok and every child - or what
    the remover made of it - is part of the result.  Returns the set of node kinds decided this way."""
    import passeval
    from finfun import NONE, S, Unsupported
    from passeval import Leaves, O, Sink, V

    try:
        w = passeval.PassWorld([AST, "program_structure/src/abstract_syntax_tree/expression_impl.rs", "program_structure/src/abstract_syntax_tree/statement_impl.rs", SST, SSR], SSR)
    except Exception:
        return set()
    w.lenient_opaque = True
    fn = w.free.get(fname)
    if fn is None:
        return set()
    anon = sugar_kind == "AnonymousComponent"

    def sugar(lv):
        if anon:
            return V("Expression", "AnonymousComponent", meta=O("sugar-meta"), id="T", is_parallel=False, params=("L", ()), signals=("L", (lv.expr("sugar-input"),)), names=NONE)
        return V("Expression", "Tuple", meta=O("sugar-meta"), values=("L", (lv.expr("sugar0"), lv.expr("sugar1"))))

    def contains(x, what, depth=0):
        if x is what:
            return True
        if depth > 8:
            return False
        if isinstance(x, Sink):
            return any(contains(y, what, depth + 1) for y in x.items)
        if isinstance(x, (tuple, list)):
            return any(contains(y, what, depth + 1) for y in x if isinstance(y, (tuple, list, dict, Sink)))
        if isinstance(x, dict):
            return any(contains(y, what, depth + 1) for y in x.values())
        return False

    def has_kind(x, kind, depth=0):
        if depth > 10:
            return False
        if isinstance(x, tuple) and len(x) > 3 and x[0] == "V" and x[2] == kind:
            return True
        if isinstance(x, Sink):
            return any(has_kind(y, kind, depth + 1) for y in x.items)
        if isinstance(x, (tuple, list)):
            return any(has_kind(y, kind, depth + 1) for y in x if isinstance(y, (tuple, list, dict, Sink)))
        if isinstance(x, dict):
            return any(has_kind(y, kind, depth + 1) for y in x.values())
        return False

    def argv_for(node):
        out = []
        for i in fn["sig"]["inputs"]:
            t_ = i["ty"].replace(" ", "")
            if t_ in ("Statement", "Expression"):
                out.append(node)
            elif t_.startswith("&Option<"):
                out.append(NONE)
            else:
                out.append(O(i["pat"].get("name", "arg")))
        return out

    def node_index(f_):
        for j, i in enumerate(f_["sig"]["inputs"]):
            if i["ty"].replace(" ", "") in ("Statement", "Expression"):
                return j
        return 0

    node_ix = node_index(fn)
    expr_ix = node_index(w.free[expr_remover]) if expr_remover in w.free else 0

    def shares(h, planted_):
        """is `h` built from parts of the planted node (e.g. a copy of it with one flag changed)?"""
        if not (isinstance(planted_, tuple) and planted_ and planted_[0] == "V"):
            return False
        parts = [v_ for v_ in planted_[3].values() if isinstance(v_, tuple) and v_ and v_[0] in ("O", "L") and (v_[0] == "O" or v_[1])]
        return any(contains(h, p_) for p_ in parts)

    decided = set()
    for vname, vdef in en.items():
        exf, stf = fields_of(vdef)
        if not exf and not stf:
            continue
        # child positions
        lv0 = Leaves()
        node0, _b = passeval.build_node(en_name, vname, vdef, lv0, True)
        if node0[0] != "V":
            continue
        positions = []
        for f_ in vdef["fields"]:
            t_ = f_["ty"].replace(" ", "")
            if t_ in ("Expression", "Box<Expression>"):
                positions.append((f_["name"], None, "e"))
            elif t_ == "Vec<Expression>":
                positions += [(f_["name"], 0, "e"), (f_["name"], 1, "e")]
            elif t_ == "Vec<Access>":
                positions.append((f_["name"], "access", "e"))
            elif t_ == "Vec<LogArgument>":
                positions.append((f_["name"], "log", "e"))
            elif t_ in ("Statement", "Box<Statement>"):
                positions.append((f_["name"], None, "s"))
            elif t_ == "Vec<Statement>":
                positions += [(f_["name"], 0, "s"), (f_["name"], 1, "s")]
            elif t_ == "Option<Box<Statement>>":
                positions.append((f_["name"], "opt", "s"))
        problems = []
        unsupported = None
        worlds = [None] + positions + ([(f_, i_, k_, "nested") for f_, i_, k_ in positions] if not anon else [(f_, i_, k_, w_) for f_, i_, k_ in positions if k_ == "e" for w_ in ("in-call", "in-operator")])
        # an assignment to `_` (the value is discarded, the right-hand side is still desugared and checked)
        discard = vname == "Substitution" and any(f_["name"] == "var" and f_["ty"].replace(" ", "") == "String" for f_ in vdef["fields"])
        if discard:
            worlds = worlds + [p_ + ("to-underscore",) for p_ in positions] + ["underscore-prefixed-name"]
        for pos in worlds:
            lv = Leaves()
            node, _b = passeval.build_node(en_name, vname, vdef, lv, True)
            if pos == "underscore-prefixed-name":
                # `_tmp <-- e` assigns a signal that happens to start with an underscore: only `_` itself discards
                node[3]["var"] = "_tmp"
                pos = None
            if pos is not None and pos[-1] == "to-underscore":
                node[3]["var"] = "_"
                pos = pos[:-1]
            planted = None
            if pos is not None:
                fld, ix, kind = pos[:3]
                sg = sugar(lv)
                if len(pos) > 3 and pos[3] == "nested":
                    # a tuple inside a tuple: splitting the outer one does not remove the sugar
                    sg = V("Expression", "Tuple", meta=O("outer-sugar-meta"), values=("L", (sg, lv.expr("sugar2"))))
                elif len(pos) > 3 and pos[3] == "in-call":
                    # an anonymous component as an argument of a call (e.g. `parallel T(U()(3))`)
                    sg = V("Expression", "Call", meta=O("call-meta"), id="T", args=("L", (sg,)))
                elif len(pos) > 3 and pos[3] == "in-operator":
                    # an anonymous component as an operand (e.g. `parallel (U()(3) + 1)`): neither a call nor an anonymous component itself
                    sg = V("Expression", "InfixOp", meta=O("operator-meta"), lhe=sg, infix_op=O("operator"), rhe=lv.expr("other-operand"))
                planted = sg if kind == "e" else V("Statement", "Return", meta=O("stmt-meta"), value=sg)
                if ix is None:
                    node[3][fld] = planted
                elif ix == "opt":
                    node[3][fld] = S("Some", planted)
                elif ix == "access":
                    node[3][fld] = ("L", (S("ArrayAccess", planted), S("ComponentAccess", "out")))
                elif ix == "log":
                    node[3][fld] = ("L", (S("LogStr", "text"), S("LogExp", planted)))
                else:
                    items = list(node[3][fld][1])
                    items[ix] = planted
                    node[3][fld] = ("L", tuple(items))
            handed = []
            made = {}

            contexts = []

            def expr_stub(args, handed=handed, made=made, contexts=contexts):
                x = args[expr_ix] if expr_ix < len(args) else args[0]
                handed.append(x)
                contexts.append(args[-1])
                # what the remover returns is free of the sugar it removes
                out = ("O", "desugared-expression#%d" % len(made), (("carries", x), ("is_tuple", False), ("is_anonymous_component", False), ("contains_tuple", ("PY", lambda *a: False)), ("contains_anonymous_component", ("PY", lambda *a: False)), ("meta", O("desugared-meta"))))
                made[id(out)] = x
                if anon:
                    return S("Ok", ("T", (Sink(), Sink(), out)))
                return S("Ok", out)

            def stmt_stub(args, handed=handed, made=made, contexts=contexts):
                x = args[node_ix] if node_ix < len(args) else args[0]
                handed.append(x)
                contexts.append(args[-1])
                out = ("O", "desugared-statement#%d" % len(made), (("carries", x),))
                made[id(out)] = x
                if anon:
                    return S("Ok", ("T", (out, Sink())))
                return S("Ok", out)

            stubs = {expr_remover: expr_stub}
            if is_stmt:
                stubs[fname] = stmt_stub
            else:
                stubs[fname] = expr_stub
            w.stubs = stubs
            try:
                res = w.call_fn(fn, argv_for(node))
                if pos is None and anon and any(i["ty"].replace(" ", "").startswith("&Option<") for i in fn["sig"]["inputs"]):
                    # the same node inside an indexed context (a loop body): the context is handed down to every child
                    # (a loop statement itself hands down its own counter instead)
                    del contexts[:]
                    lv2 = Leaves()
                    node2, _b2 = passeval.build_node(en_name, vname, vdef, lv2, True)
                    ctxv = S("Some", O("enclosing-loop-counter"))
                    w.call_fn(fn, [ctxv if i["ty"].replace(" ", "").startswith("&Option<") else a_ for i, a_ in zip(fn["sig"]["inputs"], argv_for(node2))])
                    lost = [c_ for c_ in contexts if c_ is not ctxv and not (vname == "While" and isinstance(c_, tuple) and len(c_) > 2 and c_[1] == "Some")]
                    if lost:
                        problems.append("inside a loop body, %d of the %d child(ren) are desugared as if they were outside any loop (the loop counter is not handed down)" % (len(lost), len(contexts)))
            except (Unsupported, passeval.Panic) as u:
                unsupported = str(u)
                break
            finally:
                w.stubs = {}
            is_err = isinstance(res, tuple) and len(res) > 2 and res[1] == "Err"
            is_ok = isinstance(res, tuple) and len(res) > 2 and res[1] == "Ok"
            if pos is not None:
                same_kind = [h for h in handed if isinstance(h, tuple) and len(h) > 2 and h[0] == "V" and h[2] == sugar_kind]
                # desugared on the spot: the result holds no node of the sugar kind any more, and still holds what the sugar held
                sg_node = planted if pos[2] == "e" else planted[3]["value"]
                def held_by(nd):
                    out_ = []
                    for v_ in nd[3].values():
                        if isinstance(v_, tuple) and v_ and v_[0] == "L":
                            for y in v_[1]:
                                out_ += held_by(y) if isinstance(y, tuple) and len(y) > 3 and y[0] == "V" and y[2] == sugar_kind else [y]
                    return out_

                held = held_by(sg_node)
                in_place = is_ok and not has_kind(res, sugar_kind) and bool(held) and all(contains(res, y) for y in held)
                if not (in_place or is_err or any(contains(h, planted) or shares(h, planted if pos[2] == "e" else planted[3]["value"]) for h in handed) or same_kind):
                    problems.append("a %s in %s%s is neither rejected nor handed to a remover" % ("tuple" if not anon else "anonymous component", pos[0], "" if pos[1] is None else "[%s]" % pos[1]))
            else:
                if not is_ok:
                    problems.append("a node without any sugar is rejected")
                else:
                    # every child (or what a remover made of it) is part of the result
                    for f_ in vdef["fields"]:
                        val = node[3].get(f_["name"])
                        t_ = f_["ty"].replace(" ", "")
                        if t_ not in ("Expression", "Box<Expression>", "Statement", "Box<Statement>", "Vec<Expression>", "Vec<Statement>", "Option<Box<Statement>>"):
                            continue
                        kids = list(val[1]) if isinstance(val, tuple) and val and val[0] == "L" else ([val[2][0]] if isinstance(val, tuple) and len(val) > 2 and val[1] == "Some" else [val])
                        for kid in kids:
                            through = [o_ for o_, x in ((o2, made[id(o2)]) for o2 in _objs(res) if id(o2) in made) if x is kid]
                            if not (contains(res, kid) or through):
                                problems.append("child `%s` is missing from the result (what it held disappears from the program)" % f_["name"])
        if unsupported is not None:
            ctx.note("%s/%s is outside the evaluator's subset (%s): shape obligations apply" % (fname, vname, unsupported))
            continue
        decided.add(vname)
        ctx.check(R, "%s/%s/sugar-removed-and-children-kept" % (fname, vname), not problems, "; ".join(sorted(set(problems))[:3]) or "sugar in any of the %d child position(s) is rejected or desugared; without sugar every child is kept" % len(positions), SSR)
    return decided


def _objs(x, depth=0):
    """all opaque objects inside a value"""
    from passeval import Sink

    if depth > 8:
        return
    if isinstance(x, Sink):
        for y in x.items:
            yield from _objs(y, depth + 1)
    elif isinstance(x, tuple):
        if x and x[0] == "O":
            yield x
        for y in x:
            if isinstance(y, (tuple, list, dict, Sink)):
                yield from _objs(y, depth + 1)
    elif isinstance(x, list):
        for y in x:
            yield from _objs(y, depth + 1)
    elif isinstance(x, dict):
        for y in x.values():
            yield from _objs(y, depth + 1)


def rule_flow(ctx):
    R = "C18.1"
    ctx.rule(R, "in every arm of the removers every expression-carrying field of the matched node is tested with the matching containment predicate under an error return, or passed through the matching expression remover; every statement-carrying field goes through the recursive call")
    st_enum = a10.enum_def(AST, "Statement")
    ex_enum = a10.enum_def(AST, "Expression")
    if st_enum is None or ex_enum is None:
        return ctx.missing(R, "ast enums")
    n = 0
    for fname, K, T, en, is_stmt in (
        ("remove_anonymous_from_statement", "contains_anonymous_component", "remove_anonymous_from_expression", st_enum, True),
        ("remove_tuples_from_statement", "contains_tuple", "remove_tuple_from_expression", st_enum, True),
        ("remove_anonymous_from_expression", "contains_anonymous_component", "remove_anonymous_from_expression", ex_enum, False),
        ("remove_tuple_from_expression", "contains_tuple", "remove_tuple_from_expression", ex_enum, False),
    ):
        fn = find_fn(SSR, fname)
        if fn is None:
            ctx.missing(R, fname)
            continue
        ms = [m for m in walk(fn["body"]) if m["k"] == "Match"]
        if not ms:
            ctx.missing(R, fname + "/match")
            continue
        m = ms[0]
        scr = render(strip(m["scrut"]))
        # every node goes through the arms: no exit of the function before the match on the node (a `nothing to do`
        # shortcut skips what the arms do besides removing sugar, e.g. the `_ <op> e` rule or the rejection of leftovers)
        from pathcond import find_path

        pth = find_path(fn["body"], m) or []
        early = []
        for parent, _slot, child in pth:
            if parent["k"] == "Block":
                for st_ in parent["stmts"]:
                    if st_ is child:
                        break
                    early += [x for x in walk(st_) if x["k"] == "Return"]
        ctx.check(R, "%s/no-shortcut-before-the-arms" % fname, not early, "%d `return` before the match on the node" % len(early), site(SSR, early[0]) if early else site(SSR, fn))
        self_name = "expr" if not is_stmt else None
        seen = set()
        decided_v = eval_remover_flow(ctx, R, fname, "Statement" if is_stmt else "Expression", en, "AnonymousComponent" if "anonymous" in fname else "Tuple", T, is_stmt)
        for arm in m["arms"]:
            pats = arm["pat"]["cases"] if arm["pat"]["k"] == "POr" else [arm["pat"]]
            for p in pats:
                v = last(pat_paths(p)[0])
                if v not in en:
                    if v == "_":
                        ctx.bad(R, "%s/catch-all-arm" % fname, "a catch-all arm hides node kinds from the flow analysis", site(SSR, arm))
                    continue
                seen.add(v)
                if v in decided_v:
                    n += len(fields_of(en[v])[0]) + len(fields_of(en[v])[1])
                    continue  # decided by evaluation above
                binds, rest = a10.pattern_bindings(p)
                exf, stf = fields_of(en[v])
                body = arm["body"]
                unreachable = any(mc["name"] in ("unreachable", "panic") for mc in walk(body) if mc["k"] == "Macro") and len(list(walk(body))) < 6
                if unreachable:
                    ctx.ok(R, "%s/%s/unreachable-by-stage-order" % (fname, v), "arm is unreachable!: the other remover runs first (checked by C18.2)", site(SSR, arm))
                    continue
                for f in exf:
                    n += 1
                    key = "%s/%s.%s" % (fname, v, f)
                    b = binds.get(f)
                    if b is None or b == "<pattern>":
                        # not bound: the arm must test / transform the whole node instead
                        whole = self_name is not None and any(True for mc in method_calls(body, K) if render(strip(mc["recv"])) == self_name and True)
                        ctx.check(R, key, whole, "field `%s` is not bound by the pattern and the whole node is not tested with %s" % (f, K), site(SSR, arm))
                        continue
                    ok, how = sanitised(body, b, K, T, self_name)
                    ctx.check(R, key, ok, "%s.%s %s" % (v, f, how), site(SSR, arm))
                    # .. and no way through the arm returns a node without it: every Ok(..) of the arm is built from
                    # the field (directly, or from what the remover made of it)
                    reach_f = alias_closure(body, b)
                    dropped = []
                    for okn in [c_ for c_ in walk(body) if c_["k"] == "Call" and render(c_["func"]) == "Ok" and c_["args"]]:
                        names_ = {p_["path"] for p_ in walk(okn["args"][0]) if p_["k"] == "Path"}
                        if names_ & reach_f or scr in names_:
                            continue  # built from the field, or the node is returned whole
                        if fname == "remove_tuples_from_statement" and any(c_[0] == "if" and not c_[2] and render(c_[1]).replace(" ", "") in ('(var=="_")',) for c_ in (conditions_to(body, okn) or [])) is False and any(c_[0] == "if" and c_[2] and render(c_[1]).replace(" ", "") == '(var=="_")' for c_ in (conditions_to(body, okn) or [])):
                            continue  # reviewed: `_ = e` is dropped by the LAST stage only, after the anonymous-component stage extracted every input
                        dropped.append(render(okn)[:70])
                    if dropped:
                        ctx.bad(R, key + "/kept-on-every-path", "a result of the arm is built without `%s` (%s): what the field held (e.g. a `<--` input of an anonymous component) disappears from the program" % (f, dropped[:2]), site(SSR, arm))
                    else:
                        ctx.ok(R, key + "/kept-on-every-path", "", site(SSR, arm))
                for f in stf:
                    n += 1
                    key = "%s/%s.%s" % (fname, v, f)
                    b = binds.get(f)
                    reach = alias_closure(body, b) if b else set()
                    ok = any(c for c in calls(body, fname) if any({p["path"] for p in walk(a) if p["k"] == "Path"} & reach for a in c["args"]))
                    ctx.check(R, key, ok, "statement field `%s` does not go through the recursive %s" % (f, fname), site(SSR, arm))
        for v in en:
            if v not in seen:
                ctx.bad(R, "%s/%s/arm-missing" % (fname, v), "no arm for node kind " + v)
    ctx.floor(R, "fields", n, 50)


def panicking_variants(file, qual_re):
    out = set()
    for q, f in fns_in_file(file):
        if f["name"] == "try_lift" and re.search(qual_re, q):
            for m in walk(f["body"]):
                if m["k"] == "Match" and render(strip(m["scrut"])) == "self":
                    for a in m["arms"]:
                        if any(mc["k"] == "Macro" and mc["name"] in ("panic", "unreachable", "unimplemented") for mc in walk(a["body"])):
                            for p in pat_paths(a["pat"]):
                                out.add(last(p))
    return out


def constructed_variants(fn, enum_variants):
    out = set()
    for n in walk(fn["body"]):
        if n["k"] == "Struct":
            segs = n["path"].split("::")
            if segs[-1] in enum_variants and (len(segs) == 1 or segs[-2] in ("Statement", "Expression")):
                out.add((segs[-1], n["line"]))
        if n["k"] == "Call" and n["func"]["k"] == "Path":
            name = last(n["func"]["path"])
            b = {"build_multi_substitution": "MultiSubstitution", "build_tuple": "Tuple", "build_anonymous_component": "AnonymousComponent", "build_anonymous_component_statement": "MultiSubstitution"}.get(name)
            if b:
                out.add((b, n["line"]))
    return out


def rule_init_order(ctx, R):
    """The declarations collected while desugaring are put in front of the template body.  The generated loop counters
    (`anon_var_..`, declared and set to 0 there) occur as dimensions of the generated component arrays, so their
    initialisation must come before the component declarations - otherwise the declaration reads an unassigned
    variable, SSA conversion fails and the whole template is dropped with an error."""
    fn = find_fn(SSR, "remove_syntactic_sugar")
    if fn is None:
        return ctx.missing(R, "remove_syntactic_sugar")
    sep = [n for n in walk(fn["body"]) if n["k"] == "Local" and n.get("init") is not None and any(c["k"] == "Call" and c["func"]["k"] == "Path" and last(c["func"]["path"]) == "separate_declarations_in_comp_var_subs" for c in walk(n["init"]))]
    if len(sep) != 1 or sep[0]["pat"]["k"] != "PTuple" or len(sep[0]["pat"]["elems"]) != 3:
        return ctx.missing(R, "remove_syntactic_sugar/separated-declarations")
    names = [render(x).replace("mut ", "").strip() for x in sep[0]["pat"]["elems"]]
    comp, _vars, subs = names
    # position (in source order) at which each part enters the block that is put in front of the body
    def first_use(nm):
        best = None
        for n in walk(fn["body"]):
            if n["k"] == "Path" and n["path"] == nm and n is not None:
                ln = n.get("line", 0)
                if ln and (best is None or ln < best) and ln > sep[0].get("line", 0):
                    best = ln
        return best
    lc, ls = first_use(comp), first_use(subs)
    ctx.check(R, "remove_syntactic_sugar/counters-initialised-before-component-declarations", lc is not None and ls is not None and ls < lc, "the substitutions (counter initialisations) enter the initial block at line %s, the component declarations at line %s" % (ls, lc), site(SSR, sep[0]))


def rule_always_desugared(ctx, R):
    """whatever was parsed is desugared before it is handed on: the call is not under any condition on the program"""
    LIBF = "parser/src/lib.rs"
    import parseval

    parseval.rule(ctx, R, aspects=["desugaring", "no-panic"], floor=False)
    n = 0
    for q, f in fns_in_file(LIBF):
        for c in walk(f["body"]):
            if c["k"] == "Call" and c["func"]["k"] == "Path" and last(c["func"]["path"]) == "remove_syntactic_sugar":
                n += 1
                conds = [x for x in (conditions_to(f["body"], c) or [])]
                extra = [fact_str(x) for x in conds if not ((x[0] in ("arm", "iflet")) and "ParseResult::" in fact_str(x))]
                ctx.check(R, "%s/desugaring-unconditional[%d]" % (f["name"], n), not extra, "remove_syntactic_sugar only under %s: in the other case templates reach the lifting with tuples / anonymous components" % extra, site(LIBF, c))
    ctx.floor(R, "desugaring call sites", n, 1)  # (the program and the library case may share one call)


def eval_sugar_pipeline(ctx, R):
    """`remove_syntactic_sugar` by evaluation, the two removers replaced by stand-ins that succeed or fail per
    definition: three templates x (both stages succeed | the first fails | the second fails) and four functions (clean,
    containing a tuple, containing an anonymous component, rejected by the tuple remover).  A template is kept exactly
    when both stages succeed, with the second stage's result as its body; the second stage is given the block
    [generated counters' declarations, their initialisations, generated component declarations, the desugared
    statements] in that order; the first stage is given the table the function was given and no loop context; each
    failure puts its report into the collection once; functions are kept exactly when they are clean.
    Returns True when decided."""
    import itertools

    import passeval
    from finfun import E, NONE, S, Unsupported
    from passeval import MMap, O, Panic, Sink, V

    try:
        w = passeval.PassWorld([AST, "program_structure/src/abstract_syntax_tree/expression_impl.rs", "program_structure/src/abstract_syntax_tree/statement_impl.rs", SST, SSR], SSR)
    except Exception:  # noqa: BLE001
        return False
    w.lenient_opaque = True
    fn = w.free.get("remove_syntactic_sugar")
    if fn is None:
        return False
    tys = [i["ty"].replace(" ", "") for i in fn["sig"]["inputs"]]
    if len(tys) != 4 or not tys[3].startswith("&mut"):
        return False
    bad = {}
    n = 0
    names = ["A", "B", "C"]
    try:
        for outcome in itertools.product(("ok", "fail1", "fail2"), repeat=3):
            bodies, metas, stmts0, decls, rep1, rep2, finals, copies, built = {}, {}, {}, {}, {}, {}, {}, {}, {}
            stage1_args, stage2_args = [], []
            tpl = MMap()
            for i, nm in enumerate(names):
                body = ("O", "body-of-" + nm, (("clone", ("PY", (lambda nm=nm: bodies[nm]))),))
                bodies[nm] = body
                metas[nm] = ("O", "meta-of-" + nm, (("clone", ("PY", (lambda nm=nm: metas[nm]))),))
                stmts0[nm] = [O("statement-%s.0" % nm), O("statement-%s.1" % nm)]
                decls[nm] = {
                    "comp": V("Statement", "Declaration", meta=O("m"), xtype=E("VariableType", "Component"), name="c_" + nm, dimensions=("L", ()), is_constant=False),
                    "anon": V("Statement", "Declaration", meta=O("m"), xtype=E("VariableType", "AnonymousComponent"), name="a_" + nm, dimensions=("L", ()), is_constant=False),
                    "var": V("Statement", "Declaration", meta=O("m"), xtype=E("VariableType", "Var"), name="i_" + nm, dimensions=("L", ()), is_constant=True),
                    "sub": V("Statement", "Substitution", meta=O("m"), var="i_" + nm, access=("L", ()), op=O("op"), rhe=O("zero")),
                }
                rep1[nm], rep2[nm], finals[nm] = O("stage-1-error-" + nm), O("stage-2-error-" + nm), O("final-body-" + nm)

                def clone_template(nm=nm):
                    cell = {}
                    cp = ("O", "copy-of-template-" + nm, (("set:get_mut_body", ("PY", lambda v, cell=cell: cell.__setitem__("body", v))), ("get_body", ("PY", lambda cell=cell: cell.get("body")))))
                    copies.setdefault(nm, []).append((cp, cell))
                    return cp

                tpl.pairs.append([nm, ("O", "template-" + nm, (("get_body", body), ("clone", ("PY", clone_template))))])
            flib = O("file_library")

            def stage1(args, outcome=outcome):
                nm = [k_ for k_, b_ in bodies.items() if b_ is args[2]]
                if not nm:
                    raise Unsupported("the first stage is given %r" % (args[2],))
                nm = nm[0]
                stage1_args.append((nm, args))
                if outcome[names.index(nm)] == "fail1":
                    return S("Err", rep1[nm])
                st = Sink()
                st.items = list(stmts0[nm])
                ds = Sink()
                ds.items = [decls[nm]["comp"], decls[nm]["var"], decls[nm]["sub"], decls[nm]["anon"]]
                return S("Ok", ("T", (V("Statement", "Block", meta=metas[nm], stmts=st), ds)))

            def stage2(args, outcome=outcome):
                a = args[0]
                if isinstance(a, tuple) and len(a) > 3 and a[0] == "V" and a[2] == "Block":
                    flat = []

                    def ids(x):
                        for y in (x.items if isinstance(x, Sink) else (x[1] if isinstance(x, tuple) and x and x[0] == "L" else [])):
                            flat.append(y)

                    ids(a[3].get("stmts"))
                    nm = None
                    for k_ in names:
                        if any(y is stmts0[k_][0] for y in flat) or a[3].get("meta") is metas[k_]:
                            nm = k_
                    if nm is None:
                        raise Unsupported("the second stage is given a block of unknown origin")
                    stage2_args.append((nm, flat))
                    if outcome[names.index(nm)] == "fail2":
                        return S("Err", rep2[nm])
                    return S("Ok", finals[nm])
                # a function body
                fk = [k_ for k_, b_ in fbodies.items() if b_ is a]
                if not fk:
                    raise Unsupported("the second stage is given %r" % (a,))
                return S("Err", frep["bad"]) if fk[0] == "bad" else S("Ok", O("checked"))

            fbodies, frep = {}, {"bad": O("function-error-bad")}
            fns_ = MMap()
            for kind in ("clean", "tuple", "anon", "bad"):
                fb = ("O", "function-body-" + kind, (("contains_tuple", ("PY", lambda r_, kind=kind: kind == "tuple")), ("contains_anonymous_component", ("PY", lambda r_, kind=kind: kind == "anon")), ("clone", ("PY", (lambda kind=kind: fbodies[kind])))))
                fbodies[kind] = fb
                fns_.pairs.append([kind, ("O", "function-" + kind, (("get_body", fb), ("clone", ("PY", (lambda kind=kind: ("O", "copy-of-function-" + kind, ()))))))])
            w.stubs = {
                "remove_anonymous_from_statement": stage1, "remove_tuples_from_statement": stage2,
                "build_initialization_block": lambda a: V("Statement", "InitializationBlock", meta=a[0], xtype=a[1], initializations=a[2]),
                "build_block": lambda a: V("Statement", "Block", meta=a[0], stmts=a[1]),
            }
            reports = Sink()
            res = w.call_fn(fn, [tpl, fns_, flib, reports])
            n += 1
            tag = "templates A, B, C: %s" % ", ".join(outcome)
            if not (isinstance(res, tuple) and res[0] == "T" and len(res[1]) == 2 and isinstance(res[1][0], MMap) and isinstance(res[1][1], MMap)):
                raise Unsupported("the result is %r" % (res,))
            newt, newf = res[1]
            for i, nm in enumerate(names):
                kept = newt.find(nm)
                if (kept is not None) != (outcome[i] == "ok"):
                    bad.setdefault("kept", "%s: template %s is %s" % (tag, nm, "kept" if kept is not None else "dropped"))
                if kept is not None:
                    cp = [c_ for c_ in copies.get(nm, []) if c_[0] is kept[1]]
                    if not cp or cp[0][1].get("body") is not finals[nm]:
                        bad.setdefault("body", "%s: the body stored for template %s is not the result of the second stage" % (tag, nm))
                c1 = sum(1 for y in reports.items if y is rep1[nm])
                c2 = sum(1 for y in reports.items if y is rep2[nm])
                if c1 != (1 if outcome[i] == "fail1" else 0) or c2 != (1 if outcome[i] == "fail2" else 0):
                    bad.setdefault("reports", "%s: the errors of template %s are in the collection %d and %d time(s)" % (tag, nm, c1, c2))
                calls1 = [a_ for k_, a_ in stage1_args if k_ == nm]
                if len(calls1) != 1:
                    bad.setdefault("stages", "%s: the first stage runs %d time(s) on template %s" % (tag, len(calls1), nm))
                elif calls1[0][0] is not tpl or calls1[0][3] != NONE:
                    bad.setdefault("table", "%s: the first stage is given %s as template table and %s as loop context" % (tag, "a copy" if isinstance(calls1[0][0], MMap) else "something else", "none" if calls1[0][3] == NONE else "one"))
                calls2 = [f_ for k_, f_ in stage2_args if k_ == nm]
                if (len(calls2) == 1) != (outcome[i] != "fail1"):
                    bad.setdefault("stages", "%s: the second stage runs %d time(s) on template %s" % (tag, len(calls2), nm))
                elif calls2:
                    flat = calls2[0]
                    kinds = []
                    for y in flat:
                        if isinstance(y, tuple) and len(y) > 3 and y[0] == "V" and y[2] == "InitializationBlock":
                            inner = y[3].get("initializations")
                            inner = list(inner.items) if isinstance(inner, Sink) else (list(inner[1]) if isinstance(inner, tuple) and inner and inner[0] == "L" else [])
                            kinds.append(("init", y[3].get("xtype")[2] if isinstance(y[3].get("xtype"), tuple) else None, tuple("comp" if z is decls[nm]["comp"] else "anon" if z is decls[nm]["anon"] else "var" if z is decls[nm]["var"] else "?" for z in inner)))
                        elif y is decls[nm]["sub"]:
                            kinds.append(("sub",))
                        elif any(y is z for z in stmts0[nm]):
                            kinds.append(("stmt", [k3 for k3, z in enumerate(stmts0[nm]) if z is y][0]))
                        else:
                            kinds.append(("?",))
                    want = [("init", "Var", ("var",)), ("sub",), ("init", "Component", ("comp", "anon")), ("stmt", 0), ("stmt", 1)]
                    if kinds != want:
                        bad.setdefault("order", "%s: the block given to the second stage for template %s is %s" % (tag, nm, kinds))
            for kind in ("clean", "tuple", "anon", "bad"):
                if (newf.find(kind) is not None) != (kind == "clean"):
                    bad.setdefault("functions", "%s: the function %s is %s" % (tag, {"clean": "without sugar", "tuple": "containing a tuple", "anon": "containing an anonymous component", "bad": "rejected by the tuple remover"}[kind], "kept" if newf.find(kind) is not None else "dropped"))
            if sum(1 for y in reports.items if y is frep["bad"]) != 1:
                bad.setdefault("functions", "%s: the error of the rejected function is in the collection %d time(s)" % (tag, sum(1 for y in reports.items if y is frep["bad"])))
    except Unsupported as u:
        ctx.note("remove_syntactic_sugar is outside the evaluator's subset (%s): shape obligations apply" % u)
        w.stubs = {}
        return False
    except Panic as p_:
        bad.setdefault("kept", "panics (%s)" % p_)
    w.stubs = {}
    ctx.floor(R, "desugaring pipeline worlds evaluated", n, 27)
    st = site(SSR, fn)
    ctx.check(R, "remove_syntactic_sugar/templates/both-stages", "stages" not in bad, bad.get("stages", "each template goes through the first stage once and, if that succeeds, through the second once"), st)
    ctx.check(R, "remove_syntactic_sugar/templates/every-template", "kept" not in bad, bad.get("kept", "a template is kept exactly when both stages succeed, whatever happened to the others"), st)
    ctx.check(R, "remove_syntactic_sugar/templates/resolved-against-the-given-table", "table" not in bad, bad.get("table", "the first stage gets the template table handed in, and no loop context"), st)
    ctx.check(R, "remove_syntactic_sugar/templates/result-of-last-stage-is-stored", "body" not in bad, bad.get("body", "the stored body is the second stage's result"), st)
    ctx.check(R, "remove_syntactic_sugar/counters-initialised-before-component-declarations", "order" not in bad, bad.get("order", "counters' declarations, their initialisations, component declarations, then the desugared statements"), st)
    ctx.check(R, "remove_syntactic_sugar/templates/errors-reported-once", "reports" not in bad, bad.get("reports", "the error of a failed stage is in the collection once"), st)
    ctx.check(R, "remove_syntactic_sugar/functions/only-clean-functions-kept", "functions" not in bad, bad.get("functions", "a function with a tuple, an anonymous component or a statement the tuple remover rejects is dropped, with its error"), st)
    return True


def rule_elimination(ctx):
    R = "C18.2"
    ctx.rule(R, "the node kinds the IR lifting panics on and the CFG lifting does not handle itself are unconstructible in the output of the template pipeline (last remover stage) and rejected by the function filter; the anonymous-component remover runs before the tuple remover; every parsed program and library is desugared")
    rule_always_desugared(ctx, R)
    decided_pipeline = eval_sugar_pipeline(ctx, R)
    if not decided_pipeline:
        rule_init_order(ctx, R)
    ps = panicking_variants(IRL, r"ast::Statement")
    pe = panicking_variants(IRL, r"ast::Expression")
    ctx.table("lifting panics on", {"statements": sorted(ps), "expressions": sorted(pe)})
    ctx.check(R, "ir::lifting/panicking-statement-kinds-known", ps <= {"Block", "While", "IfThenElse", "MultiSubstitution", "InitializationBlock"} and ps, "statement kinds: %s" % sorted(ps), IRL)
    ctx.check(R, "ir::lifting/panicking-expression-kinds-known", pe <= {"Tuple", "AnonymousComponent"} and pe, "expression kinds: %s" % sorted(pe), IRL)
    # handled by cfg lifting itself
    fn = find_fn(CFL, "visit_statement")
    handled = set()
    if fn is not None:
        for m in walk(fn["body"]):
            if m["k"] == "Match" and render(strip(m["scrut"])) == "stmt":
                for a in m["arms"]:
                    for p in pat_paths(a["pat"]):
                        if last(p) != "_" and not any(mc["method"] == "try_lift" and render(strip(mc["recv"])) == "stmt" for mc in method_calls(a["body"])):
                            handled.add(last(p))
    residue = ps - handled
    ctx.table("residue", sorted(residue))
    ctx.check(R, "cfg::lifting/handles-control-flow-kinds", {"Block", "While", "IfThenElse", "InitializationBlock"} <= handled, "handled: %s" % sorted(handled), CFL)
    # templates: last stage = remove_tuples_from_statement / remove_tuple_from_expression must not construct residue or Tuple in Ok results
    rt = find_fn(SSR, "remove_tuples_from_statement")
    if rt is None:
        return ctx.missing(R, "remove_tuples_from_statement")
    for v in sorted(residue):
        cons = [c for c in constructed_variants(rt, {v}) if c[0] == v]
        ctx.check(R, "templates/%s/not-constructed-by-the-last-stage" % v, not cons, "%s constructed at lines %s" % (v, [c[1] for c in cons]), site(SSR, rt))
        # its own arm maps it to something else or Err
        ms = [m for m in walk(rt["body"]) if m["k"] == "Match"]
        arm = [a for a in ms[0]["arms"] if v in [last(p) for p in pat_paths(a["pat"])]] if ms else []
        ctx.check(R, "templates/%s/arm-rewrites-or-rejects" % v, len(arm) == 1, "no arm for %s" % v, site(SSR, rt))
    if decided_pipeline:
        return
    # stage order in remove_syntactic_sugar: anonymous first, then tuples; both results used
    top = find_fn(SSR, "remove_syntactic_sugar")
    if top is None:
        return ctx.missing(R, "remove_syntactic_sugar")
    an = list(calls(top["body"], "remove_anonymous_from_statement"))
    tu = [c for c in calls(top["body"], "remove_tuples_from_statement")]
    tloop = [n for n in walk(top["body"]) if n["k"] == "For" and "templates" in render(n["iter"])]
    floop = [n for n in walk(top["body"]) if n["k"] == "For" and "functions" in render(n["iter"])]
    ok = len(an) == 1 and len(tloop) == 1 and any(any(x is c for x in walk(tloop[0])) for c in tu) and any(x is an[0] for x in walk(tloop[0]))
    ctx.check(R, "remove_syntactic_sugar/templates/both-stages", ok, "anonymous x%d tuples x%d" % (len(an), len(tu)), site(SSR, top))
    # ... for every template: the first stage is reached without a test of the template and no iteration is skipped
    # (a template from an included file is lifted on demand when a user template instantiates it)
    if ok:
        cs_ = [fact_str(c) for c in (conditions_to(top["body"], an[0]) or []) if c[0] not in ("loop", "closure")]
        skips = []
        for x in walk(tloop[0]["body"]):
            if x["k"] in ("Continue", "Break"):
                fx = [fact_str(c).replace(" ", "") for c in (conditions_to(tloop[0]["body"], x) or [])]
                # leaving the iteration is the error path of a stage (its report was pushed: C02.4)
                if not any(("Err(" in f_ and ("remove_anonymous_from_statement(" in f_ or "remove_tuples_from_statement(" in f_)) for f_ in fx):
                    skips.append("%s under %s" % (x["k"], fx[:2]))
        ctx.check(R, "remove_syntactic_sugar/templates/every-template", not cs_ and not skips, "the first stage runs under %s; early exits of the template loop: %s" % (cs_, skips), site(SSR, an[0]))
    if ok:
        # anonymous components are resolved against the table the function was given, not against a copy that changes
        # while the (hash-ordered) template loop runs
        import sgrep as _sgp

        pv_top = _sgp.params(top)
        a0 = strip(an[0]["args"][0]) if an[0]["args"] else None
        lets_top = _sgp.lets(top["body"])

        def peel(x):
            while x is not None and x["k"] in ("Ref", "Paren", "Group"):
                x = x["e"]
            return x

        a0 = peel(an[0]["args"][0]) if an[0]["args"] else None
        for _ in range(4):
            if a0 is not None and a0["k"] == "Path" and a0["path"] in lets_top and peel(lets_top[a0["path"]])["k"] == "Path":
                a0 = peel(lets_top[a0["path"]])  # another name for the same table (a copy is not: it can be changed)
            else:
                break
        ctx.check(R, "remove_syntactic_sugar/templates/resolved-against-the-given-table", a0 is not None and a0["k"] == "Path" and bool(pv_top) and a0["path"] == pv_top[0], "templates are looked up in `%s`; the table handed in is `%s`: a table that shrinks or grows during the loop makes the outcome depend on the iteration order of the template map" % (render(a0) if a0 else "?", pv_top[0] if pv_top else "?"), site(SSR, an[0]))
    if ok:
        t_in = [c for c in tu if any(x is c for x in walk(tloop[0]))][0]
        ctx.check(R, "remove_syntactic_sugar/templates/anonymous-before-tuples", an[0]["line"] < t_in["line"], "the tuple remover assumes anonymous components are gone", site(SSR, top))
        t = render(tloop[0]["body"]).replace(" ", "")
        import sgrep
        lb = tloop[0]["body"]
        envt = sgrep.lets(lb)
        # the value stored as the template body is (bound from) the result of the tuple remover
        stored = [b_ for _n, b_ in sgrep.find(lb, "*__nt.get_mut_body() = __nb")]
        oks = False
        for b_ in stored:
            init = envt.get(b_["__nb"])
            oks = oks or (init is not None and any(True for _ in calls(init, "remove_tuples_from_statement"))) or "remove_tuples_from_statement" in b_["__nb"]
            oks = oks and sgrep.has(lb, "__m.insert(__k, __nt)", None, {"__nt": b_["__nt"]})
        ctx.check(R, "remove_syntactic_sugar/templates/result-of-last-stage-is-stored", oks, "the body stored for the template must be the tuple remover's result", site(SSR, top))
        # the tuple remover runs on what the anonymous remover produced
        arg = strip(t_in["args"][0])
        seen_, okd = set(), False
        frontier = [arg]
        while frontier:
            e_ = frontier.pop()
            for pth in [x["path"] for x in walk(e_) if x["k"] == "Path"]:
                if pth in seen_:
                    continue
                seen_.add(pth)
                for l_ in walk(lb):
                    if l_["k"] == "Local" and l_["init"] is not None and pth in [x["name"] for x in walk(l_["pat"]) if x["k"] == "PIdent"]:
                        if any(x is an[0] for x in walk(l_["init"])):
                            okd = True
                        frontier.append(l_["init"])
                    if l_["k"] == "If" and l_["cond"]["k"] == "Let" and pth in [x["name"] for x in walk(l_["cond"]["pat"]) if x["k"] == "PIdent"]:
                        frontier.append(l_["cond"]["e"])
        ctx.check(R, "remove_syntactic_sugar/templates/tuples-removed-from-the-desugared-body", okd, "the argument of remove_tuples_from_statement must derive from the result of remove_anonymous_from_statement", site(SSR, top))
    # functions: filter rejects tuples, anonymous components and the residue
    if len(floop) != 1:
        return ctx.missing(R, "remove_syntactic_sugar/function-loop")
    fb = floop[0]["body"]
    ins = [i for i in method_calls(fb, "insert")]
    if len(ins) != 1:
        return ctx.missing(R, "remove_syntactic_sugar/functions/insert")
    conds = conditions_to(fb, ins[0]) or []
    cs = [fact_str(c).replace(" ", "") for c in conds]
    import sgrep

    lenv = sgrep.lets(fb)
    # the function's body: `let b = <loop variable>.get_body()`
    bodies = [k_ for k_, v_ in lenv.items() if sgrep.match(sgrep.pattern("__f.get_body()"), v_, {})]

    def rejected(call_pat):
        """the insertion is reached only when `call_pat` (on the function body) was false"""
        for c in conds:
            if c[0] == "if" and not c[2]:
                for b_ in (bodies or ["body"]) + ["__f.get_body()"]:
                    if sgrep.match(sgrep.pattern(call_pat % b_), c[1], {}, None):
                        return True
        return False

    ctx.check(R, "remove_syntactic_sugar/functions/tuples-rejected", rejected("%s.contains_tuple(Some(__r))"), "function kept under %s" % cs, site(SSR, ins[0]))
    ctx.check(R, "remove_syntactic_sugar/functions/anonymous-components-rejected", rejected("%s.contains_anonymous_component(Some(__r))"), "function kept under %s" % cs, site(SSR, ins[0]))
    for v in sorted(residue):
        ok = any(c[0] == "iflet" and c[3] and render(c[1]).replace(" ", "").startswith("Ok(") and any(sgrep.match(sgrep.pattern("remove_tuples_from_statement(%s)" % b_), c[2], {}) for b_ in (bodies or ["body"]) + ["__f.get_body()"]) for c in conds)
        ctx.check(R, "remove_syntactic_sugar/functions/%s-rejected" % v, ok, "a function containing a %s that is neither a tuple assignment nor an anonymous component call (e.g. `1 = x;`) reaches the lifting, which panics; function kept under %s" % (v, cs), site(SSR, ins[0]))


def eval_contains(ctx, R):
    """the containment traversal decided by evaluation: `contains_expr` of both node types is run on one instance of
    every variant whose children are numbered leaves, with a matcher that accepts (a) exactly one leaf, for each leaf in
    turn, (b) every leaf, (c) no leaf, (d) the node itself - and must return true and call back with the meta of
    exactly the accepted nodes (all of them: a result that short-circuits skips the later reports)."""
    import passeval
    from finfun import Unsupported
    from passeval import Leaves, O

    try:
        w = passeval.PassWorld([AST, "program_structure/src/abstract_syntax_tree/expression_impl.rs", "program_structure/src/abstract_syntax_tree/statement_impl.rs", SST], SST)
    except Exception:
        return False
    n = 0
    bad = {}
    for en in ("Expression", "Statement"):
        d = a10.enum_def(AST, en)
        if not d or (en, "contains_expr") not in w.methods:
            return False
        fn = w.methods[(en, "contains_expr")][0]
        for vname, vdef in d.items():
            for with_opt in (True, False):
                lv = Leaves()
                node, below = passeval.build_node(en, vname, vdef, lv, with_opt)
                if not below and not with_opt:
                    continue
                metas = [m for _t, m in below]
                scen = [("only:" + t, {id(m)}) for t, m in below] + [("all", {id(m) for m in metas}), ("none", set())]
                if en == "Expression" and with_opt:
                    scen.append(("self", "self"))
                for tag, accept in scen:
                    called = []

                    def matcher(x, accept=accept, node=node):
                        if accept == "self":
                            return x is node or x == node
                        return isinstance(x, tuple) and x[0] == "S" and x[1] == "Number" and id(x[2][0]) in accept

                    def callback(m, called=called):
                        called.append(m)
                        return ("T", ())

                    try:
                        res = w.call_fn(fn, [node, ("PY", matcher), ("PY", callback)])
                    except Unsupported as u:
                        ctx.note("contains_expr is outside the evaluator's subset (%s): shape obligations apply" % u)
                        return False
                    except passeval.Panic as p_:
                        bad.setdefault("%s::contains_expr/%s/no-panic" % (en, vname), str(p_))
                        continue
                    n += 1
                    if accept == "self":
                        ok = res is True and len(called) == 1
                        key = "%s::contains_expr/matcher-on-self" % en
                    else:
                        want = [m for m in metas if id(m) in accept]
                        ok = res is (len(want) > 0) and sorted(map(id, called)) == sorted(map(id, want))
                        key = "%s::contains_expr/%s/every-occurrence-found" % (en, vname)
                    if not ok:
                        bad.setdefault(key, "matcher accepts %s: returns %s and reports %d node(s), expected %s and %d" % (tag, res, len(called), accept == "self" or len([m for m in metas if accept != "self" and id(m) in accept]) > 0, 1 if accept == "self" else len([m for m in metas if id(m) in accept])))
    ctx.floor(R, "traversal worlds evaluated", n, 100)
    for en in ("Expression", "Statement"):
        d = a10.enum_def(AST, en)
        for vname, vdef in d.items():
            if a10.node_fields(vdef):
                key = "%s::contains_expr/%s/every-occurrence-found" % (en, vname)
                ctx.check(R, key, key not in bad and ("%s::contains_expr/%s/no-panic" % (en, vname)) not in bad, bad.get(key) or bad.get("%s::contains_expr/%s/no-panic" % (en, vname)) or "each accepted child is found and reported, one or all of them", SST)
    key = "Expression::contains_expr/matcher-on-self"
    ctx.check(R, key, key not in bad, bad.get(key, "the matcher is applied to the node itself"), SST)
    return True


def rule_contains(ctx):
    R = "C18.3"
    ctx.rule(R, "the containment traversal used for rejection visits every child of every statement and expression kind, and the matcher is applied to the node itself")
    qs = {q: f for q, f in fns_in_file(SST) if f["name"] == "contains_expr"}
    n = 0
    decided = eval_contains(ctx, R)
    if decided:
        qs = {}
        n = 30
    for q, f in qs.items():
        if q.endswith("for Expression"):
            n += a10.check(ctx, R, SST, "contains_expr", q, AST, "Expression", {"contains_expr"}, scrutinee="self")
            t = render(f["body"]).replace(" ", "")
            import sgrep
            pvx = sgrep.params(f)
            okx = len(pvx) == 2 and any(i_["k"] == "If" and sgrep.match(sgrep.pattern("__m(self)"), i_["cond"], {"__m": pvx[0]}) and sgrep.has(i_["then"], "__c(self.meta())", None, {"__c": pvx[1]}) and any(r_["k"] == "Return" and render(strip(r_["e"])) == "true" for r_ in walk(i_["then"])) for i_ in walk(f["body"]))
            ctx.check(R, "Expression::contains_expr/matcher-on-self", okx, "", site(SST, f))
        elif q.endswith("for Statement"):
            n += a10.check(ctx, R, SST, "contains_expr", q, AST, "Statement", {"contains_expr"}, scrutinee="self")
    ctx.floor(R, "children", n, 30)
    # results are accumulated, never dropped
    for q, f in qs.items():
        who = "Expression" if q.endswith("for Expression") else "Statement"
        for m in walk(f["body"]):
            if m["k"] != "Match" or render(strip(m["scrut"])) != "self":
                continue
            for a in m["arms"]:
                body = a["body"]
                cs = list(method_calls(body, "contains_expr"))
                vname = "|".join(last(p) for p in pat_paths(a["pat"]))
                if not cs:
                    continue
                sb = strip(body)
                if len(cs) == 1 and sb is cs[0]:
                    ctx.ok(R, "%s::contains_expr/%s/result-is-the-child's" % (who, vname), "", site(SST, a))
                    continue
                from astlib import block_tail
                tail = block_tail(body) if body["k"] == "Block" else None
                bad = []
                if tail is None or render(strip(tail)) != "result":
                    bad.append("the arm's value is `%s`, not the accumulated `result`" % (render(tail)[:80] if tail is not None else render(body)[:80]))
                for c in cs:
                    stmt = None
                    for x in walk(body):
                        if (x["k"] in ("Assign", "AssignOp") or (x["k"] == "Binary" and x.get("op") in ("|=", "||="))) and any(y is c for y in walk(x)):
                            stmt = x
                    t = render(stmt).replace(" ", "") if stmt is not None else ""
                    cr = render(c).replace(" ", "")
                    if t not in ("result=(%s||result)" % cr, "result=(result||%s)" % cr, "result=(%s|result)" % cr, "result=(result|%s)" % cr, "(result|=%s)" % cr, "result|=%s" % cr):
                        bad.append("child result not or-ed into `result`: %s" % (t or cr)[:100])
                ctx.check(R, "%s::contains_expr/%s/results-accumulated" % (who, vname), not bad, "; ".join(bad), site(SST, a))
    for nm, pred in (("contains_tuple", "expr.is_tuple()"), ("contains_anonymous_component", "expr.is_anonymous_component()")):
        f = None
        for q, ff in fns_in_file(SST):
            if ff["name"] == nm:
                f = ff
        if f is None:
            ctx.missing(R, nm)
            continue
        import sgrep
        envl = sgrep.lets(f["body"])
        pred_m = pred.split(".")[-1].replace("()", "")
        # the matcher given to contains_expr is a closure `|e| e.<pred>()`
        ms_ = [b for _n, b in sgrep.find(f["body"], "self.contains_expr(__m, __cb)", envl)]
        okm = bool(ms_)
        for _n, b in sgrep.find(f["body"], "self.contains_expr(__m, __cb)"):
            m_expr = b["__m"].lstrip("&")
            init = envl.get(m_expr)
            okm = okm and init is not None and sgrep.has(init, "|__e| __e.%s()" % pred_m)
        ctx.check(R, nm + "/matcher", okm, "every contains_expr call must be given the closure `|e| e.%s()`" % pred_m, site(SST, f))
        pushes = [p for p in method_calls(f["body"], "push") if "into_report" in render(p["args"][0])]
        ctx.check(R, nm + "/reports-each-occurrence", len(pushes) >= 1 and len(ms_) == 2, "with a report collection every occurrence is reported through the callback (%d push, %d traversals)" % (len(pushes), len(ms_)), site(SST, f))


def eval_children_desugared(ctx, R):
    """remove_tuple_from_expression on every expression kind, once per child position with a *tuple* put in that
    position, the recursive call replaced by a recording stub: the tuple must either be handed to the recursive call
    or the node rejected with an error - it must not come out untouched (the lifting panics on a tuple)."""
    import passeval
    from finfun import S, Unsupported
    from passeval import Leaves, O, V

    try:
        w = passeval.PassWorld([AST, "program_structure/src/abstract_syntax_tree/expression_impl.rs", SST, SSR], SSR)
    except Exception:
        return False
    w.lenient_opaque = True
    fn = w.free.get("remove_tuple_from_expression")
    d = a10.enum_def(AST, "Expression")
    if fn is None or not d:
        return False
    decided = 0
    for vname, vdef in d.items():
        if not a10.node_fields(vdef):
            continue
        lv0 = Leaves()
        node0, _b = passeval.build_node("Expression", vname, vdef, lv0, True)
        if node0[0] != "V":
            continue
        # child positions: (field, index or None)
        positions = []
        for f_ in vdef["fields"]:
            val = node0[3].get(f_.get("name"))
            t_ = f_["ty"].replace(" ", "")
            if t_ in ("Expression", "Box<Expression>"):
                positions.append((f_["name"], None))
            elif t_ == "Vec<Expression>":
                positions += [(f_["name"], 0), (f_["name"], 1)]
            elif t_ in ("Vec<Access>",):
                positions.append((f_["name"], "access"))
        bad = []
        n_ok = 0
        unsupported = None
        for fld, ix in positions:
            lv = Leaves()
            node, _b = passeval.build_node("Expression", vname, vdef, lv, True)
            inner = V("Expression", "Tuple", meta=O("inner-meta"), values=("L", (lv.expr("inner0"), lv.expr("inner1"))))
            if ix is None:
                node[3][fld] = inner
            elif ix == "access":
                node[3][fld] = ("L", (S("ArrayAccess", inner), S("ComponentAccess", "out")))
            else:
                items = list(node[3][fld][1])
                items[ix] = inner
                node[3][fld] = ("L", tuple(items))
            seen_ = []

            def stub(args, seen_=seen_):
                seen_.append(args[0])
                return S("Ok", args[0])

            w.stubs = {"remove_tuple_from_expression": stub}
            try:
                res = w.call_fn(fn, [node])
            except (Unsupported, passeval.Panic) as u:
                unsupported = str(u)
                break
            finally:
                w.stubs = {}
            is_err = isinstance(res, tuple) and len(res) > 2 and res[1] == "Err"
            if is_err or any(x is inner for x in seen_):
                n_ok += 1
            else:
                bad.append("%s%s" % (fld, "" if ix is None else "[%s]" % ix))
        if unsupported is not None:
            ctx.note("remove_tuple_from_expression/%s is outside the evaluator's subset (%s)" % (vname, unsupported))
            continue
        decided += 1
        ctx.check(R, "remove_tuple_from_expression/%s/no-tuple-left-in-a-child" % vname, not bad, "a tuple in %s is neither desugared recursively nor rejected" % bad if bad else "a tuple in any of the %d child position(s) is desugared recursively or rejected" % len(positions), SSR)
    return decided > 0


def eval_declarations_kept(ctx, R):
    """remove_anonymous_from_statement on the statement kinds that contain statements, with the recursive call replaced
    by a stub that returns one fresh declaration per child: the declarations returned for the node must contain the
    declaration of *every* child (a component declared for one branch of an `if` is hoisted like any other)."""
    import passeval
    from finfun import NONE, S, Unsupported
    from passeval import Leaves, O, Sink, V

    try:
        w = passeval.PassWorld([AST, "program_structure/src/abstract_syntax_tree/expression_impl.rs", "program_structure/src/abstract_syntax_tree/statement_impl.rs", SST, SSR], SSR)
    except Exception:
        return False
    w.lenient_opaque = True
    fn = w.free.get("remove_anonymous_from_statement")
    if fn is None:
        return False
    d = a10.enum_def(AST, "Statement")
    decided = 0
    for vname in ("IfThenElse", "While", "Block", "InitializationBlock"):
        vdef = d.get(vname)
        if vdef is None:
            continue
        for with_opt in ((True, False) if vname == "IfThenElse" else (True,)):
            lv = Leaves()
            node, _below = passeval.build_node("Statement", vname, vdef, lv, with_opt)
            made = []

            def stub(args, made=made):
                st = [a for a in args if isinstance(a, tuple) and a and a[0] == "V" and a[1] == "Statement"]
                dcl = O("declaration-for-child#%d" % len(made))
                made.append(dcl)
                out = Sink()
                out.items = [dcl]
                return S("Ok", ("T", (st[0] if st else O("stmt"), out)))

            w.stubs = {"remove_anonymous_from_statement": stub}
            argv = []
            for i in fn["sig"]["inputs"]:
                t_ = i["ty"].replace(" ", "")
                if t_ == "Statement":
                    argv.append(node)
                elif t_.startswith("&Option<"):
                    argv.append(NONE)
                else:
                    argv.append(O(i["pat"].get("name", "arg")))
            try:
                res = w.call_fn(fn, argv)
            except (Unsupported, passeval.Panic) as u:
                ctx.note("remove_anonymous_from_statement/%s is outside the evaluator's subset (%s)" % (vname, u))
                continue
            finally:
                w.stubs = {}
            decided += 1
            key = "remove_anonymous_from_statement/%s%s/declarations-of-every-child-returned" % (vname, "" if with_opt else "(no else)")
            ok = isinstance(res, tuple) and len(res) > 2 and res[1] == "Ok" and isinstance(res[2][0], tuple) and res[2][0][0] == "T" and len(res[2][0][1]) == 2
            got = []
            if ok:
                dd = res[2][0][1][1]
                got = dd.items if isinstance(dd, Sink) else (list(dd[1]) if isinstance(dd, tuple) and dd and dd[0] == "L" else [])
            missing = [m[1] for m in made if not any(g is m for g in got)]
            ctx.check(R, key, ok and bool(made) and not missing, "children desugared: %d, their declarations missing from the result: %s" % (len(made), missing), SSR)
    return decided > 0


def eval_tuple_assignment(ctx, R):
    """`(t1, .., tn) op (e1, .., em)` through remove_tuples_from_statement (the expression remover replaced by the
    identity): for n = m the result is the block of `ti op ei` in order, without the positions whose target is `_`
    (their values are consumed all the same); for n != m an error."""
    import passeval
    from finfun import NONE, S, Unsupported
    from passeval import O, Sink, V

    try:
        w = passeval.PassWorld([AST, "program_structure/src/abstract_syntax_tree/expression_impl.rs", "program_structure/src/abstract_syntax_tree/statement_impl.rs", SST, SSR], SSR)
    except Exception:
        return False
    w.lenient_opaque = True
    fn = w.free.get("remove_tuples_from_statement")
    if fn is None:
        return False
    ix = 0
    for j, i in enumerate(w.free["remove_tuple_from_expression"]["sig"]["inputs"]) if "remove_tuple_from_expression" in w.free else []:
        if i["ty"].replace(" ", "") == "Expression":
            ix = j
    w.stubs = {"remove_tuple_from_expression": lambda args: S("Ok", args[ix])}
    bad = None
    n = 0
    try:
        for targets, nvals in ((["x", "_", "y"], 3), (["_", "x"], 2), (["x"], 1), (["x", "y"], 3), (["x", "y", "z"], 2)):
            tv = Sink()
            tv.items = [V("Expression", "Variable", meta=O("meta-of-%s#%d" % (t, k)), name=t, access=("L", ())) for k, t in enumerate(targets)]
            vals = [O("value%d" % k) for k in range(nvals)]
            vv = Sink()
            vv.items = list(vals)
            op = O("op")
            stmt = V("Statement", "MultiSubstitution", meta=O("stmt-meta"), lhe=V("Expression", "Tuple", meta=O("lhe-meta"), values=tv), op=op, rhe=V("Expression", "Tuple", meta=O("rhe-meta"), values=vv))
            res = w.call_fn(fn, [stmt])
            n += 1
            is_err = isinstance(res, tuple) and len(res) > 2 and res[1] == "Err"
            if len(targets) != nvals:
                if not is_err:
                    bad = bad or "%d targets, %d values: accepted" % (len(targets), nvals)
                continue
            subs = [x for x in _objs_k(res) if x[1] == "build_substitution"]
            got = [(x[2][1], x[2][4]) for x in subs if len(x[2]) >= 5]
            want = [(t, vals[k]) for k, t in enumerate(targets) if t != "_"]
            if is_err or len(got) != len(want) or any(a[0] != b[0] or a[1] is not b[1] for a, b in zip(got, want)):
                bad = bad or "targets %s: produces %s, expected %s" % (targets, [(a, b[1] if isinstance(b, tuple) else b) for a, b in got], [(a, b[1]) for a, b in want])
    except (Unsupported, passeval.Panic) as u:
        ctx.note("remove_tuples_from_statement/MultiSubstitution is outside the evaluator's subset (%s): shape obligations apply" % u)
        return False
    finally:
        w.stubs = {}
    ctx.check(R, "tuples/element-wise-in-order", bad is None and n == 5, bad or "ti op ei in order; `_` targets consume their value and produce nothing; unequal lengths are an error", SSR)
    return True


def _objs_k(x, depth=0):
    """opaque call results (K) inside a value, in order"""
    from passeval import Sink

    if depth > 8:
        return
    if isinstance(x, Sink):
        for y in x.items:
            yield from _objs_k(y, depth + 1)
    elif isinstance(x, tuple):
        if x and x[0] == "K":
            yield x
        for y in x:
            if isinstance(y, (tuple, list, dict, Sink)):
                yield from _objs_k(y, depth + 1)
    elif isinstance(x, dict):
        for y in x.values():
            yield from _objs_k(y, depth + 1)


def eval_anonymous(ctx, R):
    """`T(params)(signals)` through remove_anonymous_from_expression: the template declares inputs (c, a, b) - not in
    alphabetical order - and the call binds them positionally, by name in declaration order, or by name permuted, with
    different operators per name.  The statements returned must instantiate the component first and then assign, for
    every declared input in declaration order, the value bound to that input with the operator written next to it
    (`<==` for positional calls) to that input's port; a missing name, a wrong number of signals and an unknown
    template are errors.  Returns True when decided."""
    import passeval
    from finfun import E, NONE, S, Unsupported
    from passeval import MMap, O, Sink, V

    try:
        w = passeval.PassWorld([AST, "program_structure/src/abstract_syntax_tree/expression_impl.rs", "program_structure/src/abstract_syntax_tree/statement_impl.rs", "program_structure/src/abstract_syntax_tree/assign_op_impl.rs", SST, SSR], SSR)
    except Exception:
        return False
    w.lenient_opaque = True
    fn = w.free.get("remove_anonymous_from_expression")
    if fn is None:
        return False
    tys = [i["ty"].replace(" ", "") for i in fn["sig"]["inputs"]]
    if len(tys) != 4 or tys[2] != "Expression" or not tys[3].startswith("&Option<"):
        return False

    def L(xs):
        return ("L", tuple(xs))

    w.stubs = {
        "build_call": lambda a: V("Expression", "Call", meta=a[0], id=a[1], args=a[2]),
        "build_parallel_op": lambda a: V("Expression", "ParallelOp", meta=a[0], rhe=a[1]),
        "build_array_access": lambda a: S("ArrayAccess", a[0]),
        "build_declaration": lambda a: V("Statement", "Declaration", meta=a[0], xtype=a[1], name=a[2], dimensions=a[3], is_constant=False),
        "build_substitution": lambda a: V("Statement", "Substitution", meta=a[0], var=a[1], access=a[2], op=a[3], rhe=a[4]),
        "build_variable": lambda a: V("Expression", "Variable", meta=a[0], name=a[1], access=a[2]),
        "build_tuple": lambda a: V("Expression", "Tuple", meta=a[0], values=a[1]),
    }
    DECL = ["c", "a", "b"]
    OPS = {"<--": E("AssignOp", "AssignSignal"), "<==": E("AssignOp", "AssignConstraintSignal"), "=": E("AssignOp", "AssignVar")}
    tbody = ("O", "template-body", (("get_meta", ("O", "meta-of-the-template-body", ())),))
    tdata = ("O", "template-data", (("get_declaration_inputs", L(("T", (nm, 0)) for nm in DECL)), ("get_declaration_outputs", L([("T", ("z_out", 0)), ("T", ("a_out", 0))])), ("get_body", tbody), ("get_name", "T"), ("get_file_id", O("file-of-the-template")), ("get_param_location", O("location-in-the-template")), ("get_body_as_vec", L([]))))
    flib = ("O", "file_library", (("get_line", ("PY", lambda *a: S("Some", 7))),))
    bad = {}
    n = 0

    def leafs(k):
        return [V("Expression", "Variable", meta=O("meta-of-signal%d" % i), name="s%d" % i, access=L([])) for i in range(k)]

    worlds = [
        ("positional", None, 3, "ok"),
        ("named in declaration order", [("<--", "c"), ("<==", "a"), ("<--", "b")], 3, "ok"),
        ("named, permuted", [("<--", "b"), ("<==", "c"), ("<--", "a")], 3, "ok"),
        ("named, all `<--`", [("<--", "a"), ("<--", "b"), ("<--", "c")], 3, "ok"),
        ("named, one input missing", [("<--", "c"), ("<==", "a"), ("<--", "x")], 3, "err"),
        ("positional, one signal too few", None, 2, "err"),
        ("positional, one signal too many", None, 4, "err"),
        ("named, one signal too many", [("<--", "c"), ("<==", "a"), ("<--", "b"), ("<--", "b")], 4, "err"),
        ("unknown template", None, 3, "unknown"),
    ]
    try:
        for tag, names, nsig, outcome in worlds:
            for access in (None, "idx"):
                sigs = leafs(nsig)
                meta = ("O", "call-meta", (("start", 1234), ("get_file_id", O("file-id")), ("clone", ("PY", lambda: meta_holder[0]))))
                meta_holder = [meta]
                nv = NONE if names is None else S("Some", L(("T", (OPS[o_], nm_)) for o_, nm_ in names))
                node = V("Expression", "AnonymousComponent", meta=meta, id="T", is_parallel=False, params=L([]), signals=L(sigs), names=nv)
                templates = MMap([] if outcome == "unknown" else [["T", tdata]])
                va = NONE if access is None else S("Some", V("Expression", "Variable", meta=O("index-meta"), name="i", access=L([])))
                res = w.call_fn(fn, [templates, flib, node, va])
                n += 1
                wtag = "%s%s" % (tag, "" if access is None else ", inside an indexed context")
                is_err = isinstance(res, tuple) and len(res) > 2 and res[1] == "Err"
                if outcome != "ok":
                    if not is_err:
                        bad.setdefault("errors", "%s: accepted" % wtag)
                    else:
                        # the error is reported at the call (the file the user is looking at), not at something looked up
                        # elsewhere: the constructor of the report is handed the call's own meta
                        def ctor(v_, depth=0):
                            if depth > 6 or not isinstance(v_, tuple) or not v_:
                                return None
                            if v_[0] == "K" and (v_[1].endswith("boxed_report") or v_[1].endswith("Error::new") or v_[1].endswith("Report::error")):
                                return v_
                            if v_[0] in ("K", "S") and len(v_) > 2:
                                for a_ in v_[2]:
                                    r_ = ctor(a_, depth + 1)
                                    if r_ is not None:
                                        return r_
                            if v_[0] == "K" and w.k_receiver(v_) is not None:
                                return ctor(w.k_receiver(v_), depth + 1)  # `X::new(..).into_report()`
                            return None
                        c_ = ctor(res[2][0])
                        if c_ is not None and c_[2]:
                            a0 = c_[2][0]
                            while isinstance(a0, tuple) and len(a0) > 2 and a0[0] == "S" and a0[1] == "Some":
                                a0 = a0[2][0]
                            if isinstance(a0, tuple) and a0 and a0[0] == "O" and a0 is not meta and a0[1] != "call-meta":
                                bad.setdefault("error-location", "%s: the error is located at `%s`, not at the call" % (wtag, a0[1]))
                    continue
                if is_err or not (isinstance(res, tuple) and len(res) > 2 and res[1] == "Ok" and isinstance(res[2][0], tuple) and res[2][0][0] == "T" and len(res[2][0][1]) == 3):
                    bad.setdefault("errors", "%s: returns %s" % (wtag, "an error" if is_err else repr(res)[:120]))
                    continue
                stmts = res[2][0][1][0]
                items = list(stmts.items) if isinstance(stmts, Sink) else (list(stmts[1]) if isinstance(stmts, tuple) and stmts[0] == "L" else None)
                if items is None:
                    raise Unsupported("the statement list is %r" % (stmts,))
                def flat(xs):
                    out_ = []
                    for x in xs:
                        if isinstance(x, tuple) and len(x) > 3 and x[0] == "V" and x[2] in ("Block", "InitializationBlock") and "stmts" in x[3]:
                            inner = x[3]["stmts"]
                            out_ += flat(list(inner.items) if isinstance(inner, Sink) else list(inner[1]))
                        else:
                            out_.append(x)
                    return out_

                subs = [x for x in flat(items) if isinstance(x, tuple) and len(x) > 3 and x[0] == "V" and x[2] == "Substitution"]
                if not subs or not (isinstance(subs[0][3]["rhe"], tuple) and subs[0][3]["rhe"][0] == "V" and subs[0][3]["rhe"][2] in ("Call", "ParallelOp")) or subs[0][3]["op"] != OPS["="]:
                    bad.setdefault("instantiation", "%s: the first statement is not the instantiation of the component" % wtag)
                    continue
                fresh = subs[0][3]["var"]
                ins = subs[1:]
                # the value of the call: the outputs in declaration order
                oute = res[2][0][1][2]
                outs = oute[3].get("values") if isinstance(oute, tuple) and len(oute) > 3 and oute[0] == "V" and oute[2] == "Tuple" else None
                outs = list(outs.items) if isinstance(outs, Sink) else (list(outs[1]) if isinstance(outs, tuple) and outs and outs[0] == "L" else None)
                onames = []
                for o_ in outs or []:
                    acc_ = o_[3].get("access") if isinstance(o_, tuple) and len(o_) > 3 and o_[0] == "V" else None
                    acc_ = list(acc_.items) if isinstance(acc_, Sink) else (list(acc_[1]) if isinstance(acc_, tuple) and acc_ and acc_[0] == "L" else [])
                    onames.append(acc_[-1][2][0] if acc_ and isinstance(acc_[-1], tuple) and acc_[-1][1] == "ComponentAccess" else None)
                if onames != ["z_out", "a_out"]:
                    bad.setdefault("outputs", "%s: the call evaluates to the outputs %s, declared are z_out, a_out in this order" % (wtag, onames if outs is not None else "(not a tuple)"))
                bound = {nm_: (sigs[k], OPS[o_]) for k, (o_, nm_) in enumerate(names)} if names is not None else {nm_: (sigs[k], OPS["<=="]) for k, nm_ in enumerate(DECL)}
                if len(ins) != len(DECL):
                    bad.setdefault("binding", "%s: %d input assignment(s) for %d declared inputs" % (wtag, len(ins), len(DECL)))
                    continue
                for k, nm_ in enumerate(DECL):
                    st = ins[k][3]
                    acc = st["access"]
                    acc = list(acc.items) if isinstance(acc, Sink) else (list(acc[1]) if isinstance(acc, tuple) and acc[0] == "L" else [])
                    port = acc[-1] if acc else None
                    if st["var"] is not fresh and st["var"] != fresh:
                        bad.setdefault("binding", "%s: input %d is assigned to another variable than the component" % (wtag, k))
                    elif not (isinstance(port, tuple) and port[0] == "S" and port[1] == "ComponentAccess" and port[2][0] == nm_):
                        bad.setdefault("port", "%s: assignment %d goes to port %s, the %s declared input is `%s`" % (wtag, k, port[2][0] if isinstance(port, tuple) and len(port) > 2 and port[2] else port, ["first", "second", "third"][k], nm_))
                    elif st["rhe"] is not bound[nm_][0]:
                        bad.setdefault("value", "%s: port `%s` is given %s, the call binds it to %s" % (wtag, nm_, st["rhe"][3].get("name") if isinstance(st["rhe"], tuple) and len(st["rhe"]) > 3 else st["rhe"], bound[nm_][0][3]["name"]))
                    elif st["op"] != bound[nm_][1]:
                        bad.setdefault("operator", "%s: port `%s` is assigned with %s, the call writes %s" % (wtag, nm_, st["op"][2] if isinstance(st["op"], tuple) else st["op"], bound[nm_][1][2]))
                    elif (access is not None) != (len(acc) == 2 and isinstance(acc[0], tuple) and acc[0][1] == "ArrayAccess"):
                        bad.setdefault("port", "%s: the access path of port `%s` is %r" % (wtag, nm_, acc))
    except (Unsupported, passeval.Panic) as u:
        ctx.note("remove_anonymous_from_expression/AnonymousComponent (binding) is outside the evaluator's subset (%s): shape obligations apply" % u)
        w.stubs = {}
        return False
    # a tuple of calls, `(x, T()(..), T()(..))`: what is returned is, component by component, what each element returns
    # on its own - the statements and declarations of every call, in order, and the values in order
    tuple_bad = None
    try:
        def call_node(k):
            m_ = ("O", "call-meta-%d" % k, (("start", 1000 * (k + 1)), ("get_file_id", O("file-id")), ("clone", ("PY", lambda: mh_[0]))))
            mh_ = [m_]
            return V("Expression", "AnonymousComponent", meta=m_, id="T", is_parallel=False, params=L([]), signals=L(leafs(3)), names=NONE)

        def parts(res_):
            if not (isinstance(res_, tuple) and len(res_) > 2 and res_[1] == "Ok" and isinstance(res_[2][0], tuple) and res_[2][0][0] == "T" and len(res_[2][0][1]) == 3):
                raise Unsupported("the expansion returns %r" % (res_,))
            a_, b_, c_ = res_[2][0][1]
            lst = lambda x: list(x.items) if isinstance(x, Sink) else (list(x[1]) if isinstance(x, tuple) and x and x[0] == "L" else None)  # noqa: E731
            if lst(a_) is None or lst(b_) is None:
                raise Unsupported("statement lists %r / %r" % (a_, b_))
            return lst(a_), lst(b_), c_

        for shape in ([0, "leaf", 1], [0, 1, 2], ["leaf", 0]):
            elems = [leafs(1)[0] if x == "leaf" else call_node(x) for x in shape]
            tmeta = O("tuple-meta")
            tup = V("Expression", "Tuple", meta=tmeta, values=L(elems))
            whole = parts(w.call_fn(fn, [MMap([["T", tdata]]), flib, tup, NONE]))
            each = [parts(w.call_fn(fn, [MMap([["T", tdata]]), flib, e_, NONE])) for e_ in elems]
            n += 1
            want_st = [x for e_ in each for x in e_[0]]
            want_de = [x for e_ in each for x in e_[1]]
            vals = whole[2][3].get("values") if isinstance(whole[2], tuple) and len(whole[2]) > 3 and whole[2][0] == "V" and whole[2][2] == "Tuple" else None
            vals = list(vals.items) if isinstance(vals, Sink) else (list(vals[1]) if isinstance(vals, tuple) and vals and vals[0] == "L" else None)
            shown = "(%s)" % ", ".join("x" if x == "leaf" else "T()(..)" for x in shape)
            if whole[0] != want_st:
                tuple_bad = tuple_bad or "%s: %d statement(s) returned, the calls in it expand to %d" % (shown, len(whole[0]), len(want_st))
            elif whole[1] != want_de:
                tuple_bad = tuple_bad or "%s: %d declaration(s) returned, the calls in it need %d" % (shown, len(whole[1]), len(want_de))
            elif vals is None or vals != [e_[2] for e_ in each]:
                tuple_bad = tuple_bad or "%s: the values of the resulting tuple are not those of its elements, in order" % shown
    except (Unsupported, passeval.Panic) as u:
        ctx.note("remove_anonymous_from_expression/Tuple is outside the evaluator's subset (%s)" % u)
        tuple_bad = False
    if tuple_bad is not False:
        ctx.check(R, "anonymous/tuple-of-calls/every-call-expanded", tuple_bad is None, tuple_bad or "a tuple returns the statements and declarations of each of its elements, in order, and their values", site(SSR, fn))
    # a call in statement position, `T(p)(a);`, as the grammar's builder writes it, through both stages: accepted exactly
    # when the template has no outputs (outputs of an anonymous component must be consumed)
    SB = "program_structure/src/abstract_syntax_tree/statement_builders.rs"
    bfn = find_fn(SB, "build_anonymous_component_statement")
    rts = w.free.get("remove_tuples_from_statement")
    ras = w.free.get("remove_anonymous_from_statement")
    stmt_pos = None
    if bfn is not None and rts is not None and ras is not None:
        w.stubs["build_block"] = lambda a: V("Statement", "Block", meta=a[0], stmts=a[1])
        try:
            outcomes = {}
            for nout in (0, 1, 2):
                td = ("O", "template-data", (("get_declaration_inputs", L([("T", ("in", 0))])), ("get_declaration_outputs", L(("T", ("out%d" % k, 0)) for k in range(nout)))))
                meta = ("O", "call-meta", (("start", 1234), ("get_file_id", O("file-id")), ("clone", ("PY", lambda: mh2[0]))))
                mh2 = [meta]
                call = V("Expression", "AnonymousComponent", meta=meta, id="T", is_parallel=False, params=L([]), signals=L(leafs(1)), names=NONE)
                st0 = w.call_fn(bfn, [meta, call])
                r1 = w.call_fn(ras, [MMap([["T", td]]), flib, st0, NONE])
                if not (isinstance(r1, tuple) and len(r1) > 2 and r1[1] == "Ok"):
                    outcomes[nout] = "rejected by the first stage"
                    continue
                r2 = w.call_fn(rts, [r1[2][0][1][0]])
                outcomes[nout] = "accepted" if isinstance(r2, tuple) and len(r2) > 2 and r2[1] == "Ok" else "rejected"
            stmt_pos = outcomes
        except (Unsupported, passeval.Panic) as u:
            ctx.note("statement-position anonymous call: outside the evaluator's subset (%s)" % u)
    # a call on the right of an assignment, `v <-- T()(a)` / `v <== T()(a)`: the expansion ends in the assignment of the
    # component's output to `v` with the operator that was written (a `<--` that became `<==` adds a constraint and
    # hides the signal assignment from every later pass)
    out_op = None
    if ras is not None:
        try:
            seen_ops = {}
            for o_ in ("<--", "<=="):
                td = ("O", "template-data", (("get_declaration_inputs", L([("T", ("in", 0))])), ("get_declaration_outputs", L([("T", ("out0", 0))]))))
                meta = ("O", "call-meta", (("start", 1234), ("get_file_id", O("file-id")), ("clone", ("PY", lambda: mh3[0]))))
                mh3 = [meta]
                smeta = ("O", "statement-meta", (("start", 1200), ("get_file_id", O("file-id")), ("clone", ("PY", lambda: mh4[0]))))
                mh4 = [smeta]
                call = V("Expression", "AnonymousComponent", meta=meta, id="T", is_parallel=False, params=L([]), signals=L(leafs(1)), names=NONE)
                st0 = V("Statement", "Substitution", meta=smeta, var="v", access=L([]), op=OPS[o_], rhe=call)
                r1 = w.call_fn(ras, [MMap([["T", td]]), flib, st0, NONE])
                if not (isinstance(r1, tuple) and len(r1) > 2 and r1[1] == "Ok"):
                    raise Unsupported("`v %s T()(a)` is rejected: %r" % (o_, r1))

                def flat2(x):
                    if isinstance(x, tuple) and len(x) > 3 and x[0] == "V" and x[2] in ("Block", "InitializationBlock") and "stmts" in x[3]:
                        inner = x[3]["stmts"]
                        return [y for z in (list(inner.items) if isinstance(inner, Sink) else list(inner[1])) for y in flat2(z)]
                    return [x]

                tov = [x for x in flat2(r1[2][0][1][0]) if isinstance(x, tuple) and len(x) > 3 and x[0] == "V" and x[2] == "Substitution" and x[3].get("var") == "v"]
                if len(tov) != 1:
                    raise Unsupported("%d assignments to `v` in the expansion of `v %s T()(a)`" % (len(tov), o_))
                seen_ops[o_] = tov[0][3]["op"]
            out_op = seen_ops
        except (Unsupported, passeval.Panic) as u:
            ctx.note("assignment of an anonymous call: outside the evaluator's subset (%s)" % u)
    if out_op is not None:
        wrong = ["`v %s T()(a)` ends in an assignment of the output with %s" % (o_, v_[2] if isinstance(v_, tuple) and len(v_) > 2 else v_) for o_, v_ in out_op.items() if v_ != OPS[o_]]
        ctx.check(R, "anonymous/assigned-call/operator-kept", not wrong, "; ".join(wrong) or "`v <-- T()(a)` and `v <== T()(a)` assign the component's output to `v` with the operator that was written", site(SSR, ras))
    w.stubs = {}
    if stmt_pos is not None:
        okp_ = stmt_pos.get(0) == "accepted" and stmt_pos.get(1, "").startswith("rejected") and stmt_pos.get(2, "").startswith("rejected")
        ctx.check(R, "anonymous/statement-position-call", okp_, "`T(p)(a);` for a template with 0 / 1 / 2 outputs is %s / %s / %s; expected accepted / rejected / rejected (it stands for `() <== T(p)(a)`: unused outputs are an error, no outputs is fine)" % (stmt_pos.get(0), stmt_pos.get(1), stmt_pos.get(2)), site(SSR, fn))
    ctx.floor(R, "anonymous component call worlds evaluated", n, 18)
    ctx.check(R, "anonymous/instantiation-first", "instantiation" not in bad, bad.get("instantiation", "the component is instantiated before any of its inputs is assigned"), site(SSR, fn))
    ctx.check(R, "anonymous/input-assigned-to-its-port", "port" not in bad and "binding" not in bad, bad.get("port") or bad.get("binding") or "one assignment per declared input, in declaration order, to that input's port", site(SSR, fn))
    ctx.check(R, "anonymous/named-input/value-and-operator-by-the-same-position", "value" not in bad and "operator" not in bad, bad.get("value") or bad.get("operator") or "each port gets the value and the operator written for its own name; positional inputs get `<==`", site(SSR, fn))
    ctx.check(R, "anonymous/outputs-in-declaration-order", "outputs" not in bad, bad.get("outputs", "the value of the call is the tuple of the component's outputs in declaration order"), site(SSR, fn))
    ctx.check(R, "anonymous/inputs-in-declaration-order", "binding" not in bad and "port" not in bad, bad.get("binding") or bad.get("port") or "inputs are assigned in declaration order (c, a, b), not in name order", site(SSR, fn))
    ctx.check(R, "anonymous/error-located-at-the-call", "error-location" not in bad, bad.get("error-location", "every error about a call is handed the call's own location (a report located in another file is filtered out when that file is not an input)"), site(SSR, fn))
    ctx.check(R, "anonymous/arity-checked", "errors" not in bad, bad.get("errors", "a missing name, a wrong number of signals and an unknown template are rejected"), site(SSR, fn))
    return True


def eval_parallel_prefix(ctx, R):
    """`parallel T(p)(a)`: the parallel flag is set on the call and nothing else about it changes (the named inputs and
    their operators in particular)"""
    import passeval
    from finfun import S, Unsupported
    from passeval import O, Panic, V

    EIF = "program_structure/src/abstract_syntax_tree/expression_impl.rs"
    EBF = "program_structure/src/abstract_syntax_tree/expression_builders.rs"
    try:
        w = passeval.PassWorld([AST, EBF, EIF], EBF)
    except Exception:  # noqa: BLE001
        return
    key = ("Expression", "make_anonymous_parallel")
    if key not in w.methods:
        return ctx.missing(R, "Expression::make_anonymous_parallel")
    fn = w.methods[key][0]
    fields = {"meta": O("meta"), "id": "T", "params": ("L", (O("param"),)), "signals": ("L", (O("signal0"), O("signal1"))), "names": S("Some", ("L", (("T", (O("op0"), "a")), ("T", (O("op1"), "b"))))), "is_parallel": False}
    node = V("Expression", "AnonymousComponent", **fields)
    other = V("Expression", "Variable", meta=O("m"), name="x", access=("L", ()))
    try:
        res = w.call_fn(fn, [node])
        res2 = w.call_fn(fn, [other])
    except (Unsupported, Panic) as u:
        return ctx.missing(R, "Expression::make_anonymous_parallel/evaluation", "cannot be evaluated (fail closed): %s" % u)
    lost = []
    if not (isinstance(res, tuple) and len(res) > 3 and res[0] == "V" and res[2] == "AnonymousComponent"):
        lost.append("the result is not an anonymous component")
    else:
        for k_, v_ in fields.items():
            if k_ == "is_parallel":
                if res[3].get(k_) is not True:
                    lost.append("the parallel flag is not set")
            elif res[3].get(k_) is not v_ and res[3].get(k_) != v_:
                lost.append("`%s` is %s" % (k_, "dropped" if res[3].get(k_) in (None, ("E", "Option", "None")) else "changed"))
    if res2 is not other:
        lost.append("another expression is not returned unchanged")
    ctx.check(R, "anonymous/parallel-prefix-keeps-the-call", not lost, "; ".join(lost) or "`parallel` sets the flag; template, parameters, inputs and the named inputs with their operators are kept", site(EIF, fn))


def eval_declared_signals(ctx, R):
    """`fill_inputs_and_outputs` (the template's input / output lists the anonymous-component expansion binds by) by
    evaluation on a body with signal declarations in every place a statement can sit: several in one initialisation
    block, in both branches of an if, in a loop body, in a nested block; inputs and outputs are listed in declaration
    order, every one of them, intermediates and variables are not."""
    import passeval
    from finfun import E, NONE, S, Unsupported
    from passeval import MMap, O, Panic, Sink, V

    TD = "program_structure/src/program_library/template_data.rs"
    try:
        w = passeval.PassWorld([AST, TD], TD)
    except Exception:  # noqa: BLE001
        return
    w.lenient_opaque = True
    fn = w.free.get("fill_inputs_and_outputs")
    if fn is None:
        return ctx.missing(R, "template_data::fill_inputs_and_outputs")

    def decl(nm, kind, dims=0):
        xt = E("VariableType", "Var") if kind == "var" else S("Signal", E("SignalType", {"in": "Input", "out": "Output", "mid": "Intermediate"}[kind]), ("L", ()))
        return V("Statement", "Declaration", meta=O("m"), xtype=xt, name=nm, dimensions=("L", tuple(O("dim") for _ in range(dims))), is_constant=False)

    def sub(nm):
        return V("Statement", "Substitution", meta=O("m"), var=nm, access=("L", ()), op=O("op"), rhe=O("rhe"))

    def init(*stmts):
        return V("Statement", "InitializationBlock", meta=O("m"), xtype=O("xt"), initializations=("L", tuple(stmts)))

    def block(*stmts):
        return V("Statement", "Block", meta=O("m"), stmts=("L", tuple(stmts)))

    body = block(
        init(decl("a", "in"), sub("a"), decl("b", "in", 2)),
        init(decl("v", "var"), sub("v")),
        V("Statement", "IfThenElse", meta=O("m"), cond=O("c"), if_case=block(init(decl("o1", "out"))), else_case=S("Some", block(init(decl("c", "in"), decl("m1", "mid"))))),
        V("Statement", "While", meta=O("m"), cond=O("c"), stmt=block(init(decl("o2", "out", 1), decl("o3", "out")))),
        block(block(init(decl("d", "in")))),
        V("Statement", "IfThenElse", meta=O("m"), cond=O("c"), if_case=block(init(decl("o4", "out"))), else_case=NONE),
    )
    ins, outs, ind, outd = MMap(), MMap(), Sink(), Sink()
    try:
        w.call_fn(fn, [body, ins, outs, ind, outd])
    except Unsupported as u:
        return ctx.missing(R, "template_data::fill_inputs_and_outputs/evaluation", "cannot be evaluated (fail closed): %s" % u)
    except Panic as p_:
        return ctx.bad(R, "template_data/declared-signals-in-order", "panics (%s)" % p_, site(TD, fn))

    def names(sk):
        return [x[1][0] if isinstance(x, tuple) and x[0] == "T" else x for x in sk.items]

    gi, go = names(ind), names(outd)
    wi, wo = ["a", "b", "c", "d"], ["o1", "o2", "o3", "o4"]
    dims_ok = all((x[1][1] == {"b": 2, "o2": 1}.get(x[1][0], 0)) for x in list(ind.items) + list(outd.items) if isinstance(x, tuple) and x[0] == "T")
    maps_ok = sorted(k_ for k_, _v in ins.pairs) == sorted(wi) and sorted(k_ for k_, _v in outs.pairs) == sorted(wo)
    ctx.check(R, "template_data/declared-signals-in-order", gi == wi and go == wo and dims_ok and maps_ok, "inputs %s, outputs %s (expected %s and %s, every declared symbol of every initialisation block, with its number of dimensions)" % (gi, go, wi, wo), site(TD, fn))


def rule_binding(ctx):
    R = "C18.4"
    ctx.rule(R, "anonymous-component inputs and outputs are bound in declaration order (never the sorted name maps); a named input takes the operator written next to its own name; the arity is checked; `_` targets consume their value; the grammar keeps every input name")
    eval_declarations_kept(ctx, R)
    eval_children_desugared(ctx, R)
    fn = find_fn(SSR, "remove_anonymous_from_expression")
    if fn is None:
        return ctx.missing(R, "remove_anonymous_from_expression")
    le = let_env(fn["body"])
    import sgrep as _sg

    lookup = _sg.pattern("__ts.get(__id)")

    def is_template_lookup(e, depth=0):
        """does the expression denote the looked-up template (`templates.get(&id)`, through lets / Some bindings / unwrap)?"""
        e = strip(e)
        while e["k"] == "MethodCall" and e["method"] in ("unwrap", "as_ref", "expect", "clone"):
            e = strip(e["recv"])
        if _sg.match(lookup, e, {}):
            return True
        if e["k"] == "Path" and depth < 4:
            for n_ in walk(fn["body"]):
                if n_["k"] == "Local" and n_["init"] is not None:
                    p_ = n_["pat"]
                    if p_["k"] == "PIdent" and p_["name"] == e["path"] and is_template_lookup(n_["init"], depth + 1):
                        return True
                    if p_["k"] == "PTupleStruct" and last(p_["path"]) == "Some" and render(p_["elems"][0]).replace("&", "").strip() == e["path"] and is_template_lookup(n_["init"], depth + 1):
                        return True
                if n_["k"] == "Let" and n_["pat"]["k"] == "PTupleStruct" and last(n_["pat"]["path"]) == "Some" and render(n_["pat"]["elems"][0]).replace("&", "").strip() == e["path"] and is_template_lookup(n_["e"], depth + 1):
                    return True
        return False

    decided_anon = eval_anonymous(ctx, R)
    eval_parallel_prefix(ctx, R)
    eval_declared_signals(ctx, R)
    for nm in (("inputs", "outputs") if not decided_anon else ()):
        vs = [v_ for v_ in le.values() if strip(v_)["k"] == "MethodCall" and strip(v_)["method"] == "get_declaration_" + nm]
        okd = len(vs) == 1 and is_template_lookup(strip(vs[0])["recv"])
        ctx.check(R, "anonymous/%s-in-declaration-order" % nm, okd, "%s = %s" % (nm, render(vs[0]) if vs else "?"), site(SSR, fn))
    bad = [render(m)[:60] for m in walk(fn["body"]) if m["k"] == "MethodCall" and m["method"] in ("get_inputs", "get_outputs")]
    ctx.check(R, "anonymous/no-sorted-maps", not bad, "uses the name-sorted maps: %s" % bad, site(SSR, fn))
    # the generated component gets a name of its own: it contains the byte offset of the call (unique per call site)
    decls = [c_ for c_ in walk(fn["body"]) if c_["k"] == "Call" and c_["func"]["k"] == "Path" and last(c_["func"]["path"]) == "build_declaration"]
    lets_all = {n_["pat"]["name"]: n_["init"] for n_ in walk(fn["body"]) if n_["k"] == "Local" and n_["pat"]["k"] == "PIdent" and n_["init"] is not None}
    okn = bool(decls)
    for d_ in decls:
        nm_ = strip(d_["args"][2]) if len(d_["args"]) >= 3 else None
        if nm_ is not None and nm_["k"] == "Path" and nm_["path"] in lets_all:
            nm_ = lets_all[nm_["path"]]
        def summands(e_):
            e_ = strip(e_)
            if e_["k"] == "Binary" and e_["op"] == "+":
                return summands(e_["l"]) + summands(e_["r"])
            if e_["k"] == "Macro" and e_.get("name") == "format":
                return [{"k": "Path", "path": x} for x in re.findall(r"\{([\w.]+)", e_.get("raw", ""))] + [a_ for a_ in (e_.get("args") or [])]
            return [e_]

        parts_ = [render(strip(x)).replace(" ", "") for x in summands(nm_)] if nm_ is not None else []
        okn = okn and any(x in ("meta.start.to_string()", "meta.start", "meta.get_start().to_string()", "meta.location.start.to_string()") for x in parts_)
    ctx.check(R, "anonymous/fresh-name-contains-the-call-offset", okn, "two anonymous components on one line must not share a name (shadowing, merged definitions)", site(SSR, fn))
    class _Decided:
        """the obligations below are the shape form of what the evaluation has decided"""

        def check(self, *a_, **k_):
            return None

    cx = _Decided() if decided_anon else ctx
    import sgrep
    body = fn["body"]
    t = render(body).replace(" ", "")
    # names of the working variables, found by what they are built from
    b = {}
    r = sgrep.find(body, "let (__ops, __names) = __m.iter().cloned().unzip()")
    cx.check(R, "anonymous/named-input/names-and-operators-unzipped-together", len(r) == 1, "the (operator, name) pairs are split into two parallel vectors", site(SSR, fn))
    if r:
        b.update({k: v for k, v in r[0][1].items() if k in ("__ops", "__names")})
    ok_pos = False
    for n_, bb in sgrep.find(body, "let __pos = __names.iter().position(|__r| *__r == __inp.0).unwrap()", None, {k: v for k, v in b.items() if k == "__names"}):
        b2 = dict(b)
        b2.update({"__pos": bb["__pos"]})
        sv = sgrep.find(body, "__ns.push(__sig.get(__pos).unwrap().clone())", None, {"__pos": bb["__pos"]})
        ov = sgrep.find(body, "__no.push(*__ops.get(__pos).unwrap())", None, {"__pos": bb["__pos"], "__ops": b.get("__ops", "operators")})
        if sv and ov:
            ok_pos = True
            b["__ns"], b["__no"], b["__sig"], b["__inp"] = sv[0][1]["__ns"], ov[0][1]["__no"], sv[0][1]["__sig"], bb["__inp"]
    cx.check(R, "anonymous/named-input/value-and-operator-by-the-same-position", ok_pos, "the value and the operator of a named input must both be taken at the position of that input's name in the call", site(SSR, fn))
    ns, no, sig = b.get("__ns", "new_signals"), b.get("__no", "new_operators"), b.get("__sig", "signals")
    okp = sgrep.has(body, "__ns.clone_from(__sig)", None, {"__ns": ns, "__sig": sig}) and sgrep.has(body, "for _ in 0..__sig.len() { __no.push(AssignOp::AssignConstraintSignal); }", None, {"__no": no, "__sig": sig})
    cx.check(R, "anonymous/positional-input/constraint-assignment", okp, "positional inputs are all assigned with `<==`, one operator per signal", site(SSR, fn))
    inputs = [k for k, v in sgrep.lets(body).items() if render(strip(v)).replace(" ", "").endswith(".get_declaration_inputs()")]
    inp_name = inputs[0] if inputs else "inputs"
    ar = [i_ for i_ in walk(body) if i_["k"] == "If" and sgrep.has(i_["cond"], "__i.len() != __a.len()", None, {"__i": inp_name})]
    oka = any(("%s.len()!=%s.len()" % (inp_name, ns)) in render(i_["cond"]).replace(" ", "") and ("%s.len()!=%s.len()" % (inp_name, sig)) in render(i_["cond"]).replace(" ", "") and "Err(" in render(i_["then"]) for i_ in ar)
    cx.check(R, "anonymous/arity-checked", oka, "the number of inputs must equal both the number of bound signals and the number of signals written in the call", site(SSR, fn))
    okm = any(i_["k"] == "If" and sgrep.has(i_["cond"], "!__names.contains(__inp.0)", None, {"__names": b.get("__names", "names")}) and "Err(" in render(i_["then"]) for i_ in walk(body))
    cx.check(R, "anonymous/missing-named-input-rejected", okm, "", site(SSR, fn))
    # input i gets signal i and operator i
    cnt = [k for k, v in sgrep.lets(body).items() if render(strip(v)) == "0"]
    oki = False
    for c_ in cnt:
        if sgrep.has(body, "__ns.get(__i).unwrap().clone()", None, {"__ns": ns, "__i": c_}) and sgrep.has(body, "*__no.get(__i).unwrap()", None, {"__no": no, "__i": c_}) and sgrep.has(body, "__i += 1", None, {"__i": c_}):
            oki = True
    cx.check(R, "anonymous/input-i-gets-signal-i-and-operator-i", oki, "one counter indexes the bound signals and their operators and is advanced once per input", site(SSR, fn))
    okport = False
    for st_ in walk(body):
        if st_["k"] == "Struct" and last(st_["path"]) == "Substitution":
            fl = {x["name"]: x["e"] for x in st_["fields"]}
            if "new_operators" in render(fl.get("op", {"k": "?"})) or no in render(fl.get("op", {"k": "?"})):
                accn = render(strip(fl["access"]))
                okport = sgrep.has(body, "__acc.push(Access::ComponentAccess(__inp.0.clone()))", None, {"__acc": accn}) or sgrep.has(body, "__acc.push(Access::ComponentAccess(__inp.0))", None, {"__acc": accn})
    cx.check(R, "anonymous/input-assigned-to-its-port", okport, "the input substitution's access path ends with the input's own port name", site(SSR, fn))
    subs_inst = [c_ for c_ in walk(body) if c_["k"] == "Call" and c_["func"]["k"] == "Path" and last(c_["func"]["path"]) == "build_substitution" and len(c_["args"]) == 5 and render(strip(c_["args"][3])).endswith("AssignVar")]
    first_push = sorted([p_ for p_ in method_calls(body, "push") if "seq_substs" in render(p_["recv"]) or True], key=lambda x: x.get("mline", x["line"]))
    seqp = [p_ for p_ in method_calls(body, "push") if render(strip(p_["recv"])) in [render(strip(q["recv"])) for q in method_calls(body, "push") if any(x is y for y in walk(q["args"][0]) for x in subs_inst)] or False]
    oki2 = False
    if subs_inst:
        # the push of the instantiation precedes (in source order) every push of an input substitution into the same vector
        le_ = sgrep.lets(body)
        inst_names = [k for k, v in le_.items() if any(x is subs_inst[0] for x in walk(v))] + [None]
        pushes_ = sorted(method_calls(body, "push"), key=lambda x: x.get("mline", x["line"]))
        inst_push = [p_ for p_ in pushes_ if render(strip(p_["args"][0])) in inst_names or any(x is subs_inst[0] for x in walk(p_["args"][0]))]
        if inst_push:
            vec = render(strip(inst_push[0]["recv"]))
            same = [p_ for p_ in pushes_ if render(strip(p_["recv"])) == vec]
            oki2 = bool(same) and same[0] is inst_push[0]
    cx.check(R, "anonymous/instantiation-first", oki2, "the component is instantiated before any of its inputs is assigned", site(SSR, fn))
    okt = False
    for r_ in walk(body):
        if r_["k"] == "Return" and r_.get("e") and "Err(" in render(r_["e"]) and "does not exist" in render(r_["e"]):
            for c_ in conditions_to(body, r_) or []:
                if c_[0] == "iflet" and c_[3] and render(c_[1]).strip() == "None" and is_template_lookup(c_[2]):
                    okt = True
                if c_[0] == "if" and not c_[2] and strip(c_[1])["k"] == "MethodCall" and strip(c_[1])["method"] == "is_some" and is_template_lookup(strip(c_[1])["recv"]):
                    okt = True
    cx.check(R, "anonymous/unknown-template-rejected", okt, "", site(SSR, fn))
    # tuple assignment: element-wise, in order, `_` consumes
    rt = find_fn(SSR, "remove_tuples_from_statement")
    if rt is not None and eval_tuple_assignment(ctx, R):
        rt = None
    if rt is not None:
        rb = rt["body"]
        lr = sgrep.find(rb, "__lv.remove(0)")
        okel = False
        det = ""
        if len(lr) == 2:
            # the two vectors of the (Tuple, Tuple) arm
            vecs = [x[1]["__lv"] for x in lr]
            okel = len(set(vecs)) == 2
            det = "vectors %s" % vecs
        ctx.check(R, "tuples/element-wise-in-order", okel, "both sides are consumed from the front, one element per step (%s)" % det, site(SSR, rt))
        # the removal from the right-hand vector must not be under the `_` test
        under = False
        for n_, bb in lr:
            cs_ = [fact_str(c) for c in (conditions_to(rb, n_) or [])]
            if any('"_"' in c for c in cs_):
                under = True
        ctx.check(R, "tuples/underscore-consumes-its-value", okel and not under, "the right-hand element must be consumed even when the target is `_` (otherwise later elements shift)", site(SSR, rt))
        okun = False
        for c_ in walk(rb):
            if c_["k"] == "Call" and c_["func"]["k"] == "Path" and last(c_["func"]["path"]) == "build_substitution" and any(c[0] == "loop" for c in (conditions_to(rb, c_) or [])):
                cs_ = [fact_str(c).replace(" ", "") for c in (conditions_to(rb, c_) or [])]
                okun = any(re.fullmatch(r'\(\w+!="_"\)', c) or re.fullmatch(r'!\(\w+=="_"\)', c) for c in cs_)
        ctx.check(R, "tuples/underscore-not-assigned", okun, "an element whose target is `_` produces no substitution", site(SSR, rt))
        oklen = any(i_["k"] == "If" and re.fullmatch(r"\((\w+)\.len\(\)==(\w+)\.len\(\)\)", render(i_["cond"]).replace(" ", "")) for i_ in walk(rb))
        ctx.check(R, "tuples/length-checked", oklen, "", site(SSR, rt))
    # template data: declaration order recorded next to the maps
    td = None
    for q, f in fns_in_file(TD):
        if f["name"] == "fill_inputs_and_outputs":
            td = f
    if td is None:
        ctx.missing(R, "template_data::fill_inputs_and_outputs")
    else:
        t = render(td["body"]).replace(" ", "")
        for kind in ("input", "output"):
            ok = ("%s_signals.insert(" % kind) in t and ("%s_declarations.push(" % kind) in t
            ctx.check(R, "template_data/%s-order-recorded" % kind, ok, "every %s inserted into the map is also pushed to the declaration-order vector" % kind, site(TD, td))
    # grammar: every named input keeps (op, name)
    nts = grammar.parse()
    nt = nts.get("ListableWithInputNames")
    if nt is None or not nt["alts"]:
        ctx.missing(R, "grammar/ListableWithInputNames")
    else:
        act = (nt["alts"][0]["action"] or "").replace(" ", "")
        import terms as _terms

        lv, eff = grammar.action_leaves(nt["alts"][0])
        ok = bool(lv)
        efft = [_terms.norm(x).replace(" ", "") for x in (eff or [])]
        for leaf in lv or []:
            # (signals, Some(names)) with `names.push((op, name))` and `signals.push(signal)` executed before
            if leaf["k"] != "Tuple" or len(leaf["elems"]) != 2:
                ok = False
                continue
            sig, nm = leaf["elems"]
            nm = strip(nm)
            if not (nm["k"] == "Call" and render(nm["func"]) == "Some" and len(nm["args"]) == 1):
                ok = False
                continue
            names_t = _terms.norm(nm["args"][0]).replace(" ", "")
            sig_t = _terms.norm(sig).replace(" ", "")
            ok = ok and ("%s.push((op,name))" % names_t) in efft and ("%s.push(signal)" % sig_t) in efft and names_t != sig_t
        ctx.check(R, "grammar/named-inputs/last-name-kept", ok, "the last (or only) named input must be recorded with its operator; action: %s" % act[:200], (grammar.GRAMMAR, nt["alts"][0]["line"]))
        syms = [(s["name"], s["text"]) for s in nt["alts"][0]["symbols"]]
        ctx.check(R, "grammar/named-inputs/shape", [s[0] for s in syms] == ["e", "name", "op", "signal"], str(syms), (grammar.GRAMMAR, nt["alts"][0]["line"]))


def run(ctx):
    rule_flow(ctx)
    rule_elimination(ctx)
    rule_contains(ctx)
    rule_binding(ctx)
    import c08

    ctx.include("C18.6", "the reverse arrows `e --> x` / `e ==> x` are the forward assignment with the operands exchanged, for tuples as for scalars: the tuple remover then sees the same multi-assignment (shared with C08.1)", c08.rule_operator_chain, only=["grammar/substitution"])
    import c13

    ctx.include("C18.5", "a tuple declaration with an initialiser, `T (a, b) op e;`, declares every symbol and makes one multi-assignment with the operator written - the form the tuple remover expands element-wise (shared with C13.1)", lambda c: c13.eval_declaration_split(c, "C13.1"))
