"""Role-based alpha-normalisation.

Rules that compare conditions and statements as text depend on the names of
locals.  `canon(fn, spec)` returns a deep copy of the function in which the
identifiers that play the listed *roles* carry canonical names, so the rule
is insensitive to renaming.  A role is discovered structurally:
  (name, "param", i)                 i-th non-self parameter
  (name, "let", init_pattern)        `let [mut] X = <init matching the sgrep pattern>`
  (name, "field", Variant, field)    binding of that field in a match-arm / if-let struct pattern of Variant
  (name, "somelet", scrut_pattern)   `if let Some(X) = <scrut>`  /  `let Some(X) = <scrut> else`
  (name, "forvar", iter_pattern)     `for X in <iter>`
  (name, "whilelet", scrut_pattern)  `while let Some(X) = <scrut>`
Roles are applied in order; patterns may use the canonical names given by
earlier roles.  A role that cannot be found is reported to the caller (the
rule then fails closed for that anchor)."""
import copy

import sgrep
from astlib import last, render, strip, walk


def rename(node, mapping):
    """in-place rename of single-segment paths and bindings"""
    if isinstance(node, list):
        for x in node:
            rename(x, mapping)
        return
    if not isinstance(node, dict):
        return
    k = node.get("k")
    if k == "Path" and node["path"] in mapping:
        node["path"] = mapping[node["path"]]
    elif k == "PIdent" and node["name"] in mapping:
        node["name"] = mapping[node["name"]]
    elif k == "PStruct":
        for f in node["fields"]:
            if f["shorthand"] and f["name"] in mapping:
                # `Foo { x }` binds x: keep the field name, rename the binding
                f["shorthand"] = False
                f["pat"] = {"k": "PIdent", "line": node.get("line", 0), "name": mapping[f["name"]], "by_ref": False, "mut": False, "sub": None}
    elif k == "Struct":
        for f in node["fields"]:
            if f["shorthand"] and f["name"] in mapping:
                f["shorthand"] = False
                f["e"] = {"k": "Path", "line": node.get("line", 0), "path": mapping[f["name"]]}
    elif k == "Macro":
        # unparsed token text: rename whole-word occurrences
        import re

        raw = node.get("raw", "")
        for a, b in mapping.items():
            raw = re.sub(r"(?<![\w.])%s(?!\w)" % re.escape(a), b, raw)
        node["raw"] = raw
    for v in node.values():
        if isinstance(v, (dict, list)):
            rename(v, mapping)


def discover(fn, role):
    name, kind = role[0], role[1]
    try:
        env = sgrep.lets(fn["body"])  # the scrutinee / iterated expression may be named by a `let` first
    except Exception:
        env = None
    if kind == "param":
        ps = sgrep.params(fn)
        i = role[2]
        return ps[i] if i < len(ps) else None
    if kind == "let":
        pat = sgrep.pattern(role[2])
        for n in walk(fn["body"]):
            if n["k"] == "Local" and n["pat"]["k"] == "PIdent" and n["init"] is not None and sgrep.match(pat, n["init"], {}):
                return n["pat"]["name"]
        return None
    if kind == "field":
        variant, field = role[2], role[3]
        for n in walk(fn["body"]):
            if n["k"] == "PStruct" and last(n["path"]) == variant:
                for f in n["fields"]:
                    if f["name"] == field:
                        if f["shorthand"]:
                            return field
                        p = f["pat"]
                        while p["k"] == "PRef":
                            p = p["pat"]
                        if p["k"] == "PIdent":
                            return p["name"]
        return None
    if kind in ("oklet", "errlet"):
        pat = sgrep.pattern(role[2])
        ctor = "Ok" if kind == "oklet" else "Err"
        for n in walk(fn["body"]):
            if n["k"] == "Let" and sgrep.match(pat, n["e"], {}, env):
                p = n["pat"]
                if p["k"] == "PTupleStruct" and last(p["path"]) == ctor and p["elems"] and p["elems"][0]["k"] == "PIdent":
                    return p["elems"][0]["name"]
            if n["k"] == "Match" and sgrep.match(pat, n["scrut"], {}, env):
                for a in n["arms"]:
                    p = a["pat"]
                    if p["k"] == "PTupleStruct" and last(p["path"]) == ctor and p["elems"] and p["elems"][0]["k"] == "PIdent":
                        return p["elems"][0]["name"]
        return None
    if kind in ("somelet", "whilelet"):
        pat = sgrep.pattern(role[2])
        for n in walk(fn["body"]):
            if n["k"] == "Let" and sgrep.match(pat, n["e"], {}, env):
                p = n["pat"]
                if p["k"] == "PTupleStruct" and last(p["path"]) == "Some" and p["elems"] and p["elems"][0]["k"] == "PIdent":
                    return p["elems"][0]["name"]
            if n["k"] == "Local" and n["else"] is not None and n["init"] is not None and sgrep.match(pat, n["init"], {}, env):
                p = n["pat"]
                if p["k"] == "PTupleStruct" and last(p["path"]) == "Some" and p["elems"] and p["elems"][0]["k"] == "PIdent":
                    return p["elems"][0]["name"]
        return None
    if kind == "forvar":
        pat = sgrep.pattern(role[2])
        for n in walk(fn["body"]):
            if n["k"] == "For" and sgrep.match(pat, n["iter"], {}, env) and n["pat"]["k"] in ("PIdent",):
                return n["pat"]["name"]
            if n["k"] == "For" and sgrep.match(pat, n["iter"], {}, env) and n["pat"]["k"] == "PRef" and n["pat"]["pat"]["k"] == "PIdent":
                return n["pat"]["pat"]["name"]
        return None
    raise ValueError(kind)


def canon(fn, spec):
    """-> (normalised copy of fn, list of roles that were not found)"""
    f = copy.deepcopy(fn)
    missing = []
    for role in spec:
        actual = discover(f, role)
        if actual is None:
            if not (len(role) > 2 and role[-1] == "optional"):
                missing.append(role[0])
            continue
        if actual != role[0]:
            # avoid capture: if the canonical name is already used for something else, move that out of the way
            used = {n["path"] for n in walk(f["body"]) if n["k"] == "Path"} | {n["name"] for n in walk(f["body"]) if n["k"] == "PIdent"}
            mp = {actual: role[0]}
            if role[0] in used:
                mp[role[0]] = role[0] + "__other"
            rename(f["body"], mp)
            for i in f["sig"]["inputs"]:
                if not i.get("self"):
                    rename(i["pat"], mp)
    return f, missing


def canon_with_arms(fn, fn_roles, scrut, arm_roles):
    """canon() for the function-level roles, then per match arm (match on `scrut`) the roles listed for the
    arm's variant.  Returns (normalised copy, missing role names)."""
    from astlib import pat_paths

    f, missing = canon(fn, fn_roles)
    ms = [m for m in walk(f["body"]) if m["k"] == "Match" and render(strip(m["scrut"])) == scrut]
    if not ms:
        return f, missing + ["match " + scrut]
    for a in ms[0]["arms"]:
        for v in [last(p) for p in pat_paths(a["pat"])]:
            for role in arm_roles.get(v, []):
                pseudo = {"body": a, "sig": {"inputs": []}}
                actual = discover(pseudo, role)
                if actual is None:
                    if role[-1] != "optional":
                        missing.append("%s/%s" % (v, role[0]))
                    continue
                if actual != role[0]:
                    used = {n["path"] for n in walk(a) if n["k"] == "Path"} | {n["name"] for n in walk(a) if n["k"] == "PIdent"}
                    mp = {actual: role[0]}
                    if role[0] in used:
                        mp[role[0]] = role[0] + "__other"
                    rename(a, mp)
    return f, missing


def canon_fields(fn, specs, extra_roles=()):
    """Rename pattern bindings of struct fields to canonical names: specs = [(canonical, Variant, field)].
    Every occurrence (all arms / if-lets) is renamed; a variant/field that is never bound is ignored.
    extra_roles are ordinary canon() roles applied afterwards."""
    f = copy.deepcopy(fn)
    for canonical, variant, field in specs:
        seen_any = True
        guard = 0
        while seen_any and guard < 8:
            guard += 1
            seen_any = False
            for n in walk(f["body"]):
                if n["k"] == "PStruct" and last(n["path"]) == variant:
                    for fl in n["fields"]:
                        if fl["name"] != field:
                            continue
                        if fl["shorthand"]:
                            actual = field
                        else:
                            p = fl["pat"]
                            while p["k"] == "PRef":
                                p = p["pat"]
                            actual = p["name"] if p["k"] == "PIdent" else None
                        if actual and actual != canonical:
                            rename(f["body"], {actual: canonical})
                            seen_any = True
                            break
                if seen_any:
                    break
    missing = []
    for role in extra_roles:
        actual = discover(f, role)
        if actual is None:
            if role[-1] != "optional":
                missing.append(role[0])
            continue
        if actual != role[0]:
            rename(f["body"], {actual: role[0]})
            for i in f["sig"]["inputs"]:
                if not i.get("self"):
                    rename(i["pat"], {actual: role[0]})
    return f, missing


def arm_table(m, body_of=None):
    """{pattern text: body text} of a match, with the bindings of every arm renamed to b1, b2, .. in order of
    appearance (so that the names chosen for pattern bindings do not matter); spaces removed."""
    from astlib import block_tail

    tab = {}
    for a in m["arms"]:
        a2 = copy.deepcopy(a)
        names = []
        for n in walk(a2["pat"]):
            if n["k"] == "PIdent" and n["name"][:1].islower() and n["name"] not in names:
                names.append(n["name"])
        mp = {nm: "b%d" % (i + 1) for i, nm in enumerate(names)}
        rename(a2, mp)
        b = a2["body"]
        if b["k"] == "Block" and len(b["stmts"]) == 1 and block_tail(b) is not None:
            b = block_tail(b)
        key = render(a2["pat"]).replace(" ", "") + ((" if " + render(a2["guard"]).replace(" ", "")) if a2.get("guard") else "")
        tab[key] = render(strip(b)).replace(" ", "")
    return tab
