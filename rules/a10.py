"""A10 traversal completeness.

In a visitor that matches on an AST/IR enum, every field of node type
(Expression, Statement, Access, LogArgument - directly or inside Box / Vec /
Option) of every variant must be bound by the arm's pattern and must flow
into a recursive visitor call: directly, as the iterable of a loop whose
variable flows on, or through `if let` destructuring."""
import re

import facts
from astlib import all_items, find_fn, last, pat_paths, render, site, strip, walk

NODE_TYPES = ("Expression", "Statement", "Access", "AccessType", "LogArgument")


def enum_def(file, name):
    items = facts.ast().get(file)
    if items is None:
        return None
    for _p, it in all_items(items):
        if it["k"] == "Enum" and it["name"] == name:
            return {v["name"]: v for v in it["variants"]}
    return None


def node_fields(variant):
    out = []
    for f in variant["fields"]:
        ty = f["ty"]
        if any(re.search(r"\b%s\b" % t, ty) for t in NODE_TYPES):
            out.append(f["name"])
    return out


def pattern_bindings(pat, variant=None):
    """field -> bound identifier (or None when ignored with `_`); plus rest flag.  For an or-pattern the alternative
    naming `variant` is read (each alternative binds the same names, possibly to different fields)."""
    out = {}
    rest = False
    while pat["k"] == "PRef":
        pat = pat["pat"]
    if pat["k"] == "POr":
        cases = pat["cases"]
        pick = [c for c in cases if variant is not None and c.get("path") and last(c["path"]) == variant]
        return pattern_bindings(pick[0] if pick else cases[0], variant)
    if pat["k"] == "PStruct":
        rest = pat["rest"]
        for f in pat["fields"]:
            p = f["pat"]
            while p["k"] == "PRef":
                p = p["pat"]
            if f["shorthand"]:
                out[f["name"]] = f["name"]
            elif p["k"] == "PIdent":
                out[f["name"]] = p["name"]
            elif p["k"] == "PWild":
                out[f["name"]] = None
            else:
                out[f["name"]] = "<pattern>"
    elif pat["k"] == "PTupleStruct":
        for i, e in enumerate(pat["elems"]):
            if e["k"] == "PIdent":
                out[str(i)] = e["name"]
            elif e["k"] == "PWild":
                out[str(i)] = None
            elif e["k"] == "PRest":
                rest = True
            else:
                out[str(i)] = "<pattern>"
    return out, rest


def alias_closure(body, start, strict=False):
    """names that may hold (part of) the value bound to `start` inside `body`: through lets, loop variables,
    `if let` / `match` bindings on it, closure parameters of iterator adaptors over it, and containers it is pushed into.
    `strict`: a `let` whose initialiser chooses between alternatives (contains an if / match) is not an alias - the value
    then reaches the new name only on some executions."""
    reach = {start}
    changed = True
    nodes = list(walk(body))
    while changed:
        changed = False

        def add(name):
            nonlocal changed
            if name not in reach:
                reach.add(name)
                changed = True

        def touches(e):
            return bool({p["path"] for p in walk(e) if p["k"] == "Path"} & reach)

        for n in nodes:
            k = n["k"]
            if k == "Local" and n["init"] is not None:
                if touches(n["init"]) and not (strict and any(x["k"] in ("If", "Match") for x in walk(n["init"]))):
                    for b in walk(n["pat"]):
                        if b["k"] == "PIdent":
                            add(b["name"])
            elif k == "For":
                if touches(n["iter"]):
                    for b in walk(n["pat"]):
                        if b["k"] == "PIdent":
                            add(b["name"])
            elif k in ("If", "While") and n["cond"]["k"] == "Let":
                if touches(n["cond"]["e"]):
                    for b in walk(n["cond"]["pat"]):
                        if b["k"] == "PIdent":
                            add(b["name"])
            elif k == "Let":
                if touches(n["e"]):
                    for b in walk(n["pat"]):
                        if b["k"] == "PIdent":
                            add(b["name"])
            elif k == "Match":
                if touches(n["scrut"]):
                    for a in n["arms"]:
                        for b in walk(a["pat"]):
                            if b["k"] == "PIdent" and not b["name"][:1].isupper():
                                add(b["name"])
            elif k == "MethodCall" and n["args"] and n["args"][-1].get("k") == "Closure" and n["method"] in ("any", "all", "map", "for_each", "try_for_each", "find", "position", "filter", "filter_map", "flat_map", "fold", "try_fold", "iter_any", "map_or", "and_then", "is_some_and"):
                if touches(n["recv"]):
                    for pp in n["args"][-1]["inputs"]:
                        for b in walk(pp):
                            if b["k"] == "PIdent":
                                add(b["name"])
            elif k == "MethodCall" and n["method"] in ("push", "append", "extend", "clone_from", "insert") and n["args"]:
                if any(touches(a) for a in n["args"]):
                    r = strip(n["recv"])
                    if r["k"] == "Path":
                        add(r["path"])
    return reach


def flows_to_visitor(body, start, visitors, file=None):
    """does (part of) the value named `start` reach a call of one of `visitors` (as receiver or argument)?  With `file`,
    calls of private helper functions of that file are looked into (astlib.inline_helpers)."""
    if file is not None:
        from astlib import inline_helpers

        body = inline_helpers({"name": "__caller__", "body": body, "sig": {"inputs": []}}, file, exclude=tuple(visitors))["body"]
    reach = alias_closure(body, start)
    for n in walk(body):
        args = None
        if n["k"] == "Call" and n["func"]["k"] == "Path" and last(n["func"]["path"]) in visitors:
            args = n["args"]
        elif n["k"] == "MethodCall" and n["method"] in visitors:
            args = [n["recv"]] + n["args"]
        elif n["k"] == "MethodCall" and n["args"] and n["method"] in ("for_each", "map", "try_for_each") and n["args"][-1].get("k") == "Path" and last(n["args"][-1]["path"]) in visitors:
            args = [n["recv"]]  # xs.iter_mut().for_each(Visitor)
        if args:
            for a in args:
                if {p["path"] for p in walk(a) if p["k"] == "Path"} & reach:
                    return True
    return False


def returns_before_visit(body, start, visitors, file=None):
    """path rule: `return`s (not inside closures) in `body` that can be reached on a path on which no call of a visitor has
    yet received (part of) the value bound to `start`.  `?` is the error exit and is not counted.  returns line numbers."""
    if file is not None:
        from astlib import inline_helpers

        body = inline_helpers({"name": "__caller__", "body": body, "sig": {"inputs": []}}, file, exclude=tuple(visitors))["body"]
    reach = alias_closure(body, start)

    def leaf(node):
        if node is None:
            return False
        for n in walk(node):
            args = None
            if n["k"] == "Call" and n["func"]["k"] == "Path" and last(n["func"]["path"]) in visitors:
                args = n["args"]
            elif n["k"] == "MethodCall" and n["method"] in visitors:
                args = [n["recv"]] + n["args"]
            elif n["k"] == "MethodCall" and n["args"] and n["method"] in ("for_each", "map", "try_for_each") and n["args"][-1].get("k") == "Path" and last(n["args"][-1]["path"]) in visitors:
                args = [n["recv"]]
            if args and any({p["path"] for p in walk(a) if p["k"] == "Path"} & reach for a in args):
                return True
        return False

    def has_return(node):
        if not isinstance(node, dict) or "k" not in node:
            return False
        if node["k"] in ("Closure", "ItemStmt"):
            return False
        if node["k"] == "Return":
            return True
        return any(has_return(x) for v in node.values() for x in (v if isinstance(v, list) else [v]))

    bad = []

    def run(node, vis):
        """vis: has the child been visited on every path reaching this node; returns the same for the paths leaving it
        normally, None when no path does"""
        if not isinstance(node, dict) or "k" not in node:
            return vis
        k = node["k"]
        if not has_return(node):
            return vis or leaf(node)
        if k == "Return":
            v = run(node.get("e"), vis) if node.get("e") is not None else vis
            if v is False:
                bad.append(node.get("line"))
            return None
        if k == "If":
            c = run(node["cond"], vis)
            if c is None:
                return None
            # a branch taken after the code has looked at the child itself (`if matches!(**child, Number(..)) { return .. }`)
            # is a decision about the child, not an oversight: discharged
            looked = bool({p["path"] for p in walk(node["cond"]) if p["k"] == "Path"} & reach)
            outs = [run(node["then"], c or looked), run(node["else"], c or looked) if node.get("else") is not None else c]
            outs = [o for o in outs if o is not None]
            return all(outs) if outs else None
        if k == "Match":
            c = run(node["scrut"], vis)
            if c is None:
                return None
            looked = bool({p["path"] for p in walk(node["scrut"]) if p["k"] == "Path"} & reach)
            outs = [run(a["body"], c or looked) for a in node["arms"]]
            outs = [o for o in outs if o is not None]
            return all(outs) if outs else None
        if k in ("For", "While", "Loop"):
            for key, v in node.items():
                for x in (v if isinstance(v, list) else [v]):
                    if isinstance(x, dict) and "k" in x:
                        run(x, vis)
            return vis or leaf(node)
        for key, v in node.items():
            for x in (v if isinstance(v, list) else [v]):
                if isinstance(x, dict) and "k" in x:
                    vis = run(x, vis)
                    if vis is None:
                        return None
        return vis

    run(body, False)
    return bad


def loops_cut_short(body, child):
    """`for` loops over (an alias of) `child` inside `body` that can stop before the last element: a `break` of that loop
    or a `return` in its body (`?` is the error exit and is not counted).  returns (number of loops, [descriptions])"""
    reach = alias_closure(body, child)
    n, out = 0, []

    def exits(node, depth0=True):
        found = []
        for k, v in node.items():
            if k in ("k", "line"):
                continue
            for x in (v if isinstance(v, list) else [v]):
                if not isinstance(x, dict) or "k" not in x:
                    continue
                if x["k"] in ("Closure", "ItemStmt"):
                    continue
                if x["k"] == "Return":
                    found.append("return")
                elif x["k"] == "Break" and depth0:
                    found.append("break")
                if x["k"] in ("For", "While", "Loop"):
                    found += [e for e in exits(x, False)]
                else:
                    found += exits(x, depth0)
        return found

    for lp in walk(body):
        if lp["k"] == "For" and ({p_["path"] for p_ in walk(lp["iter"]) if p_["k"] == "Path"} & reach):
            n += 1
            ex = exits(lp["body"])
            if ex:
                out.append("the loop over `%s` (line %s) can stop early: %s" % (render(lp["iter"])[:40], lp.get("line"), sorted(set(ex))))
    return n, out


def check(ctx, R, file, fn_name, qual, enum_file, enum_name, visitors, scrutinee=None, skip_variants=(), allow_unvisited=()):
    """allow_unvisited: {(Variant, field)} reviewed exceptions"""
    fn = find_fn(file, fn_name, qual)
    key0 = "%s::%s" % (file.rsplit("/", 1)[-1][:-3], fn_name)
    if fn is None:
        ctx.missing(R, key0)
        return 0
    en = enum_def(enum_file, enum_name)
    if en is None:
        ctx.missing(R, "enum " + enum_name)
        return 0
    ms = [m for m in walk(fn["body"]) if m["k"] == "Match" and (scrutinee is None or render(strip(m["scrut"])) == scrutinee)]
    if not ms:
        ctx.missing(R, key0 + "/match")
        return 0
    m = ms[0]
    seen = set()
    n = 0
    for arm in m["arms"]:
        pats = arm["pat"]["cases"] if arm["pat"]["k"] == "POr" else [arm["pat"]]
        for p in pats:
            while p["k"] == "PRef":
                p = p["pat"]
            names = pat_paths(p)
            v = last(names[0]) if names else "?"
            if v == "_":
                # catch-all: every not-yet-seen variant with node fields is unvisited
                for vn, vd in en.items():
                    if vn not in seen and vn not in skip_variants and node_fields(vd):
                        for f in node_fields(vd):
                            if (vn, f) in allow_unvisited:
                                continue
                            n += 1
                            ctx.bad(R, "%s/%s.%s/visited" % (key0, vn, f), "variant %s falls into a catch-all arm: its child `%s` is never visited" % (vn, f), site(file, arm))
                    seen.add(vn)
                continue
            if v not in en:
                continue
            seen.add(v)
            if v in skip_variants:
                continue
            binds, rest = pattern_bindings(p)
            for f in node_fields(en[v]):
                n += 1
                k = "%s/%s.%s/visited" % (key0, v, f)
                if (v, f) in allow_unvisited:
                    ctx.ok(R, k, "reviewed exception", site(file, arm))
                    continue
                if f not in binds or binds[f] is None:
                    ctx.bad(R, k, "child `%s` of %s is not bound by the pattern (%s): it is never visited" % (f, v, render(p)[:80]), site(file, arm))
                    continue
                if binds[f] == "<pattern>":
                    ctx.ok(R, k, "destructured in the pattern", site(file, arm))
                    continue
                ok = flows_to_visitor(arm["body"], binds[f], visitors, file)
                ctx.check(R, k, ok, "child `%s` (bound as `%s`) does not flow into %s" % (f, binds[f], "/".join(sorted(visitors))), site(file, arm))
                if ok:
                    early = returns_before_visit(arm["body"], binds[f], visitors, file)
                    ctx.check(R, k.replace("/visited", "/visited-before-every-return"), not early, ("a `return` (line %s) leaves the arm on a path on which child `%s` has not been handed to %s" % (early[0], f, "/".join(sorted(visitors)))) if early else "no return leaves the arm before the child is visited", site(file, arm))
                nl, cut = loops_cut_short(arm["body"], binds[f])
                if nl:
                    ctx.check(R, k.replace("/visited", "/every-element"), not cut, "; ".join(cut) or "loops over the child run to the end", site(file, arm))
    for vn in en:
        if vn not in seen and vn not in skip_variants:
            ctx.bad(R, "%s/%s/arm-missing" % (key0, vn), "no arm for variant " + vn)
    return n
