#!/usr/bin/env python3
"""Check runner: bin/check <Cxx> [--quick|--thorough] [--replay file]

A property module rules/cNN.py exposes
    TITLE, LEVEL_TEXT, NOT_DECIDED, TRUSTED (list), run(ctx)
and records *obligations* on the context.  An obligation is one instance of a
rule on one construct of the repository's current source: it is discharged or
it is a violation.  Violations whose exact key is listed as `known:` in
/verif/known_findings.txt are printed as KNOWN-FINDING and do not fail the
check; everything else prints a VIOLATION line and exits 1."""
import importlib
import json
import os
import re
import sys
import time
import traceback

sys.path.insert(0, os.path.dirname(os.path.abspath(__file__)))
import facts  # noqa: E402

VERIF = facts.VERIF
KNOWN_FILE = os.path.join(VERIF, "known_findings.txt")


class Obligation:
    __slots__ = ("rule", "key", "ok", "detail", "site")

    def __init__(self, rule, key, ok, detail, site):
        self.rule, self.key, self.ok, self.detail, self.site = rule, key, ok, detail, site

    def as_json(self):
        d = {"rule": self.rule, "key": self.key, "ok": self.ok, "detail": self.detail}
        if self.site:
            d["site"] = "%s:%s" % self.site if isinstance(self.site, tuple) else str(self.site)
        return d


class Ctx:
    def __init__(self, pid, tier):
        self.pid = pid
        self.tier = tier
        self.rules = {}
        self.obs = []
        self.notes = []
        self.tables = {}
        self._keys = set()

    # -- declaring / recording -------------------------------------------
    def rule(self, rid, text):
        self.rules[rid] = text

    def _add(self, rid, key, ok, detail, site):
        if rid not in self.rules:
            self.rules[rid] = ""
        full = "%s/%s" % (rid, key)
        n = 2
        base = full
        while full in self._keys:
            full = "%s#%d" % (base, n)
            n += 1
        self._keys.add(full)
        self.obs.append(Obligation(rid, full, ok, detail, site))
        return ok

    def ok(self, rid, key, detail="", site=None):
        return self._add(rid, key, True, detail, site)

    def bad(self, rid, key, detail="", site=None):
        return self._add(rid, key, False, detail, site)

    def check(self, rid, key, cond, detail="", site=None):
        return self._add(rid, key, bool(cond), detail, site)

    def floor(self, rid, what, count, floor):
        """Fail closed when a rule matched fewer instances than were confirmed by hand."""
        return self._add(rid, "floor:" + what, count >= floor, "matched %d instance(s) of %s, floor %d" % (count, what, floor), None)

    def missing(self, rid, what, detail=""):
        """Fail closed: an anchor the rule is written against is not recognisable."""
        return self._add(rid, "anchor-unrecognised:" + what, False, detail or ("cannot find / interpret " + what), None)

    def include(self, rid, text, *rule_fns, only=None):
        """Run rule functions of another property in a sub-context and adopt their obligations under `rid`
        (shared prerequisite clauses).  `only` = substring filter on the adopted keys."""
        self.rules[rid] = text
        sub = Ctx(self.pid, self.tier)
        for fn in rule_fns:
            fn(sub)
        for o in sub.obs:
            tail = o.key.split("/", 1)[1] if "/" in o.key else o.key
            if only is not None and not any(x in tail for x in only):
                continue
            self._add(rid, tail, o.ok, o.detail, o.site)
        for k, v in sub.tables.items():
            self.tables.setdefault(k, v)

    def note(self, text):
        self.notes.append(text)

    def table(self, name, value):
        self.tables[name] = value


def load_known():
    known, fixed = {}, []
    if os.path.exists(KNOWN_FILE):
        for line in open(KNOWN_FILE, encoding="utf-8"):
            line = line.strip()
            if not line or line.startswith("#"):
                continue
            m = re.match(r"known:\s+property=(C\d+)\s+key=(\S+)\s+(.*)$", line)
            if m:
                known[(m.group(1), m.group(2))] = m.group(3)
                continue
            m = re.match(r"fixed:\s+property=(C\d+)\s+(\S+)\s+(.*)$", line)
            if m:
                fixed.append(m.groups())
    return known, fixed


def run_property(pid, tier):
    t0 = time.time()
    mod = importlib.import_module(pid.lower())
    ctx = Ctx(pid, tier)
    crashed = None
    try:
        if tier == "thorough" and getattr(mod, "ENGINE", "astq").startswith("mirfacts"):
            facts.mir(force=True)  # clean re-extraction
        mod.run(ctx)
        if tier == "thorough":
            if hasattr(mod, "run_thorough"):
                mod.run_thorough(ctx)
            run_fixtures(ctx)
    except facts_error_types() as e:  # tree does not build etc.
        crashed = "engine error: %s" % e
    except Exception:
        crashed = "checker exception (fail closed):\n" + traceback.format_exc()
    if crashed:
        ctx.bad(pid + ".0", "checker-could-not-decide", crashed)
    known, _fixed = load_known()
    viol, knownhits = [], []
    for o in ctx.obs:
        if o.ok:
            continue
        if (pid, o.key) in known:
            knownhits.append(o)
        else:
            viol.append(o)
    ebase = os.environ.get("VERIF_EVIDENCE_DIR")  # tools redirect evidence of scratch-copy runs
    os.makedirs(os.path.join(ebase or os.path.join(VERIF, "evidence"), "replay"), exist_ok=True)
    for o in knownhits:
        print("KNOWN-FINDING: property=%s %s -- %s" % (pid, o.key, known[(pid, o.key)]))
    for i, o in enumerate(viol):
        rp = os.path.join("evidence", "replay", "%s-%d.json" % (pid, i))
        with open(os.path.join(ebase, "replay", os.path.basename(rp)) if ebase else os.path.join(VERIF, rp), "w") as fh:
            json.dump({"property": pid, "obligation": o.as_json(), "rule_text": ctx.rules.get(o.rule, ""), "tree": facts.tree_hash(), "repo": facts.REPO}, fh, indent=1)
        print("VIOLATION property=%s replay=%s" % (pid, rp))
        print("  rule %s: %s" % (o.rule, ctx.rules.get(o.rule, "")))
        print("  construct: %s%s" % (o.key, (" at " + o.as_json().get("site", "")) if o.site else ""))
        for ln in str(o.detail).splitlines()[:30]:
            print("  " + ln)
    wall = time.time() - t0
    write_evidence(mod, ctx, tier, wall, viol, knownhits)
    n_ok = sum(1 for o in ctx.obs if o.ok)
    print("%s %s: %d obligations over %d rules, %d discharged, %d known finding(s), %d violation(s), %.1fs" % (pid, tier, len(ctx.obs), len(ctx.rules), n_ok, len(knownhits), len(viol), wall))
    return 1 if viol else 0


def run_fixtures(ctx):
    """Thorough tier: the checker's own two-way test.  Every seeded mutation of this property
    (/verif/seeded/<pid>-*/patch[.current].diff) is applied to a scratch copy of the current tree and
    the property's rules are run against the copy: they must fire.  A miss is recorded in the
    evidence and printed, it is not a violation of the repository."""
    import glob
    import shutil
    import subprocess
    import tempfile

    res = {}
    for d in sorted(glob.glob(os.path.join(VERIF, "seeded", ctx.pid + "-*"))):
        name = os.path.basename(d)
        patch = os.path.join(d, "patch.current.diff")
        if not os.path.exists(patch):
            patch = os.path.join(d, "patch.diff")
        try:
            meta = json.load(open(os.path.join(d, "meta.json")))
        except Exception:
            meta = {}
        if meta.get("expect_fire") is False:
            res[name] = {"applied": None, "skipped": meta.get("status_on_current_tree", "not expected to fire on the current tree")}
            continue
        tmp = tempfile.mkdtemp(prefix="vfix-", dir="/tmp")
        etmp = tempfile.mkdtemp(prefix="vfixev-", dir="/tmp")
        try:
            subprocess.check_call(["rsync", "-a", "--exclude", "target", "--exclude", ".git", facts.REPO + "/", tmp + "/"])
            r = subprocess.run(["patch", "-p1", "--no-backup-if-mismatch", "-s", "-i", patch], cwd=tmp, capture_output=True, text=True)
            if r.returncode != 0:
                res[name] = {"applied": False}
                continue
            env = dict(os.environ, VERIF_REPO=tmp, VERIF_EVIDENCE_DIR=etmp, VERIF_TIER="quick")
            rr = subprocess.run([sys.executable, os.path.abspath(__file__), ctx.pid, "--quick"], env=env, capture_output=True, text=True)
            keys = [l.strip()[len("construct: "):] for l in rr.stdout.splitlines() if l.strip().startswith("construct:")]
            res[name] = {"applied": True, "fired": rr.returncode == 1, "constructs": keys[:4]}
        finally:
            shutil.rmtree(tmp, ignore_errors=True)
            shutil.rmtree(etmp, ignore_errors=True)
    ctx.tables["fixtures (seeded mutations of this property, applied to a scratch copy)"] = res
    for name, r in res.items():
        if r.get("applied") and not r.get("fired"):
            print("FIXTURE-MISS: %s is not detected by the rules of %s (recorded in the evidence; see DESIGN.md section 7)" % (name, ctx.pid))
    ctx.note("fixtures: %d seeded mutation(s), %d applied, %d detected" % (len(res), sum(1 for r in res.values() if r.get("applied")), sum(1 for r in res.values() if r.get("fired"))))


def facts_error_types():
    return (RuntimeError, OSError)


def write_evidence(mod, ctx, tier, wall, viol, knownhits):
    seed = 0
    try:
        seed = int(os.environ.get("VERIF_SEED", "0"))
    except ValueError:
        pass
    per_rule = {}
    for o in ctx.obs:
        r = per_rule.setdefault(o.rule, {"text": ctx.rules.get(o.rule, ""), "obligations": 0, "discharged": 0, "keys": []})
        r["obligations"] += 1
        r["discharged"] += 1 if o.ok else 0
        if len(r["keys"]) < 400:
            r["keys"].append(o.key if o.ok else "!" + o.key)
    samples = []
    seen_rules = set()
    for o in ctx.obs:
        if o.rule not in seen_rules or not o.ok:
            seen_rules.add(o.rule)
            samples.append(o.as_json())
        if len(samples) >= 60:
            break
    meta = {}
    if facts._ast is not None:
        meta["syntax_tree"] = {k: v for k, v in facts.ast_meta().items() if k != "errors"}
        meta["syntax_tree"]["parse_errors"] = len(facts.ast_meta().get("errors", {}))
    if facts._mir is not None:
        meta["mir"] = facts.mir_meta()
    ev = {
        "property_id": ctx.pid,
        "tier": tier,
        "seed": seed,
        "level": "other",
        "coverage": {
            "explanation": "Static analysis of the repository's current source (tree %s of %s): %s Each obligation is one instance of a rule on one named construct (function, match arm, call site, table row, CFG path); nothing in the repository is executed. Decides the listed structural clauses, not the behaviour as a whole. Not decided: %s"
            % (facts.tree_hash(), facts.REPO, getattr(mod, "LEVEL_TEXT", ""), getattr(mod, "NOT_DECIDED", "")),
            "obligations": len(ctx.obs),
            "discharged": sum(1 for o in ctx.obs if o.ok),
            "evaluations": len(ctx.obs),
            "distinct_nontrivial": len({o.key for o in ctx.obs}),
            "rule": "one evaluation = one rule instance on one construct of the current source; distinct = distinct obligation keys (rule/function/construct, no line numbers); all are non-trivial in the sense that each names a construct that exists in the tree",
            "exhaustive": True,
            "checker_cmd": "bin/check %s --%s" % (ctx.pid, tier),
            "trusted_base": getattr(mod, "TRUSTED", []),
            "rules": per_rule,
            "samples": samples,
            "tables": ctx.tables,
            "engines": meta,
            "known_findings_hit": [o.key for o in knownhits],
            "violations": [o.as_json() for o in viol],
            "notes": ctx.notes,
        },
        "assumptions": getattr(mod, "TRUSTED", []),
        "wall_s": round(wall, 3),
        "violations": len(viol),
    }
    edir = os.environ.get("VERIF_EVIDENCE_DIR") or os.path.join(VERIF, "evidence")
    os.makedirs(edir, exist_ok=True)
    path = os.path.join(edir, ctx.pid + ".json")
    tmp = path + ".tmp"
    with open(tmp, "w") as fh:
        json.dump(ev, fh, indent=1, sort_keys=True)
    os.replace(tmp, path)


def main(argv):
    if not argv:
        print(__doc__)
        return 2
    pid = argv[0].upper()
    tier = os.environ.get("VERIF_TIER", "quick")
    replay = None
    i = 1
    while i < len(argv):
        if argv[i] == "--quick":
            tier = "quick"
        elif argv[i] == "--thorough":
            tier = "thorough"
        elif argv[i] == "--replay":
            replay = argv[i + 1]
            i += 1
        i += 1
    if tier not in ("quick", "thorough"):
        tier = "quick"
    if replay:
        with open(replay) as fh:
            r = json.load(fh)
        print("replaying", r["obligation"]["key"], "- re-evaluating property", pid, "on the current tree")
        want = r["obligation"]["key"]
        mod = importlib.import_module(pid.lower())
        ctx = Ctx(pid, tier)
        mod.run(ctx)
        hits = [o for o in ctx.obs if o.key == want]
        for o in hits:
            print(json.dumps(o.as_json(), indent=1))
        if any(not o.ok for o in hits):
            print("VIOLATION property=%s replay=%s" % (pid, replay))
            return 1
        print("obligation discharged on this tree" if hits else "obligation no longer exists on this tree")
        return 0
    return run_property(pid, tier)


if __name__ == "__main__":
    sys.exit(main(sys.argv[1:]))
