"""Shared between C04 and C05: position units in the stripper, and who reads the file text."""
import re

import facts
from astlib import calls, find_fn, fns_in_file, method_calls, render, site, strip, walk

PL = "parser/src/parser_logic.rs"


def rule_single_reader(ctx, R):
    ctx.rule(R, "the parser is only ever given text that went through the stripper (who-may-call on the generated parser entry point)")
    n = 0
    for f in facts.ast():
        if not f.startswith("parser/src/"):
            continue
        for q, fn in fns_in_file(f):
            import sgrep

            lenv = sgrep.lets(fn["body"])
            for c in method_calls(fn["body"], "parse"):
                r = strip(c["recv"])
                for _ in range(3):
                    if r["k"] == "Path" and r["path"] in lenv:
                        r = strip(lenv[r["path"]])
                recv = render(r).replace(" ", "")
                if "ParseAstParser::new()" not in recv:
                    continue
                n += 1
                arg = strip(c["args"][0])
                ok = False
                det = render(arg)
                if arg["k"] == "Try":
                    arg = strip(arg["e"])
                if arg["k"] == "Call" and render(arg["func"]).endswith("preprocess"):
                    ok = True
                elif arg["k"] == "Path":
                    # let src = preprocess(src, ..)...;
                    for l in walk(fn["body"]):
                        # let src = preprocess(..)?;  /  let Ok(src) = preprocess(..) else {..};  /  if let Ok(src) = preprocess(..)
                        init = l.get("init") if l["k"] == "Local" else (l.get("e") if l["k"] == "Let" else None)
                        if init is None:
                            continue
                        pat = l["pat"]
                        names = [x["name"] for x in walk(pat) if x["k"] == "PIdent"]
                        plain = pat["k"] == "PIdent" or (pat["k"] == "PTupleStruct" and pat["path"].split("::")[-1] in ("Ok", "Some") and len(pat["elems"]) == 1 and pat["elems"][0]["k"] == "PIdent")
                        if plain and arg["path"] in names:
                            i0 = strip(init)
                            while i0["k"] in ("Try",) or (i0["k"] == "MethodCall" and i0["method"] in ("ok", "unwrap", "expect") ):
                                i0 = strip(i0["e"] if i0["k"] == "Try" else i0["recv"])
                            if i0["k"] == "Call" and render(i0["func"]).endswith("preprocess"):
                                ok = True
                            det += " = " + render(init)
                ctx.check(R, "%s::%s/parser-input-is-stripped" % (f.rsplit("/", 1)[-1], fn["name"]), ok, "ParseAstParser::parse(%s)" % det[:120], site(f, c))
    ctx.floor(R, "parser entry call sites", n, 2)


RAW_TEXT_CARRIERS = [
    # (file, function, how the raw text of a file enters the function)
    ("parser/src/lib.rs", "parse_file", ("tuple-of", "open_file", 1)),
    ("parser/src/parser_logic.rs", "parse_file", ("param", 0)),
    ("parser/src/parser_logic.rs", "parse_string", ("param", 0)),
    ("parser/src/parser_logic.rs", "parse_definition", ("param", 0)),
]
RAW_TEXT_CONSUMERS = {"preprocess": "the comment stripper", "parse_file": "the parser entry (strips first)", "parse_string": "the parser entry (strips first)", "parse_definition": "the parser entry (strips first)",
                      "add_file": "the file table (the text shown under labels)"}


def rule_raw_text_readers(ctx, R):
    """the raw text of a file - comments included - is handed to the comment stripper, to the parser entry that strips
    first, and to the file table; nothing else looks at it (a test on the raw text makes a finding depend on comments)"""
    import sgrep
    from astlib import find_fn, last

    n = 0
    for f, name, how in RAW_TEXT_CARRIERS:
        fn = find_fn(f, name)
        if fn is None:
            ctx.missing(R, "%s::%s" % (f.rsplit("/", 1)[-1], name))
            continue
        raw, since = None, 0
        if how[0] == "param":
            pv = sgrep.params(fn)
            raw = pv[how[1]] if len(pv) > how[1] else None
        else:
            for l in walk(fn["body"]):
                if l["k"] == "Local" and l.get("init") is not None and l["pat"]["k"] == "PTuple" and len(l["pat"]["elems"]) > how[2]:
                    i0 = strip(l["init"])
                    while i0["k"] == "Try":
                        i0 = strip(i0["e"])
                    if i0["k"] == "Call" and i0["func"]["k"] == "Path" and last(i0["func"]["path"]) == how[1]:
                        el = l["pat"]["elems"][how[2]]
                        if el["k"] == "PIdent":
                            raw, since = el["name"], l.get("line", 0)
        if raw is None:
            ctx.missing(R, "%s::%s/raw-text-binding" % (f.rsplit("/", 1)[-1], name), "cannot find where the file's text enters the function")
            continue
        # a later `let <raw> = ..` shadows the raw text (e.g. `let src = preprocess(src, 0)..`)
        until = None
        for l in walk(fn["body"]):
            if l["k"] == "Local" and l.get("line", 0) > since and any(b_["k"] == "PIdent" and b_["name"] == raw for b_ in walk(l["pat"])):
                until = l
                break
        shadowed_from = until.get("line", 0) if until is not None else None
        par = {}
        for x in walk(fn["body"]):
            for k_, v_ in x.items():
                if isinstance(v_, dict):
                    par[id(v_)] = (x, k_)
                elif isinstance(v_, list):
                    for y in v_:
                        if isinstance(y, dict):
                            par[id(y)] = (x, k_)
        uses = []
        inside_until = {id(x) for x in walk(until["init"])} if until is not None and until.get("init") is not None else set()
        for x in walk(fn["body"]):
            if x["k"] == "Path" and x["path"] == raw:
                if shadowed_from is not None and x.get("line", 0) >= shadowed_from and id(x) not in inside_until:
                    continue
                uses.append(x)
            if x["k"] == "Macro" and not x.get("parsed") and raw in str(x.get("raw", "")):
                uses.append(x)
        for u in uses:
            n += 1
            node = u
            # through borrows, clones and views of the same text
            while True:
                p_ = par.get(id(node))
                if p_ is None:
                    break
                pn, slot = p_
                if pn["k"] in ("Ref", "Paren", "Group") or (pn["k"] == "Unary" and pn.get("op") == "*"):
                    node = pn
                    continue
                if pn["k"] == "MethodCall" and slot == "recv" and not pn["args"] and pn["method"] in ("clone", "as_str", "to_string", "to_owned", "as_ref", "borrow", "deref"):
                    node = pn
                    continue
                break
            p_ = par.get(id(node))
            ok, where = False, "?"
            if p_ is not None:
                pn, slot = p_
                if pn["k"] == "Call" and slot == "args" and pn["func"]["k"] == "Path" and last(pn["func"]["path"]) in RAW_TEXT_CONSUMERS and last(pn["func"]["path"]) != "add_file":
                    ok = True
                elif pn["k"] == "MethodCall" and slot == "args" and pn["method"] == "add_file":
                    ok = True
                where = render(pn)[:90]
            ctx.check(R, "%s::%s/raw-text-goes-to-the-stripper-only" % (f.rsplit("/", 1)[-1], name), ok, "the unstripped text `%s` is used in `%s`" % (raw, where) if not ok else "`%s` handed to %s" % (raw, where), site(f, u))
    ctx.floor(R, "uses of unstripped file text", n, 5)
