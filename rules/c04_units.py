"""Shared between C04 and C05: position units in the stripper, and who reads the file text."""
import re

import facts
from astlib import calls, find_fn, fns_in_file, method_calls, render, site, strip, walk

PL = "parser/src/parser_logic.rs"


def rule_single_reader(ctx, R):
    ctx.rule(R, "the parser is only ever given text that went through the stripper (who-may-call on the generated parser entry point)")
    n = 0
    for f in facts.ast():
        if not f.startswith("parser/src/"):
            continue
        for q, fn in fns_in_file(f):
            import sgrep

            lenv = sgrep.lets(fn["body"])
            for c in method_calls(fn["body"], "parse"):
                r = strip(c["recv"])
                for _ in range(3):
                    if r["k"] == "Path" and r["path"] in lenv:
                        r = strip(lenv[r["path"]])
                recv = render(r).replace(" ", "")
                if "ParseAstParser::new()" not in recv:
                    continue
                n += 1
                arg = strip(c["args"][0])
                ok = False
                det = render(arg)
                if arg["k"] == "Try":
                    arg = strip(arg["e"])
                if arg["k"] == "Call" and render(arg["func"]).endswith("preprocess"):
                    ok = True
                elif arg["k"] == "Path":
                    # let src = preprocess(src, ..)...;
                    for l in walk(fn["body"]):
                        # let src = preprocess(..)?;  /  let Ok(src) = preprocess(..) else {..};  /  if let Ok(src) = preprocess(..)
                        init = l.get("init") if l["k"] == "Local" else (l.get("e") if l["k"] == "Let" else None)
                        if init is None:
                            continue
                        pat = l["pat"]
                        names = [x["name"] for x in walk(pat) if x["k"] == "PIdent"]
                        plain = pat["k"] == "PIdent" or (pat["k"] == "PTupleStruct" and pat["path"].split("::")[-1] in ("Ok", "Some") and len(pat["elems"]) == 1 and pat["elems"][0]["k"] == "PIdent")
                        if plain and arg["path"] in names:
                            i0 = strip(init)
                            while i0["k"] in ("Try",) or (i0["k"] == "MethodCall" and i0["method"] in ("ok", "unwrap", "expect") ):
                                i0 = strip(i0["e"] if i0["k"] == "Try" else i0["recv"])
                            if i0["k"] == "Call" and render(i0["func"]).endswith("preprocess"):
                                ok = True
                            det += " = " + render(init)
                ctx.check(R, "%s::%s/parser-input-is-stripped" % (f.rsplit("/", 1)[-1], fn["name"]), ok, "ParseAstParser::parse(%s)" % det[:120], site(f, c))
    ctx.floor(R, "parser entry call sites", n, 2)
