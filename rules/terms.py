"""Symbolic result terms of small constructor functions.

fn_term(file, name) inlines `let` bindings and calls to the trivial builder
functions (functions whose body is a single struct literal / call) and returns
the function's result as a normalised text over its parameters.  Clones,
boxes and references are dropped.  Used for "the expansion is exactly this
tree" rules (C13.1) - insensitive to naming of temporaries, statement order of
independent lets and to going through a builder or writing the constructor."""
import copy

import facts
from astlib import block_tail, fns_in_file, is_node, last, render, strip, walk

BUILDER_FILES = (
    "program_structure/src/abstract_syntax_tree/statement_builders.rs",
    "program_structure/src/abstract_syntax_tree/expression_builders.rs",
)


class TermError(Exception):
    pass


def builders():
    out = {}
    for f in BUILDER_FILES:
        for q, fn in fns_in_file(f):
            if q:
                continue
            params = []
            for i in fn["sig"]["inputs"]:
                if i.get("self") or i["pat"]["k"] != "PIdent":
                    params = None
                    break
                params.append(i["pat"]["name"])
            if params is None:
                continue
            try:
                t = result_expr(fn, {})
            except TermError:
                continue
            out[fn["name"]] = (params, t)
    return out


def subst(e, env):
    """replace free single-segment paths by env values (deep copy)"""
    if isinstance(e, list):
        return [subst(x, env) for x in e]
    if not isinstance(e, dict):
        return e
    if e.get("k") == "Path" and e["path"] in env:
        return copy.deepcopy(env[e["path"]])
    if e.get("k") == "Struct":
        n = dict(e)
        n["fields"] = []
        for f in e["fields"]:
            f2 = dict(f)
            f2["e"] = subst(f["e"], env)
            f2["shorthand"] = False
            n["fields"].append(f2)
        n["rest"] = subst(e["rest"], env) if e.get("rest") else None
        return n
    if e.get("k") == "Closure":
        bound = {x["name"] for p in e["inputs"] for x in walk(p) if x["k"] == "PIdent"}
        env2 = {k: v for k, v in env.items() if k not in bound}
        n = dict(e)
        n["body"] = subst(e["body"], env2)
        return n
    return {k: subst(v, env) for k, v in e.items()}


def result_expr(fn, bmap, depth=0):
    """the tail expression of fn with its lets substituted"""
    body = fn["body"]
    env = {}
    stmts = body["stmts"]
    tail = block_tail(body)
    if tail is None:
        raise TermError("no tail expression")
    for s in stmts[:-1]:
        if s["k"] == "ItemStmt":
            continue
        if s["k"] != "Local" or s["init"] is None or s["else"] is not None:
            raise TermError("statement other than a simple let: " + render(s)[:60])
        init = subst(s["init"], env)
        p = s["pat"]
        if p["k"] == "PIdent":
            env[p["name"]] = init
        elif p["k"] == "PTuple" and all(x["k"] in ("PIdent", "PWild") for x in p["elems"]):
            for i, x in enumerate(p["elems"]):
                if x["k"] == "PIdent":
                    env[x["name"]] = {"k": "Field", "line": 0, "base": init, "member": str(i)}
        else:
            raise TermError("let pattern " + render(p))
    return subst(tail, env)


def inline(e, bmap, depth=0):
    if depth > 12:
        return e
    if isinstance(e, list):
        return [inline(x, bmap, depth) for x in e]
    if not isinstance(e, dict):
        return e
    e = {k: inline(v, bmap, depth) for k, v in e.items()}
    if e.get("k") == "Call" and e["func"]["k"] == "Path":
        name = last(e["func"]["path"])
        if name in bmap and len(bmap[name][0]) == len(e["args"]):
            params, body = bmap[name]
            return inline(subst(body, dict(zip(params, e["args"]))), bmap, depth + 1)
    return e


def norm(e):
    """text with clones / boxes / refs / `Self::`-less paths normalised"""
    e = strip(e) if is_node(e) else e
    k = e["k"]
    if k == "Struct":
        fs = sorted("%s: %s" % (f["name"], norm(f["e"])) for f in e["fields"])
        return "%s { %s }" % (last(e["path"]), ", ".join(fs))
    if k == "Call":
        f = render(e["func"])
        if f in ("Box::new", "Some") and len(e["args"]) == 1 and f == "Box::new":
            return norm(e["args"][0])
        return "%s(%s)" % (last(f) if "::" in f and f.split("::")[0] in ("crate", "super", "self") else f, ", ".join(norm(a) for a in e["args"]))
    if k == "MethodCall":
        if e["method"] == "map" and len(e["args"]) == 1 and render(e["args"][0]) == "Box::new":
            return norm(e["recv"])
        return "%s.%s(%s)" % (norm(e["recv"]), e["method"], ", ".join(norm(a) for a in e["args"]))
    if k == "Macro" and e["name"] == "vec" and e.get("parsed"):
        return "vec![%s]" % ", ".join(norm(a) for a in e["args"])
    if k == "Field":
        return "%s.%s" % (norm(e["base"]), e["member"])
    if k == "Tuple":
        return "(%s)" % ", ".join(norm(a) for a in e["elems"])
    return render(e)


def fn_term(file, name, qual=None, params=None):
    """`params`: canonical parameter names, by position - the function's own names are renamed to them first, so the
    term does not depend on what the parameters are called"""
    from astlib import find_fn

    fn = find_fn(file, name, qual)
    if fn is None:
        raise TermError("function %s not found in %s" % (name, file))
    if params:
        import alpha

        fn = copy.deepcopy(fn)
        ps = [i for i in fn["sig"]["inputs"] if not i.get("self")]
        mp = {}
        for i_, nm in zip(ps, params):
            if i_["pat"]["k"] == "PIdent" and i_["pat"]["name"] != nm:
                mp[i_["pat"]["name"]] = nm
        if mp:
            tmp = {a: "__p%d" % i for i, a in enumerate(mp)}
            alpha.rename(fn["body"], tmp)
            alpha.rename(fn["body"], {tmp[a]: b for a, b in mp.items()})
            for i_ in ps:
                alpha.rename(i_["pat"], tmp)
                alpha.rename(i_["pat"], {tmp[a]: b for a, b in mp.items()})
    bmap = dict(builders())
    # private helpers of the same file are part of the function's own text: inline them as well
    for q, h in fns_in_file(file):
        if q or h["name"] == name or h.get("vis") == "pub" or h["name"] in bmap:
            continue
        params = []
        for i in h["sig"]["inputs"]:
            if i.get("self") or i["pat"]["k"] != "PIdent":
                params = None
                break
            params.append(i["pat"]["name"])
        if params is None:
            continue
        try:
            bmap[h["name"]] = (params, result_expr(h, {}))
        except TermError:
            continue
    t = result_expr(fn, bmap)
    t = inline(t, bmap)
    return norm(t)


def leaves(e, env=None, effects=None):
    """All result expressions of an expression / block over its branches, with `let`s substituted and catch-all
    bindings of a `match` / `if let` replaced by the scrutinee.  Statements with effects (`v.push(x);`) are collected
    in `effects` (rendered after substitution).  Branch conditions are dropped: callers state what every leaf (or the
    set of leaves) must look like."""
    env = dict(env or {})
    if effects is None:
        effects = []
    e0 = e
    while is_node(e0) and e0["k"] == "Paren":
        e0 = e0["e"]
    k = e0["k"]
    if k == "Block":
        stmts = e0["stmts"]
        tail = block_tail(e0)
        for s in stmts:
            if s is stmts[-1] and tail is not None:
                break
            if s["k"] == "ItemStmt":
                continue
            if s["k"] == "Local" and s["init"] is not None:
                init = subst(s["init"], env)
                p = s["pat"]
                if p["k"] == "PType":
                    p = p["pat"]
                if p["k"] == "PIdent":
                    env[p["name"]] = init
                elif p["k"] == "PTuple" and all(x["k"] in ("PIdent", "PWild") for x in p["elems"]):
                    for i, x in enumerate(p["elems"]):
                        if x["k"] == "PIdent":
                            env[x["name"]] = {"k": "Field", "line": 0, "base": init, "member": str(i)}
                continue
            if s["k"] == "ExprStmt":
                effects.append(subst(s["e"], env))
        if tail is None:
            return []
        return leaves(tail, env, effects)
    if k == "If":
        out = []
        c = e0["cond"]
        env_then = dict(env)
        if c["k"] == "Let":
            bind_pattern(c["pat"], subst(c["e"], env), env_then)
        out += leaves(e0["then"], env_then, effects)
        if e0["else"] is not None:
            out += leaves(e0["else"], env, effects)
        return out
    if k == "Match":
        out = []
        scrut = subst(e0["scrut"], env)
        for a in e0["arms"]:
            env2 = dict(env)
            bind_pattern(a["pat"], scrut, env2)
            out += leaves(a["body"], env2, effects)
        return out
    return [subst(e0, env)]


def bind_pattern(p, scrut, env):
    """pattern bindings as projections of the scrutinee: a catch-all binding is the scrutinee itself, a struct field
    binding is `scrut.field`, the payload of `Some(x)` / `Ok(x)` is `scrut.some` / `scrut.ok`, tuple elements `scrut.i`"""
    while p["k"] in ("PRef", "PType"):
        p = p["pat"]
    k = p["k"]
    if k == "PIdent":
        if p.get("sub") is None and p["name"][:1].islower():
            env[p["name"]] = scrut
        return
    if k == "PStruct":
        for f in p["fields"]:
            bind_pattern(f["pat"], {"k": "Field", "line": 0, "base": scrut, "member": f["name"]}, env)
        return
    if k == "PTupleStruct":
        ctor = last(p["path"])
        for i, x in enumerate(p["elems"]):
            member = ctor.lower() if len(p["elems"]) == 1 else "%s%d" % (ctor.lower(), i)
            bind_pattern(x, {"k": "Field", "line": 0, "base": scrut, "member": member}, env)
        return
    if k == "PTuple":
        for i, x in enumerate(p["elems"]):
            bind_pattern(x, {"k": "Field", "line": 0, "base": scrut, "member": str(i)}, env)
        return
