"""Report producers and the display filter (shared by C02 and C03).

Producer scan: every function that constructs a report with
Report::error / Report::warning / Report::info is classified by whether a
primary label is attached on every path to its return:
  always       add_primary is called unconditionally
  if-file-id   add_primary only under `if let Some(file_id) = <x>.file_id`  (idiom discharged by C04.5:
               every AST/IR node gets its file id)
  if-meta      add_primary only under `if let Some(meta) = self.meta` and every constructor call passes Some(..)
  never        no add_primary at all
  conditional  anything else (reported)"""
import re

import facts
from astlib import calls, find_fn, fns_in_file, last, method_calls, render, site, strip, walk
from pathcond import conditions_to, fact_str

MAIN = "cli/src/main.rs"


def producers():
    """yield dict(file, qual, fn, category, code, label) for every report construction site."""
    out = []
    for f in sorted(facts.ast()):
        if f.startswith("program_structure_tests"):
            continue
        for q, fn in fns_in_file(f):
            if f.endswith("report.rs") and q == "Report":
                continue
            ctors = [c for c in walk(fn["body"]) if c["k"] == "Call" and c["func"]["k"] == "Path" and re.fullmatch(r"(?:\w+::)*Report::(error|warning|info)", c["func"]["path"])]
            for c in ctors:
                cat = last(c["func"]["path"])
                code = render(strip(c["args"][1])) if len(c["args"]) > 1 else "?"
                label, detail = label_coverage(fn, c)
                out.append({"file": f, "qual": q, "fn": fn["name"], "node": c, "category": cat, "code": code, "label": label, "detail": detail})
    return out


def _must(n, idioms):
    """does every path through n call add_primary?  returns True/False; records idioms used."""
    k = n["k"]
    if k == "Closure" or k == "ItemStmt":
        return False
    if k == "MethodCall" and n["method"] == "add_primary":
        return True
    if k == "Block":
        return any(_must(s, idioms) for s in n["stmts"])
    if k == "If":
        c = n["cond"]
        t = _must(n["then"], idioms)
        e = _must(n["else"], idioms) if n["else"] else False
        if t and e:
            return True
        if t and not n["else"] and c["k"] == "Let" and render(c["pat"]).startswith("Some("):
            src = render(c["e"])
            if re.search(r"file_id", src):
                idioms.add("if-file-id")
                return True
            if re.search(r"self\.meta$", src):
                idioms.add("if-meta")
                return True
        return _must(c, idioms) if c["k"] != "Let" else False
    if k == "Match":
        return all(_must(a["body"], idioms) for a in n["arms"]) or _must(n["scrut"], idioms)
    if k in ("For", "While", "Loop"):
        return False
    for v in n.values():
        if isinstance(v, dict) and "k" in v and _must(v, idioms):
            return True
        if isinstance(v, list):
            for x in v:
                if isinstance(x, dict) and "k" in x and _must(x, idioms):
                    return True
    return False


def label_coverage(fn, ctor):
    """classify the paths from the report construction to the end of its block"""
    from pathcond import find_path
    path = find_path(fn["body"], ctor) or []
    # innermost enclosing block of the constructor
    blk, stmt = fn["body"], None
    for parent, slot, child in path:
        if parent["k"] == "Block":
            blk, stmt = parent, child
    if stmt is None:
        return "never", ""
    idx = [i for i, s in enumerate(blk["stmts"]) if s is stmt][0]
    rest = {"k": "Block", "stmts": blk["stmts"][idx:]}
    idioms = set()
    if _must(rest, idioms):
        if not idioms:
            return "always", ""
        return sorted(idioms)[0] if len(idioms) == 1 else "if-file-id+if-meta", ""
    if not any(True for _ in method_calls(rest, "add_primary")):
        return "never", ""
    return "conditional", "a primary label is attached on some paths only"


def find_in(root, nodes):
    ids = {id(n) for n in nodes}
    return any(id(n) in ids for n in walk(root))


def filter_tolerance():
    """How does cli::filter_by_file treat a report without primary labels?
    returns (tolerant_categories:set | 'all' | None, description)."""
    fn = find_fn(MAIN, "filter_by_file")
    if fn is None:
        return None, "filter_by_file not found"
    body = fn["body"]
    text = render(body).replace(" ", "")
    # idioms: `primary_file_ids().is_empty() || any(..)`  /  early return under is_empty()
    tol = set()
    desc = render(body)[:300]
    for n in walk(body):
        if n["k"] == "MethodCall" and n["method"] == "is_empty" and "primary_file_ids" in render(n["recv"]):
            # find what is returned under it
            # case 1: `X.is_empty() || ...` as (part of) the tail expression
            if re.search(r"primary_file_ids\(\)\.is_empty\(\)\|\|", text):
                return "all", desc
            # case 2: if X.is_empty() { return <expr>; }
            for i in walk(body):
                if i["k"] == "If" and "primary_file_ids().is_empty()" in render(i["cond"]).replace(" ", ""):
                    t = render(i["then"]).replace(" ", "")
                    if "true" in t and "MessageCategory" not in t:
                        return "all", desc
                    cats = set(re.findall(r"MessageCategory::(\w+)", t))
                    if cats:
                        if ">=" in t and "Warning" in cats:
                            return {"Error", "Warning"}, desc
                        return cats, desc
    return tol, desc
