"""Report producers and the display filter (shared by C02 and C03).

Producer scan: every function that constructs a report with
Report::error / Report::warning / Report::info is classified by whether a
primary label is attached on every path to its return:
  always       add_primary is called unconditionally
  if-file-id   add_primary only under `if let Some(file_id) = <x>.file_id`  (idiom discharged by C04.5:
               every AST/IR node gets its file id)
  if-meta      add_primary only under `if let Some(meta) = self.meta` and every constructor call passes Some(..)
  never        no add_primary at all
  conditional  anything else (reported)"""
import re

import facts
from astlib import calls, find_fn, fns_in_file, last, method_calls, render, site, strip, walk
from pathcond import conditions_to, fact_str

MAIN = "cli/src/main.rs"


def producers():
    """yield dict(file, qual, fn, category, code, label) for every report construction site."""
    out = []
    for f in sorted(facts.ast()):
        if f.startswith("program_structure_tests"):
            continue
        for q, fn in fns_in_file(f):
            if f.endswith("report.rs") and q == "Report":
                continue
            ctors = [c for c in walk(fn["body"]) if c["k"] == "Call" and c["func"]["k"] == "Path" and re.fullmatch(r"(?:\w+::)*Report::(error|warning|info)", c["func"]["path"])]
            fn_view = fn
            if ctors:
                # a private helper of the file that attaches the label (`add_label_if_known(&mut report, ..)`) is read in place
                helpers_ = {g["name"] for _q2, g in fns_in_file(f) if g is not fn and g.get("body") and g.get("vis") != "pub" and any(True for _ in method_calls(g["body"], "add_primary"))}
                if helpers_ and any(x["k"] == "Call" and x["func"]["k"] == "Path" and last(x["func"]["path"]) in helpers_ for x in walk(fn["body"])):
                    from astlib import inline_helpers

                    others = tuple(g["name"] for _q2, g in fns_in_file(f) if g["name"] not in helpers_)
                    fn_view = inline_helpers(fn, f, exclude=others)
            for c in ctors:
                cat = last(c["func"]["path"])
                code = render(strip(c["args"][1])) if len(c["args"]) > 1 else "?"
                c_view = c
                if fn_view is not fn:
                    same = [x for x in walk(fn_view["body"]) if x["k"] == "Call" and x.get("line") == c.get("line") and render(x) == render(c)]
                    c_view = same[0] if same else None
                label, detail = label_coverage(fn_view, c_view) if c_view is not None else label_coverage(fn, c)
                out.append({"file": f, "qual": q, "fn": fn["name"], "node": c, "category": cat, "code": code, "label": label, "detail": detail})
    return out


def _must(n, idioms):
    """does every path through n call add_primary?  returns True/False; records idioms used."""
    k = n["k"]
    if k == "Closure" or k == "ItemStmt":
        return False
    if k == "MethodCall" and n["method"] == "add_primary":
        return True
    if k == "Block":
        return any(_must(s, idioms) for s in n["stmts"])
    if k == "If":
        c = n["cond"]
        t = _must(n["then"], idioms)
        e = _must(n["else"], idioms) if n["else"] else False
        if t and e:
            return True
        if t and not n["else"] and c["k"] == "Let" and render(c["pat"]).startswith("Some("):
            src = render(c["e"])
            if re.search(r"file_id", src):
                idioms.add("if-file-id")
                return True
            if re.search(r"self\.meta$", src):
                idioms.add("if-meta")
                return True
        return _must(c, idioms) if c["k"] != "Let" else False
    if k == "Match":
        return all(_must(a["body"], idioms) for a in n["arms"]) or _must(n["scrut"], idioms)
    if k in ("For", "While", "Loop"):
        return False
    for v in n.values():
        if isinstance(v, dict) and "k" in v and _must(v, idioms):
            return True
        if isinstance(v, list):
            for x in v:
                if isinstance(x, dict) and "k" in x and _must(x, idioms):
                    return True
    return False


def label_coverage(fn, ctor):
    """classify the paths from the report construction to the end of its block"""
    from pathcond import find_path
    path = find_path(fn["body"], ctor) or []
    # innermost enclosing block of the constructor
    blk, stmt = fn["body"], None
    for parent, slot, child in path:
        if parent["k"] == "Block":
            blk, stmt = parent, child
    if stmt is None:
        return "never", ""
    idx = [i for i, s in enumerate(blk["stmts"]) if s is stmt][0]
    rest = {"k": "Block", "stmts": blk["stmts"][idx:]}
    if not any(True for _ in method_calls(rest, "add_primary")):
        return "never", ""
    # every structured path from the construction to the end of its block: either it attaches a primary label, or it
    # is the path on which the node has no file id / the error has no meta (idioms discharged elsewhere)
    from pathcond import enumerate_paths

    def labelled(atoms):
        def rec(n):
            if isinstance(n, list):
                return any(rec(x) for x in n)
            if not isinstance(n, dict):
                return False
            k = n.get("k")
            if k in ("For", "While", "Loop", "Closure", "ItemStmt"):
                return False  # may run zero times / later
            if k == "MethodCall" and n["method"] == "add_primary":
                return True
            return any(rec(v) for v in n.values() if isinstance(v, (dict, list)))

        return any(rec(a) for a in atoms)

    idioms = set()
    unlabelled = []
    for conds, atoms, ex in enumerate_paths(rest):
        if ex == "panic" or labelled(atoms):
            continue
        why = None
        for f in conds:
            if f[0] == "iflet" and f[3] and render(f[1]).strip().split("::")[-1] == "None":
                src = render(strip(f[2]))
                if re.search(r"file_id", src):
                    why = "if-file-id"
                elif re.search(r"self\.meta$", src):
                    why = "if-meta"
            if f[0] == "if" and not f[2] and strip(f[1])["k"] == "MethodCall" and strip(f[1])["method"] == "is_some":
                src = render(strip(strip(f[1])["recv"]))
                if re.search(r"file_id", src):
                    why = "if-file-id"
                elif re.search(r"self\.meta$", src):
                    why = "if-meta"
        if why:
            idioms.add(why)
        else:
            unlabelled.append([fact_str(c) for c in conds][:6])
    if unlabelled:
        return "conditional", "a primary label is attached on some paths only; without a label: %s" % unlabelled[:3]
    if not idioms:
        return "always", ""
    return (sorted(idioms)[0] if len(idioms) == 1 else "if-file-id+if-meta"), ""


def find_in(root, nodes):
    ids = {id(n) for n in nodes}
    return any(id(n) in ids for n in walk(root))


ORDER = {"Info": 0, "Warning": 1, "Error": 2}


_EV_ENV = {}


LABEL_WORLDS = {"empty": [], "user": [True], "other": [False], "mixed": [True, False]}
_EV_WORLD = {"labels": "empty", "user": None}


def _ev_elem(body, var, inuser):
    """value of a closure body over one primary file id that is / is not one of the user's inputs"""
    b = strip(body)
    if b["k"] == "Block":
        from astlib import block_tail
        tl = block_tail(b)
        return _ev_elem(tl, var, inuser) if tl is not None and len(b["stmts"]) == 1 else None
    if b["k"] == "Unary" and b["op"] == "!":
        v = _ev_elem(b["e"], var, inuser)
        return None if v is None else (not v)
    if b["k"] == "MethodCall" and b["method"] == "contains" and len(b["args"]) == 1:
        a = render(strip(b["args"][0])).replace(" ", "").lstrip("&*")
        recv = render(strip(b["recv"])).replace(" ", "")
        if a == var and (_EV_WORLD["user"] is None or recv == _EV_WORLD["user"]):
            return inuser
    return None


def _ev(e, cat):
    """value of a boolean expression of filter_by_file for a report of category `cat` whose primary labels are those
    of the current label world (none / all in user files / none in user files / both): True / False / None (unknown)"""
    elems = LABEL_WORLDS[_EV_WORLD["labels"]]
    if _EV_ENV:
        from pathcond import _subst

        e = _subst(e, _EV_ENV)
    e = strip(e)
    k = e["k"]
    t = render(e).replace(" ", "")
    if k == "Lit" and e["lit"] == "bool":
        return bool(e["value"])
    if k == "Block":
        from astlib import block_tail
        tl = block_tail(e)
        return _ev(tl, cat) if tl is not None and len(e["stmts"]) == 1 else None
    if k == "Unary" and e["op"] == "!":
        v = _ev(e["e"], cat)
        return None if v is None else (not v)
    if k == "Binary" and e["op"] in ("&&", "||"):
        a, b = _ev(e["l"], cat), _ev(e["r"], cat)
        if e["op"] == "&&":
            if a is False or b is False:
                return False
            return True if (a is True and b is True) else None
        if a is True or b is True:
            return True
        return False if (a is False and b is False) else None
    if k == "MethodCall" and e["method"] == "is_empty" and "primary_file_ids" in render(e["recv"]):
        return not elems
    if k == "MethodCall" and e["method"] in ("any", "all") and "primary_file_ids" in render(e["recv"]):
        if not elems:
            return e["method"] == "all"
        cl = strip(e["args"][0]) if e["args"] else None
        if cl is None or cl["k"] != "Closure" or len(cl["inputs"]) != 1:
            return None
        prm = cl["inputs"][0]
        while prm["k"] in ("PRef", "PReference") and prm.get("pat"):
            prm = prm["pat"]
        if prm["k"] != "PIdent":
            return None
        var = prm["name"]
        vals = [_ev_elem(cl["body"], var, x) for x in elems]
        if any(v is None for v in vals):
            return None
        return any(vals) if e["method"] == "any" else all(vals)
    if k == "Binary" and e["op"] in ("==", "!=", ">=", "<=", ">", "<"):
        l, r = render(strip(e["l"])).replace(" ", ""), render(strip(e["r"])).replace(" ", "")
        m = re.fullmatch(r"MessageCategory::(\w+)", r) or re.fullmatch(r"MessageCategory::(\w+)", l)
        side = l if re.fullmatch(r"MessageCategory::(\w+)", r) else r
        if m and side.endswith("category()") and m.group(1) in ORDER:
            a, b = ORDER[cat], ORDER[m.group(1)]
            if side == r:  # constant on the left: flip
                a, b = b, a
            return {"==": a == b, "!=": a != b, ">=": a >= b, "<=": a <= b, ">": a > b, "<": a < b}[e["op"]]
    if k == "Macro" and e["name"].endswith("matches") and e.get("parsed") and e["args"] and render(strip(e["args"][0])).replace(" ", "").endswith("category()"):
        cats = [last(x) for x in re.findall(r"MessageCategory::\w+", render(e["pat"]))]
        if cats:
            return cat in cats
    return None


def filter_tolerance(labels="empty"):
    """How does cli::filter_by_file treat a report whose primary labels are those of the label world `labels`
    (default: none)?  The function is evaluated on all its structured paths for each category.
    returns (set of categories that pass | 'all' | None, description)."""
    from pathcond import enumerate_paths
    fn = find_fn(MAIN, "filter_by_file")
    if fn is None:
        return None, "filter_by_file not found"
    desc = render(fn["body"])[:300]
    _EV_WORLD["labels"] = labels
    prm = [i for i in fn["sig"]["inputs"] if not i.get("self")]
    _EV_WORLD["user"] = prm[1]["pat"]["name"] if len(prm) == 2 and prm[1]["pat"]["k"] == "PIdent" else None
    # immutable simple lets of the function stand for their definitions
    _EV_ENV.clear()
    for n in walk(fn["body"]):
        if n["k"] == "Local" and n["pat"]["k"] == "PIdent" and n["init"] is not None and not n["pat"].get("mut") and n.get("else") is None:
            _EV_ENV[n["pat"]["name"]] = n["init"]
    passes = set()
    unknown = False
    for cat in ORDER:
        result = None
        decided = False
        for facts_, atoms, ex in enumerate_paths(fn["body"]):
            feasible = True
            for f in facts_:
                if f[0] == "if":
                    v = _ev(f[1], cat)
                    if v is not None and v != f[2]:
                        feasible = False
                elif f[0] == "notall":
                    vs = [(_ev(x[1], cat), x[2]) for x in f[1] if x[0] == "if"]
                    if vs and len(vs) == len(f[1]) and all(v is not None and v == pol for v, pol in vs):
                        feasible = False
            if not feasible:
                continue
            # value of the path: the returned / tail expression is the last atom
            val = None
            if atoms:
                lastn = atoms[-1]
                if lastn["k"] == "Return":
                    val = _ev(lastn["e"], cat) if lastn.get("e") else None
                else:
                    val = _ev(lastn, cat)
            if val is None:
                unknown = True
            elif val:
                result = True if result in (None, True) else "mixed"
                decided = True
            else:
                result = False if result in (None, False) else "mixed"
                decided = True
        if result is True:
            passes.add(cat)
        elif result == "mixed" or not decided:
            unknown = True
    _EV_WORLD["labels"] = "empty"
    if unknown:
        return None, "cannot evaluate filter_by_file for a report with label world `%s`: " % labels + desc
    if passes == set(ORDER):
        return "all", desc
    return passes, desc
