"""Path conditions on the syntax tree.

conditions_to(root, target) returns the list of facts that hold whenever
control reaches `target` inside `root` (a function body), derived from
 * enclosing `if` / `if let` / `match` arms / loops / closures,
 * earlier statements of every enclosing block that leave the block
   (`return`, `continue`, `break`, `panic!`-like macros, `let .. else`):
   reaching the target means that exit was *not* taken.

Each fact is a tuple:
  ("if", expr, polarity)           boolean condition known true / false
  ("iflet", pat, expr, polarity)   `let pat = expr` matched / did not match
  ("arm", scrut, pat, guard)       inside this match arm
  ("loop", kind, pat, iter)        inside this loop body
  ("closure", node)                inside this closure body
  ("notall", [facts])              not all of these hold together
The representation is shape-insensitive for the usual rewrites
(early return vs nested if, `!a || !b` vs `a && b`, if-let vs let-else)."""
from astlib import is_node, render, walk

DIVERGING_MACROS = ("panic", "unreachable", "unimplemented", "todo")


def _child_slots(n):
    """(slot name, child) pairs in source order for the node kinds we descend."""
    for k, v in n.items():
        if isinstance(v, dict) and "k" in v:
            yield k, v
        elif isinstance(v, list):
            for x in v:
                if isinstance(x, dict):
                    if "k" in x:
                        yield k, x
                    else:
                        for kk, y in x.items():
                            if isinstance(y, dict) and "k" in y:
                                yield k + "." + kk, y


def find_path(root, target):
    """List of (node, slot) from root down to target (identity)."""
    path = []

    def rec(n):
        if n is target:
            return True
        for slot, c in _child_slots(n):
            path.append((n, slot, c))
            if rec(c):
                return True
            path.pop()
        return False

    if rec(root):
        return path
    return None


def split_cond(e, pol):
    """Boolean expression with polarity -> list of atomic facts (conjunction) or a
    single notall."""
    if not is_node(e):
        return []
    k = e["k"]
    if k == "Unary" and e["op"] == "!":
        return split_cond(e["e"], not pol)
    if k == "Binary" and e["op"] == "&&":
        if pol:
            return split_cond(e["l"], True) + split_cond(e["r"], True)
        return [("notall", split_cond(e["l"], True) + split_cond(e["r"], True))]
    if k == "Binary" and e["op"] == "||":
        if not pol:
            return split_cond(e["l"], False) + split_cond(e["r"], False)
        # a || b  ==  not(!a && !b)
        return [("notall", split_cond(e["l"], False) + split_cond(e["r"], False))]
    if k == "Let":
        return [("iflet", e["pat"], e["e"], pol)]
    if k == "Macro" and e["name"].endswith("matches") and e.get("parsed") and e.get("pat") is not None:
        facts_ = [("iflet", e["pat"], e["args"][0], pol)]
        if e.get("guard"):
            if pol:
                facts_ += split_cond(e["guard"], True)
            else:
                return [("notall", [("iflet", e["pat"], e["args"][0], True)] + split_cond(e["guard"], True))]
        return facts_
    if k == "Paren":
        return split_cond(e["e"], pol)
    # canonical atoms: `a != b` is the negation of `a == b`; `x.is_none()` the negation of `x.is_some()`;
    # `x.is_err()` of `x.is_ok()`; `a > b` is `b < a`, `a >= b` is `b <= a`
    if k == "Binary" and e["op"] == "!=":
        e2 = dict(e)
        e2["op"] = "=="
        return [("if", e2, not pol)]
    if k == "Binary" and e["op"] in (">", ">="):
        e2 = dict(e)
        e2["op"] = {">": "<", ">=": "<="}[e["op"]]
        e2["l"], e2["r"] = e["r"], e["l"]
        return [("if", e2, pol)]
    if k == "MethodCall" and not e["args"] and e["method"] in ("is_none", "is_err"):
        e2 = dict(e)
        e2["method"] = {"is_none": "is_some", "is_err": "is_ok"}[e["method"]]
        return [("if", e2, not pol)]
    return [("if", e, pol)]


def negate(facts_):
    """Negation of a conjunction of facts."""
    if len(facts_) == 1:
        f = facts_[0]
        if f[0] == "if":
            return [("if", f[1], not f[2])]
        if f[0] == "iflet":
            return [("iflet", f[1], f[2], not f[3])]
        if f[0] == "notall":
            return list(f[1])
    return [("notall", list(facts_))]


def _catch_all(pat, other):
    """is `pat` the complement of `other` for a two-arm match? (`_`, a plain binding, or `None` next to `Some(..)`)"""
    k = pat["k"]
    if k == "PWild":
        return True
    if k == "PIdent" and pat.get("sub") is None and pat["name"][:1].islower():
        return True
    if k in ("PPath", "PIdent") and render(pat).split("::")[-1] == "None" and other["k"] == "PTupleStruct" and render(other).split("(")[0].split("::")[-1] == "Some":
        return True
    return False


def arm_fact(m, arm):
    """Fact for being inside `arm` of match `m`.  A two-arm match without guards whose other arm is a catch-all is the
    same thing as `if let` / `else`: it yields the same fact, so rules do not see the difference."""
    arms = m["arms"]
    if len(arms) == 2 and not arms[0]["guard"] and not arms[1]["guard"]:
        i = 0 if arms[0] is arm else 1
        me, other = arms[i], arms[1 - i]
        if render(strip_pat(me["pat"])) in ("true", "false") and render(strip_pat(other["pat"])) in ("true", "false", "_"):
            return split_cond(m["scrut"], render(strip_pat(me["pat"])) == "true")
        if _catch_all(other["pat"], me["pat"]) and not _catch_all(me["pat"], other["pat"]):
            return [("iflet", me["pat"], m["scrut"], True)]
        if _catch_all(me["pat"], other["pat"]) and not _catch_all(other["pat"], me["pat"]):
            return [("iflet", other["pat"], m["scrut"], False)]
    return [("arm", m["scrut"], arm["pat"], arm["guard"])]


def strip_pat(p):
    while p["k"] in ("PRef", "PParen") and "pat" in p:
        p = p["pat"]
    return p


def exits(stmt, kinds=("return", "continue", "break", "panic")):
    """Exits inside a statement that leave the *enclosing block of the statement*:
    yields (kind, node, facts relative to stmt)."""
    out = []

    def rec(n, conds, loop_depth):
        k = n["k"]
        if k == "Closure" or k == "ItemStmt":
            return
        if k == "Return":
            if n.get("e"):
                rec(n["e"], conds, loop_depth)
            out.append(("return", n, list(conds)))
            return
        if k in ("Continue", "Break"):
            if loop_depth == 0:
                out.append((k.lower(), n, list(conds)))
            return
        if k == "Macro" and n["name"].rsplit("::", 1)[-1] in DIVERGING_MACROS:
            out.append(("panic", n, list(conds)))
            return
        if k == "Try":
            rec(n["e"], conds, loop_depth)
            out.append(("try", n, list(conds)))
            return
        if k == "If":
            rec(n["cond"], conds, loop_depth)
            rec(n["then"], conds + split_cond(n["cond"], True), loop_depth)
            if n["else"]:
                rec(n["else"], conds + split_cond(n["cond"], False), loop_depth)
            return
        if k == "Match":
            rec(n["scrut"], conds, loop_depth)
            for a in n["arms"]:
                c2 = conds + arm_fact(n, a)
                rec(a["body"], c2, loop_depth)
            return
        if k in ("For", "While", "Loop"):
            if k == "For":
                rec(n["iter"], conds, loop_depth)
                c2 = conds + [("loop", "for", n["pat"], n["iter"])]
            elif k == "While":
                c2 = conds + [("loop", "while", None, n["cond"])]
            else:
                c2 = conds + [("loop", "loop", None, None)]
            rec(n["body"], c2, loop_depth + 1)
            return
        if k == "Block":
            cur = list(conds)
            for s in n["stmts"]:
                rec(s, cur, loop_depth)
                cur = cur + after_stmt(s)
            return
        if k == "Local":
            if n["init"]:
                rec(n["init"], conds, loop_depth)
            if n["else"]:
                rec(n["else"], conds + [("iflet", n["pat"], n["init"], False)], loop_depth)
            return
        for _slot, c in _child_slots(n):
            rec(c, conds, loop_depth)

    rec(stmt, [], 0)
    return [e for e in out if e[0] in kinds or (e[0] == "try" and "try" in kinds)]


def after_stmt(stmt, kinds=("return", "continue", "break", "panic")):
    """Facts known after a statement completed normally (its exits were not taken)."""
    out = []
    if stmt["k"] == "Local" and stmt.get("else") is not None:
        out.append(("iflet", stmt["pat"], stmt["init"], True))
    seen = {fact_str(f) for f in out}
    for _kind, _node, conds in exits(stmt, kinds):
        if conds:
            for f in negate(conds):
                k = fact_str(f)
                if k not in seen:
                    seen.add(k)
                    out.append(f)
        # an unconditional exit: nothing after it is reachable; ignore
    return out


def conditions_to(root, target, kinds=("return", "continue", "break", "panic")):
    path = find_path(root, target)
    if path is None:
        return None
    conds = []
    for parent, slot, child in path:
        k = parent["k"]
        if k == "Block":
            for s in parent["stmts"]:
                if s is child:
                    break
                conds += after_stmt(s, kinds)
        elif k == "If":
            if slot == "then":
                conds += split_cond(parent["cond"], True)
            elif slot == "else":
                conds += split_cond(parent["cond"], False)
        elif k == "Match":
            if slot == "arms":
                conds += arm_fact(parent, child)
        elif k == "Arm":
            pass
        elif k == "For" and slot == "body":
            conds.append(("loop", "for", parent["pat"], parent["iter"]))
        elif k == "While" and slot == "body":
            conds.append(("loop", "while", None, parent["cond"]))
            conds += split_cond(parent["cond"], True)
        elif k == "Loop" and slot == "body":
            conds.append(("loop", "loop", None, None))
        elif k == "Closure" and slot == "body":
            conds.append(("closure", parent))
        elif k == "Binary" and parent["op"] == "&&" and slot == "r":
            conds += split_cond(parent["l"], True)
        elif k == "Binary" and parent["op"] == "||" and slot == "r":
            conds += split_cond(parent["l"], False)
    return resolve_named(conds, path)


def resolve_named(conds, path):
    """`let flag = <condition>; .. if flag {..}`: the fact is the condition, not the name.  Only immutable simple
    lets on the way to the target are resolved (a `let mut` flag changes its value)."""
    env = {}
    for parent, _slot, child in path:
        if parent["k"] == "Block":
            for s in parent["stmts"]:
                if s is child:
                    break
                if s["k"] == "Local" and s["pat"]["k"] == "PIdent" and s["init"] is not None and not s["pat"].get("mut") and s.get("else") is None:
                    env[s["pat"]["name"]] = s["init"]
    if not env:
        return conds
    out = []
    for f in conds:
        if f[0] == "if":
            e = f[1]
            while e.get("k") == "Paren":
                e = e["e"]
            if e.get("k") == "Path" and e["path"] in env and env[e["path"]].get("k") in ("MethodCall", "Macro", "Binary", "Unary", "Call"):
                out += split_cond(env[e["path"]], f[2])
                continue
        out.append(f)
    return out


def fact_str(f):
    t = f[0]
    if t == "if":
        return ("" if f[2] else "!") + render(f[1])
    if t == "iflet":
        return ("" if f[3] else "!") + "(let %s = %s)" % (render(f[1]), render(f[2]))
    if t == "arm":
        return "match %s => %s%s" % (render(f[1]), render(f[2]), (" if " + render(f[3])) if f[3] else "")
    if t == "loop":
        return "%s %s in %s" % (f[1], render(f[2]) if f[2] else "", render(f[3]) if f[3] else "")
    if t == "closure":
        return "closure"
    if t == "notall":
        return "!(" + " && ".join(fact_str(x) for x in f[1]) + ")"
    return str(f)


def facts_str(fs):
    return [fact_str(f) for f in fs]


def let_env(root, target=None):
    """name -> init expression for simple `let name = init;` bindings on the way to
    target (or everywhere in root when target is None).  Later bindings shadow."""
    env = {}
    if target is None:
        for n in walk(root):
            if n["k"] == "Local" and n["pat"]["k"] == "PIdent" and n["init"] is not None:
                env[n["pat"]["name"]] = n["init"]
        return env
    path = find_path(root, target)
    if path is None:
        return env
    for parent, _slot, child in path:
        if parent["k"] == "Block":
            for s in parent["stmts"]:
                if s is child:
                    break
                if s["k"] == "Local" and s["pat"]["k"] == "PIdent" and s["init"] is not None:
                    env[s["pat"]["name"]] = s["init"]
    return env


def _eq_lit(f):
    """fact `X == "lit"` (positive) -> (X text, lit) else None"""
    if f[0] == "if" and f[2] and f[1]["k"] == "Binary" and f[1]["op"] == "==":
        l, r = f[1]["l"], f[1]["r"]
        if r["k"] == "Lit":
            return render(l), render(r)
        if l["k"] == "Lit":
            return render(r), render(l)
    return None


def prune_vacuous(conds):
    """Drop `notall` facts that contradict a positive literal equality on the same path
    (e.g. not(name == "A" && ..) while name == "B" holds)."""
    eqs = {}
    for f in conds:
        e = _eq_lit(f)
        if e:
            eqs[e[0]] = e[1]
    out = []
    for f in conds:
        if f[0] == "notall":
            vac = False
            for g in f[1]:
                e = _eq_lit(g)
                if e and e[0] in eqs and eqs[e[0]] != e[1]:
                    vac = True
            if vac:
                continue
        out.append(f)
    return out


def enumerate_paths(node, limit=4000):
    """All structured control paths through a block/expression (If / if-let / Match / Block;
    inner loops and closures are atomic).  Yields (facts, atoms, exit) where atoms is the list
    of non-control nodes met in order and exit in (None, 'return', 'continue', 'break', 'panic', 'try')."""
    out = []

    def seq(items, i, conds, atoms):
        if len(out) > limit:
            return
        if i == len(items):
            out.append((conds, atoms, None))
            return
        for c2, a2, ex in one(items[i], conds, atoms):
            if ex is not None:
                out.append((c2, a2, ex))
            else:
                seq(items, i + 1, c2, a2)

    def one(n, conds, atoms):
        k = n["k"]
        if k == "Block":
            res = []
            saved = list(out)
            del out[:]
            seq(n["stmts"], 0, conds, atoms)
            res = list(out)
            del out[:]
            out.extend(saved)
            return res
        if k == "ExprStmt":
            return one(n["e"], conds, atoms)
        if k == "Local":
            r = []
            inits = one(n["init"], conds, atoms) if n["init"] is not None else [(conds, atoms, None)]
            for c2, a2, ex in inits:
                if ex is not None:
                    r.append((c2, a2, ex))
                    continue
                if n["else"] is not None:
                    r += one(n["else"], c2 + [("iflet", n["pat"], n["init"], False)], a2)
                    r.append((c2 + [("iflet", n["pat"], n["init"], True)], a2 + [n], None))
                else:
                    r.append((c2, a2 + [n], None))
            return r
        if k == "If":
            r = []
            r += one(n["then"], conds + split_cond(n["cond"], True), atoms + [n["cond"]])
            if n["else"] is not None:
                r += one(n["else"], conds + split_cond(n["cond"], False), atoms + [n["cond"]])
            else:
                r.append((conds + split_cond(n["cond"], False), atoms + [n["cond"]], None))
            return r
        if k == "Match":
            r = []
            prev = []
            for a in n["arms"]:
                r += one(a["body"], conds + arm_fact(n, a), atoms + [n["scrut"]])
            return r
        if k == "Return":
            return [(conds, atoms + ([n["e"]] if n.get("e") else []) + [n], "return")]
        if k == "Continue":
            return [(conds, atoms, "continue")]
        if k == "Break":
            return [(conds, atoms + ([n["e"]] if n.get("e") else []), "break")]
        if k == "Macro" and n["name"].rsplit("::", 1)[-1] in DIVERGING_MACROS:
            return [(conds, atoms + [n], "panic")]
        return [(conds, atoms + [n], None)]

    return one(node, [], [])
