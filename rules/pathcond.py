"""Path conditions on the syntax tree.

conditions_to(root, target) returns the list of facts that hold whenever
control reaches `target` inside `root` (a function body), derived from
 * enclosing `if` / `if let` / `match` arms / loops / closures,
 * earlier statements of every enclosing block that leave the block
   (`return`, `continue`, `break`, `panic!`-like macros, `let .. else`):
   reaching the target means that exit was *not* taken.

Each fact is a tuple:
  ("if", expr, polarity)           boolean condition known true / false
  ("iflet", pat, expr, polarity)   `let pat = expr` matched / did not match
  ("arm", scrut, pat, guard)       inside this match arm
  ("loop", kind, pat, iter)        inside this loop body
  ("closure", node)                inside this closure body
  ("notall", [facts])              not all of these hold together
The representation is shape-insensitive for the usual rewrites
(early return vs nested if, `!a || !b` vs `a && b`, if-let vs let-else)."""
from astlib import is_node, render, walk

DIVERGING_MACROS = ("panic", "unreachable", "unimplemented", "todo")


def _child_slots(n):
    """(slot name, child) pairs in source order for the node kinds we descend."""
    for k, v in n.items():
        if isinstance(v, dict) and "k" in v:
            yield k, v
        elif isinstance(v, list):
            for x in v:
                if isinstance(x, dict):
                    if "k" in x:
                        yield k, x
                    else:
                        for kk, y in x.items():
                            if isinstance(y, dict) and "k" in y:
                                yield k + "." + kk, y


def find_path(root, target):
    """List of (node, slot) from root down to target (identity)."""
    path = []

    def rec(n):
        if n is target:
            return True
        for slot, c in _child_slots(n):
            path.append((n, slot, c))
            if rec(c):
                return True
            path.pop()
        return False

    if rec(root):
        return path
    return None


def _wild():
    return {"k": "PWild", "line": 0}


def _simple_payload(p):
    while p["k"] in ("PRef", "PType"):
        p = p["pat"]
    return p["k"] == "PWild" or (p["k"] == "PIdent" and p.get("sub") is None and p["name"][:1].islower())


def IFLET(pat, expr, pol):
    """iflet fact in canonical form: a *failed* match of `Some(x)` / `Ok(x)` / `Err(x)` / `None` is stated as the
    successful match of the complementary constructor (`None`, `Err(_)`, `Ok(_)`, `Some(_)`), so that `if let .. else`,
    a two-arm `match`, `let .. else` and an early `continue` all give the same fact."""
    if not pol and is_node(pat):
        p = pat
        while p["k"] in ("PRef", "PType", "PParen") and "pat" in p:
            p = p["pat"]
        name = None
        if p["k"] == "PTupleStruct" and len(p["elems"]) == 1 and _simple_payload(p["elems"][0]):
            name = p["path"].split("::")[-1]
        elif p["k"] in ("PIdent", "PPath") and (p.get("name") or p.get("path", "")).split("::")[-1] == "None":
            name = "None"
        comp = {"Some": "None", "None": "Some", "Ok": "Err", "Err": "Ok"}.get(name)
        if comp == "None":
            return ("iflet", {"k": "PIdent", "line": 0, "name": "None", "by_ref": False, "mut": False, "sub": None}, expr, True)
        if comp in ("Some", "Ok", "Err"):
            return ("iflet", {"k": "PTupleStruct", "line": 0, "path": comp, "elems": [_wild()]}, expr, True)
    return ("iflet", pat, expr, pol)


def split_cond(e, pol):
    """Boolean expression with polarity -> list of atomic facts (conjunction) or a
    single notall."""
    if not is_node(e):
        return []
    k = e["k"]
    if k == "Unary" and e["op"] == "!":
        return split_cond(e["e"], not pol)
    if k == "Binary" and e["op"] == "&&":
        if pol:
            return split_cond(e["l"], True) + split_cond(e["r"], True)
        return [("notall", split_cond(e["l"], True) + split_cond(e["r"], True))]
    if k == "Binary" and e["op"] == "||":
        if not pol:
            return split_cond(e["l"], False) + split_cond(e["r"], False)
        # a || b  ==  not(!a && !b)
        return [("notall", split_cond(e["l"], False) + split_cond(e["r"], False))]
    if k == "Let":
        return [IFLET(e["pat"], e["e"], pol)]
    if k == "Macro" and e["name"].endswith("matches") and e.get("parsed") and e.get("pat") is not None:
        facts_ = [IFLET(e["pat"], e["args"][0], pol)]
        if e.get("guard"):
            if pol:
                facts_ += split_cond(e["guard"], True)
            else:
                return [("notall", [IFLET(e["pat"], e["args"][0], True)] + split_cond(e["guard"], True))]
        return facts_
    if k == "Paren":
        return split_cond(e["e"], pol)
    # canonical atoms: `a != b` is the negation of `a == b`; `x.is_none()` the negation of `x.is_some()`;
    # `x.is_err()` of `x.is_ok()`; `a > b` is `b < a`, `a >= b` is `b <= a`
    if k == "Binary" and e["op"] == "!=":
        e2 = dict(e)
        e2["op"] = "=="
        return [("if", e2, not pol)]
    if k == "Binary" and e["op"] in (">", ">="):
        e2 = dict(e)
        e2["op"] = {">": "<", ">=": "<="}[e["op"]]
        e2["l"], e2["r"] = e["r"], e["l"]
        return [("if", e2, pol)]
    if k == "MethodCall" and not e["args"] and e["method"] in ("is_none", "is_err"):
        e2 = dict(e)
        e2["method"] = {"is_none": "is_some", "is_err": "is_ok"}[e["method"]]
        return [("if", e2, not pol)]
    return [("if", e, pol)]


def negate(facts_):
    """Negation of a conjunction of facts."""
    if len(facts_) == 1:
        f = facts_[0]
        if f[0] == "if":
            return [("if", f[1], not f[2])]
        if f[0] == "iflet":
            return [IFLET(f[1], f[2], not f[3])]
        if f[0] == "notall":
            return list(f[1])
    return [("notall", list(facts_))]


def _catch_all(pat, other):
    """is `pat` the complement of `other` for a two-arm match? (`_`, a plain binding, or `None` next to `Some(..)`)"""
    k = pat["k"]
    if k == "PWild":
        return True
    if k == "PIdent" and pat.get("sub") is None and pat["name"][:1].islower():
        return True
    if k in ("PPath", "PIdent") and render(pat).split("::")[-1] == "None" and other["k"] == "PTupleStruct" and render(other).split("(")[0].split("::")[-1] == "Some":
        return True
    return False


def _ctor(p):
    while p["k"] in ("PRef", "PType", "PParen") and "pat" in p:
        p = p["pat"]
    if p["k"] == "PTupleStruct":
        return p["path"].split("::")[-1]
    if p["k"] in ("PIdent", "PPath"):
        return (p.get("name") or p.get("path", "")).split("::")[-1]
    return None


def arm_fact(m, arm):
    """Fact for being inside `arm` of match `m`.  A two-arm match without guards whose other arm is a catch-all is the
    same thing as `if let` / `else`: it yields the same fact, so rules do not see the difference."""
    arms = m["arms"]
    if len(arms) == 2 and not arms[0]["guard"] and not arms[1]["guard"]:
        i = 0 if arms[0] is arm else 1
        me, other = arms[i], arms[1 - i]
        if render(strip_pat(me["pat"])) in ("true", "false") and render(strip_pat(other["pat"])) in ("true", "false", "_"):
            return split_cond(m["scrut"], render(strip_pat(me["pat"])) == "true")
        if _catch_all(other["pat"], me["pat"]) and not _catch_all(me["pat"], other["pat"]):
            return [IFLET(me["pat"], m["scrut"], True)]
        if _catch_all(me["pat"], other["pat"]) and not _catch_all(other["pat"], me["pat"]):
            return [IFLET(other["pat"], m["scrut"], False)]
        cm, co = _ctor(me["pat"]), _ctor(other["pat"])
        if {cm, co} in ({"Ok", "Err"}, {"Some", "None"}):
            # complementary constructors: being in this arm is the successful match of its own pattern
            return [IFLET(me["pat"], m["scrut"], True)]
    return [("arm", m["scrut"], arm["pat"], arm["guard"])]


def strip_pat(p):
    while p["k"] in ("PRef", "PParen") and "pat" in p:
        p = p["pat"]
    return p


def exits(stmt, kinds=("return", "continue", "break", "panic")):
    """Exits inside a statement that leave the *enclosing block of the statement*:
    yields (kind, node, facts relative to stmt)."""
    out = []

    def rec(n, conds, loop_depth):
        k = n["k"]
        if k == "Closure" or k == "ItemStmt":
            return
        if k == "Return":
            if n.get("e"):
                rec(n["e"], conds, loop_depth)
            out.append(("return", n, list(conds)))
            return
        if k in ("Continue", "Break"):
            if loop_depth == 0:
                out.append((k.lower(), n, list(conds)))
            return
        if k == "Macro" and n["name"].rsplit("::", 1)[-1] in DIVERGING_MACROS:
            out.append(("panic", n, list(conds)))
            return
        if k == "Try":
            rec(n["e"], conds, loop_depth)
            out.append(("try", n, list(conds)))
            return
        if k == "If":
            rec(n["cond"], conds, loop_depth)
            rec(n["then"], conds + split_cond(n["cond"], True), loop_depth)
            if n["else"]:
                rec(n["else"], conds + split_cond(n["cond"], False), loop_depth)
            return
        if k == "Match":
            rec(n["scrut"], conds, loop_depth)
            for a in n["arms"]:
                c2 = conds + arm_fact(n, a)
                rec(a["body"], c2, loop_depth)
            return
        if k in ("For", "While", "Loop"):
            if k == "For":
                rec(n["iter"], conds, loop_depth)
                c2 = conds + [("loop", "for", n["pat"], n["iter"])]
            elif k == "While":
                c2 = conds + [("loop", "while", None, n["cond"])]
            else:
                c2 = conds + [("loop", "loop", None, None)]
            rec(n["body"], c2, loop_depth + 1)
            return
        if k == "Block":
            cur = list(conds)
            for s in n["stmts"]:
                rec(s, cur, loop_depth)
                cur = cur + after_stmt(s)
            return
        if k == "Local":
            if n["init"]:
                rec(n["init"], conds, loop_depth)
            if n["else"]:
                rec(n["else"], conds + [IFLET(n["pat"], n["init"], False)], loop_depth)
            return
        for _slot, c in _child_slots(n):
            rec(c, conds, loop_depth)

    rec(stmt, [], 0)
    return [e for e in out if e[0] in kinds or (e[0] == "try" and "try" in kinds)]


def after_stmt(stmt, kinds=("return", "continue", "break", "panic")):
    """Facts known after a statement completed normally (its exits were not taken)."""
    out = []
    if stmt["k"] == "Local" and stmt.get("else") is not None:
        out.append(IFLET(stmt["pat"], stmt["init"], True))
    seen = {fact_str(f) for f in out}
    for _kind, _node, conds in exits(stmt, kinds):
        if conds:
            for f in negate(conds):
                k = fact_str(f)
                # the negated failure of a `let .. else` is the match that the let itself already states
                if stmt["k"] == "Local" and stmt.get("else") is not None and f[0] == "iflet" and f[3] and render(f[2]) == render(stmt["init"]) and out and _ctor(f[1]) == _ctor(out[0][1]):
                    continue
                if k not in seen:
                    seen.add(k)
                    out.append(f)
        # an unconditional exit: nothing after it is reachable; ignore
    return out


def conditions_to(root, target, kinds=("return", "continue", "break", "panic")):
    path = find_path(root, target)
    if path is None:
        return None
    conds = []
    for parent, slot, child in path:
        k = parent["k"]
        if k == "Block":
            for s in parent["stmts"]:
                if s is child:
                    break
                conds += after_stmt(s, kinds)
        elif k == "If":
            if slot == "then":
                conds += split_cond(parent["cond"], True)
            elif slot == "else":
                conds += split_cond(parent["cond"], False)
        elif k == "Match":
            if slot == "arms":
                conds += arm_fact(parent, child)
        elif k == "Arm":
            pass
        elif k == "Local" and slot == "else":
            conds.append(IFLET(parent["pat"], parent["init"], False))
        elif k == "For" and slot == "body":
            conds.append(("loop", "for", parent["pat"], parent["iter"]))
        elif k == "While" and slot == "body":
            conds.append(("loop", "while", None, parent["cond"]))
            conds += split_cond(parent["cond"], True)
        elif k == "Loop" and slot == "body":
            conds.append(("loop", "loop", None, None))
        elif k == "Closure" and slot == "body":
            conds.append(("closure", parent))
        elif k == "Binary" and parent["op"] == "&&" and slot == "r":
            conds += split_cond(parent["l"], True)
        elif k == "Binary" and parent["op"] == "||" and slot == "r":
            conds += split_cond(parent["l"], False)
    return resolve_named(conds, path)


PURE_KINDS = ("Path", "Field", "MethodCall", "Call", "Macro", "Binary", "Unary", "Index", "Ref", "Lit", "Paren", "Cast", "Tuple", "Range", "Closure", "PType", "Array", "Block", "ExprStmt")


def _pure(e):
    for n in walk(e):
        # reading a clock or a random source is not a value that can be moved to its use
        if n["k"] == "Call" and n["func"].get("k") == "Path" and n["func"]["path"].rsplit("::", 1)[-1] in ("now", "random", "thread_rng"):
            return False
        if n["k"] == "MethodCall" and n["method"] in ("elapsed", "next", "pop", "take", "remove", "insert", "push", "recv", "lock"):
            return False
        if n["k"] not in PURE_KINDS and n["k"] not in ("PIdent", "PWild", "PTupleStruct", "PStruct", "PPath", "PLit", "PRef", "PTuple", "POr"):
            return False
    return True


def _subst(e, env, depth=0):
    """replace free single-segment paths by their let definitions (deep copy); closures shadow their parameters"""
    if isinstance(e, list):
        return [_subst(x, env, depth) for x in e]
    if not isinstance(e, dict):
        return e
    if e.get("k") == "Path" and e["path"] in env and depth < 6:
        from astlib import strip as _strip

        return _subst(_strip(env[e["path"]]), {k: v for k, v in env.items() if k != e["path"]}, depth + 1)
    if e.get("k") == "Closure":
        bound = {x["name"] for p in e.get("inputs", []) for x in walk(p) if x["k"] == "PIdent"}
        env = {k: v for k, v in env.items() if k not in bound}
    if e.get("k") == "Struct":
        n = dict(e)
        n["fields"] = []
        for f in e["fields"]:
            f2 = dict(f)
            f2["e"] = _subst(f["e"], env, depth)
            if f.get("shorthand") and f["name"] in env:
                f2["shorthand"] = False
            n["fields"].append(f2)
        return n
    return {k: _subst(v, env, depth) for k, v in e.items()}


MUTATING = {"push", "push_back", "push_front", "insert", "remove", "clear", "extend", "append", "pop", "retain", "drain", "take", "swap", "truncate", "sort", "sort_unstable", "sort_by", "sort_by_key", "dedup", "entry", "replace", "clone_from", "reverse", "split_off", "resize", "fill", "set", "add", "update"}


def _root(e):
    while isinstance(e, dict) and e.get("k") in ("Field", "Index", "MethodCall", "Ref", "Unary", "Paren", "Try"):
        e = e.get("base") or e.get("recv") or e.get("e")
    return e["path"].split("::")[0] if isinstance(e, dict) and e.get("k") == "Path" else None


def _mutated_names(stmt):
    """names whose value may change when the statement runs: assignment targets, `&mut x`, receivers of mutating
    methods (known names, `*_mut`, `set_*`, `add_*`, `insert_*`, `remove_*`, `update_*`)"""
    out = set()
    for n in walk(stmt):
        k = n["k"]
        if k in ("Assign", "AssignOp"):
            r = _root(n["l"])
            if r:
                out.add(r)
        elif k == "Binary" and n.get("op", "").endswith("=") and n["op"] not in ("==", "!=", "<=", ">="):
            r = _root(n["l"])
            if r:
                out.add(r)
        elif k == "Ref" and n.get("mut"):
            r = _root(n["e"])
            if r:
                out.add(r)
        elif k == "MethodCall":
            m = n["method"]
            if m in MUTATING or m.endswith("_mut") or m.split("_")[0] in ("set", "add", "insert", "remove", "update", "push", "pop", "append", "cache", "propagate"):
                r = _root(n["recv"])
                if r:
                    out.add(r)
    return out


def pure_let_env(path):
    """name -> definition for the immutable pure simple lets that are in scope at the end of `path` (a find_path
    result) and whose definition is still valid there (no later shadowing binding, no possible mutation of a place
    the definition mentions)"""
    env = {}
    env_free = {}
    for parent, _slot, child in path:
        if parent["k"] == "Block":
            for s in parent["stmts"]:
                if s is child:
                    break
                for nm in _mutated_names(s):
                    for k_ in [k_ for k_, fv in list(env_free.items()) if nm in fv]:
                        env.pop(k_, None)
                        env_free.pop(k_, None)
                if s["k"] == "Local":
                    if s["pat"]["k"] == "PType":
                        s = dict(s)
                        s["pat"] = s["pat"]["pat"]
                    bound = {x["name"] for x in walk(s["pat"]) if x["k"] == "PIdent"}
                    for b_ in bound:
                        env.pop(b_, None)
                        env_free.pop(b_, None)
                    if s["pat"]["k"] == "PIdent" and s["init"] is not None and not s["pat"].get("mut") and s.get("else") is None and _pure(s["init"]):
                        env[s["pat"]["name"]] = _subst(s["init"], env)
                        env_free[s["pat"]["name"]] = {x["path"].split("::")[0] for x in walk(env[s["pat"]["name"]]) if x["k"] == "Path"}
            for nm in _mutated_names(child) if isinstance(child, dict) and child.get("k") in ("For", "While", "Loop") else ():
                for k_ in [k_ for k_, fv in list(env_free.items()) if nm in fv]:
                    env.pop(k_, None)
                    env_free.pop(k_, None)
        elif parent["k"] in ("For", "Closure", "Arm", "Match", "If", "While"):
            pats = []
            if parent["k"] == "For":
                pats = [parent["pat"]]
            elif parent["k"] == "Closure":
                pats = parent.get("inputs", [])
            elif parent["k"] == "Arm":
                pats = [parent["pat"]]
            elif parent["k"] == "Match" and isinstance(child, dict) and "pat" in child:
                pats = [child["pat"]]
            elif parent["k"] in ("If", "While"):
                pats = [l["pat"] for l in walk(parent["cond"]) if l["k"] == "Let"]
            for p_ in pats:
                for x in walk(p_):
                    if x["k"] == "PIdent":
                        env.pop(x["name"], None)
                        env_free.pop(x["name"], None)
    return env


def resolve_named(conds, path):
    """Facts are stated over the definitions of immutable simple lets, not over their names:
    `let t = m.type_knowledge(); if t.is_local()` gives the fact `m.type_knowledge().is_local()`, and
    `let flag = <condition>; if flag` gives the condition itself (see pure_let_env for which lets qualify)."""
    env = pure_let_env(path)
    out = []
    if not env:
        return conds

    def rw(f):
        if f[0] == "if":
            e = _subst(f[1], env)
            if e is not f[1] and e.get("k") != f[1].get("k"):
                return split_cond(e, f[2])
            return [("if", e, f[2])]
        if f[0] == "iflet":
            return [("iflet", f[1], _subst(f[2], env), f[3])]
        if f[0] == "arm":
            return [("arm", _subst(f[1], env), f[2], f[3])]
        if f[0] == "notall":
            inner = []
            for g in f[1]:
                inner += rw(g)
            return [("notall", inner)]
        if f[0] == "loop" and f[3] is not None:
            return [("loop", f[1], f[2], _subst(f[3], env))]
        return [f]

    for f in conds:
        out += rw(f)
    return out


def fact_str(f):
    t = f[0]
    if t == "if":
        return ("" if f[2] else "!") + render(f[1])
    if t == "iflet":
        return ("" if f[3] else "!") + "(let %s = %s)" % (render(f[1]), render(f[2]))
    if t == "arm":
        return "match %s => %s%s" % (render(f[1]), render(f[2]), (" if " + render(f[3])) if f[3] else "")
    if t == "loop":
        return "%s %s in %s" % (f[1], render(f[2]) if f[2] else "", render(f[3]) if f[3] else "")
    if t == "closure":
        return "closure"
    if t == "notall":
        return "!(" + " && ".join(fact_str(x) for x in f[1]) + ")"
    return str(f)


def facts_str(fs):
    return [fact_str(f) for f in fs]


def let_env(root, target=None):
    """name -> init expression for simple `let name = init;` bindings on the way to
    target (or everywhere in root when target is None).  Later bindings shadow."""
    env = {}
    if target is None:
        for n in walk(root):
            if n["k"] == "Local" and n["pat"]["k"] == "PIdent" and n["init"] is not None:
                env[n["pat"]["name"]] = n["init"]
        return env
    path = find_path(root, target)
    if path is None:
        return env
    for parent, _slot, child in path:
        if parent["k"] == "Block":
            for s in parent["stmts"]:
                if s is child:
                    break
                if s["k"] == "Local" and s["pat"]["k"] == "PIdent" and s["init"] is not None:
                    env[s["pat"]["name"]] = s["init"]
    return env


def _eq_lit(f):
    """fact `X == "lit"` (positive) -> (X text, lit) else None"""
    if f[0] == "if" and f[2] and f[1]["k"] == "Binary" and f[1]["op"] == "==":
        l, r = f[1]["l"], f[1]["r"]
        if r["k"] == "Lit":
            return render(l), render(r)
        if l["k"] == "Lit":
            return render(r), render(l)
    return None


def prune_vacuous(conds):
    """Drop `notall` facts that contradict a positive literal equality on the same path
    (e.g. not(name == "A" && ..) while name == "B" holds)."""
    eqs = {}
    for f in conds:
        e = _eq_lit(f)
        if e:
            eqs[e[0]] = e[1]
    out = []
    for f in conds:
        if f[0] == "notall":
            vac = False
            for g in f[1]:
                e = _eq_lit(g)
                if e and e[0] in eqs and eqs[e[0]] != e[1]:
                    vac = True
            if vac:
                continue
        out.append(f)
    return out


def enumerate_paths(node, limit=4000):
    """All structured control paths through a block/expression (If / if-let / Match / Block;
    inner loops and closures are atomic).  Yields (facts, atoms, exit) where atoms is the list
    of non-control nodes met in order and exit in (None, 'return', 'continue', 'break', 'panic', 'try')."""
    out = []

    def seq(items, i, conds, atoms):
        if len(out) > limit:
            return
        if i == len(items):
            out.append((conds, atoms, None))
            return
        for c2, a2, ex in one(items[i], conds, atoms):
            if ex is not None:
                out.append((c2, a2, ex))
            else:
                seq(items, i + 1, c2, a2)

    def one(n, conds, atoms):
        k = n["k"]
        if k == "Block":
            res = []
            saved = list(out)
            del out[:]
            seq(n["stmts"], 0, conds, atoms)
            res = list(out)
            del out[:]
            out.extend(saved)
            return res
        if k == "ExprStmt":
            return one(n["e"], conds, atoms)
        if k == "Local":
            r = []
            inits = one(n["init"], conds, atoms) if n["init"] is not None else [(conds, atoms, None)]
            if n["init"] is not None and n["init"]["k"] in ("Match", "If", "Block"):
                # the branches of the initialiser were enumerated: the atom for the `let` itself must not contain them again
                n = dict(n)
                n["init"] = {"k": "Path", "line": n.get("line", 0), "path": "<branch-value>"}
            for c2, a2, ex in inits:
                if ex is not None:
                    r.append((c2, a2, ex))
                    continue
                if n["else"] is not None:
                    r += one(n["else"], c2 + [IFLET(n["pat"], n["init"], False)], a2)
                    r.append((c2 + [IFLET(n["pat"], n["init"], True)], a2 + [n], None))
                else:
                    r.append((c2, a2 + [n], None))
            return r
        if k == "If":
            r = []
            r += one(n["then"], conds + split_cond(n["cond"], True), atoms + [n["cond"]])
            if n["else"] is not None:
                r += one(n["else"], conds + split_cond(n["cond"], False), atoms + [n["cond"]])
            else:
                r.append((conds + split_cond(n["cond"], False), atoms + [n["cond"]], None))
            return r
        if k == "Match":
            r = []
            prev = []
            for a in n["arms"]:
                r += one(a["body"], conds + arm_fact(n, a), atoms + [n["scrut"]])
            return r
        if k == "Return":
            return [(conds, atoms + ([n["e"]] if n.get("e") else []) + [n], "return")]
        if k == "Continue":
            return [(conds, atoms, "continue")]
        if k == "Break":
            return [(conds, atoms + ([n["e"]] if n.get("e") else []), "break")]
        if k == "Macro" and n["name"].rsplit("::", 1)[-1] in DIVERGING_MACROS:
            return [(conds, atoms + [n], "panic")]
        return [(conds, atoms + [n], None)]

    return one(node, [], [])


def each_form(conds, exprs):
    """Order- and name-insensitive reading of `for a in A { for b in B(a) { f(a, b) } }`:
    every loop variable is replaced by `each(<iterated expression>)` (earlier loop variables substituted first) in the
    given expressions and in the remaining (non-loop) facts.  Returns (sorted non-loop fact texts, expression texts).
    `.iter()`, `.iter_mut()`, `.into_iter()`, `&` on the iterated expression are dropped."""
    from astlib import strip as _strip

    env = {}
    rest = []
    for c in conds:
        if c[0] == "loop" and c[1] == "for" and c[2] is not None:
            it = _strip(_subst(c[3], env))
            while it["k"] == "MethodCall" and it["method"] in ("iter", "iter_mut", "into_iter") and not it["args"]:
                it = _strip(it["recv"])
            p = c[2]
            while p["k"] in ("PRef", "PType"):
                p = p["pat"]
            if p["k"] == "PIdent":
                env[p["name"]] = {"k": "Call", "line": 0, "func": {"k": "Path", "line": 0, "path": "each"}, "args": [it]}
            elif p["k"] == "PTuple":
                for i, x in enumerate(p["elems"]):
                    while x["k"] in ("PRef", "PType"):
                        x = x["pat"]
                    if x["k"] == "PIdent":
                        env[x["name"]] = {"k": "Field", "line": 0, "base": {"k": "Call", "line": 0, "func": {"k": "Path", "line": 0, "path": "each"}, "args": [it]}, "member": str(i)}
        elif c[0] == "loop":
            rest.append(fact_str(c).replace(" ", ""))
        elif c[0] == "if":
            rest.append(("" if c[2] else "!") + render(_strip(_subst(c[1], env))).replace(" ", ""))
        elif c[0] == "iflet":
            rest.append(("" if c[3] else "!") + "(let%s=%s)" % (render(c[1]).replace(" ", ""), render(_strip(_subst(c[2], env))).replace(" ", "")))
        else:
            rest.append(fact_str(c).replace(" ", ""))
    return sorted(rest), [render(_strip(_subst(e, env))).replace(" ", "") for e in exprs]


def expand_value_cases(conds, root):
    """`let v = match x { A => None, _ => f(x) }; if let Some(y) = v`: the `Some` can only come from the arm(s) that do not
    yield `None`.  When exactly one such arm exists, the fact `let Some(y) = v` is replaced by that arm's own conditions
    followed by `let Some(y) = <the arm's value>`.  `root` is the block in which the lets are looked up."""
    lets = {}
    for n in walk(root):
        if n["k"] == "Local" and n.get("init") is not None:
            p = n["pat"]
            if p["k"] == "PType":
                p = p["pat"]
            if p["k"] == "PIdent" and not p.get("mut"):
                lets[p["name"]] = n["init"]
    out = []
    for f in conds:
        done = False
        if f[0] == "iflet" and f[3] and render(f[1]).replace(" ", "").startswith(("Some(", "Ok(")):
            sc = f[2]
            while isinstance(sc, dict) and sc.get("k") in ("Paren", "Ref"):
                sc = sc["e"]
            if sc.get("k") == "Path" and sc["path"] in lets and lets[sc["path"]].get("k") in ("Match", "If"):
                alts = []
                for c2, atoms, ex in enumerate_paths(lets[sc["path"]]):
                    if ex is not None or not atoms:
                        continue
                    leaf = atoms[-1]
                    if render(leaf).replace(" ", "") in ("None", "Option::None"):
                        continue
                    alts.append((c2, leaf))
                if len(alts) == 1:
                    out += list(alts[0][0]) + [IFLET(f[1], alts[0][1], True)]
                    done = True
        if not done:
            out.append(f)
    return out
