#!/usr/bin/env python3
"""Build the two engines offline (idempotent)."""
import os
import subprocess
import sys

VERIF = os.path.dirname(os.path.dirname(os.path.abspath(__file__)))


def build(path, toolchain):
    env = dict(os.environ)
    env["CARGO_NET_OFFLINE"] = "true"
    env.pop("RUSTC_WORKSPACE_WRAPPER", None)
    env.pop("RUSTFLAGS", None)
    env.pop("CARGO_TARGET_DIR", None)
    cmd = ["cargo"] + ([toolchain] if toolchain else []) + ["build", "--release", "--offline"]
    print("setup:", " ".join(cmd), "in", path, flush=True)
    subprocess.check_call(cmd, cwd=os.path.join(VERIF, path), env=env)


def main():
    build("engines/astq", None)
    build("engines/mirfacts", "+nightly")
    os.makedirs(os.path.join(VERIF, "evidence"), exist_ok=True)
    os.makedirs(os.path.join(VERIF, ".cache"), exist_ok=True)
    print("setup: ok")


if __name__ == "__main__":
    main()
