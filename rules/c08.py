"""C08 Every `<--` signal assignment is reported exactly once."""
import re

import facts
import grammar
from astlib import calls, find_fn, find_item, fns_in_file, last, method_calls, pat_paths, render, site, strip, walk, all_items
from pathcond import conditions_to, fact_str, facts_str, let_env

TITLE = "Every `<--` reported once"
LEVEL_TEXT = (
    "the operator survives the pipeline (grammar tokens -> AST operator -> IR operator, `-->` with swapped operands; desugared"
    " substitutions take their operator from the source statement or the named-input list); the pass visits every statement of"
    " every block, records every `<--` unconditionally and pushes exactly one report per record; the record's identity includes"
    " the statement's location; anonymous-component inputs are anchored at the call; custom-template flags are not swapped."
)
NOT_DECIDED = "the bijection itself for programs where two desugared statements share location, signal and access."
TRUSTED = ["syn parser", "LALRPOP grammar reader"]

SA = "program_analysis/src/signal_assignments.rs"
IRL = "program_structure/src/intermediate_representation/lifting.rs"
IR = "program_structure/src/intermediate_representation/ir.rs"
SSR = "parser/src/syntax_sugar_remover.rs"
GR = grammar.GRAMMAR
CFL = "program_structure/src/control_flow_graph/lifting.rs"
EB = "program_structure/src/abstract_syntax_tree/expression_builders.rs"
SB = "program_structure/src/abstract_syntax_tree/statement_builders.rs"
TLIB = "program_structure/src/program_library/template_library.rs"
MERG = "program_structure/src/program_library/program_merger.rs"


def rule_operator_chain(ctx):
    R = "C08.1"
    ctx.rule(R, "`<--` and `-->` become AssignOp::AssignSignal (with `-->` taking its operands swapped), which lifts to the IR's AssignSignal; `<==`/`==>` and `=` likewise; desugared substitutions take their operator from the source statement or the named-input list")
    tab = grammar.terminal_table("ParseAssignOp")
    want = {"=": "AssignOp::AssignVar", "<--": "AssignOp::AssignSignal", "<==": "AssignOp::AssignConstraintSignal"}
    ctx.check(R, "grammar/ParseAssignOp", tab == want, "table: %s" % tab, GR)
    nts = grammar.parse()
    sub = nts.get("ParseSubstitution")
    if sub is None:
        return ctx.missing(R, "grammar/ParseSubstitution")
    seen = {}
    for a in sub["alts"]:
        toks = [s["value"] for s in a["symbols"] if s["kind"] == "str"]
        names = [s["name"] for s in a["symbols"] if s["kind"] == "nt" and s["name"]]
        act = (a["action"] or "").replace(" ", "")
        lt = grammar.leaf_texts(a) or []
        if not toks and "ops" in names:
            seen["op"] = a
            ok = names == ["variable", "ops", "rhe"] and lt == ["build_multi_substitution(Meta::new(s,e),variable,ops,rhe)", "build_substitution(Meta::new(s,e),variable.name,variable.access,ops,rhe)"]
            ctx.check(R, "grammar/substitution[op]", ok, "bindings %s; results %s" % (names, lt), (GR, a["line"]))
        elif toks == ["-->"] or toks == ["==>"]:
            op = "AssignOp::AssignSignal" if toks == ["-->"] else "AssignOp::AssignConstraintSignal"
            seen[toks[0]] = a
            ok = names == ["lhe", "variable"] and lt == ["build_multi_substitution(Meta::new(s,e),variable,%s,lhe)" % op, "build_substitution(Meta::new(s,e),variable.name,variable.access,%s,lhe)" % op]
            ctx.check(R, "grammar/substitution[%s]" % toks[0], ok, "the right-hand operand is the target, the left-hand one the value; bindings %s; results %s" % (names, lt), (GR, a["line"]))
    for k in ("op", "-->", "==>"):
        ctx.check(R, "grammar/substitution[%s]/present" % k, k in seen, "production missing")
    # tuple initialisations and declarations with initialiser
    ti = nts.get("TupleInitialization")
    if ti is not None:
        t = {}
        for a in ti["alts"]:
            tok = [s["value"] for s in a["symbols"] if s["kind"] == "str"]
            m = re.search(r"tuple_init:\((AssignOp::\w+),rhe\)", (a["action"] or "").replace(" ", ""))
            if tok and m:
                t[tok[0]] = m.group(1)
        ctx.check(R, "grammar/TupleInitialization", t == {"<==": "AssignOp::AssignConstraintSignal", "<--": "AssignOp::AssignSignal", "=": "AssignOp::AssignVar"}, str(t), GR)
    dec = nts.get("ParseDeclaration")
    if dec is None:
        ctx.missing(R, "grammar/ParseDeclaration")
    else:
        seen_d = set()
        for a in dec["alts"]:
            act = (a["action"] or "").replace(" ", "")
            syms = [s["text"] for s in a["symbols"]]
            if any("SignalSimpleSymbol" in s for s in syms):
                seen_d.add("<--")
                ctx.check(R, "grammar/declaration[signal<--]", "split_declaration_into_single_nodes(meta,xtype,symbols,AssignOp::AssignSignal)" in act, act[-120:], (GR, a["line"]))
            elif any("SignalSymbol" in s for s in syms):
                seen_d.add("<==")
                ctx.check(R, "grammar/declaration[signal<==]", "split_declaration_into_single_nodes(meta,xtype,symbols,AssignOp::AssignConstraintSignal)" in act, act[-120:], (GR, a["line"]))
        for k_ in ("<--", "<==", "="):
            if k_ == "=":
                continue
            ctx.check(R, "grammar/declaration[signal%s]/present" % k_, k_ in seen_d, "no declaration production with a `%s` initialiser: such declarations take another operator or do not parse" % k_, GR)
    for ntn, tok in (("SignalSimpleSymbol", "<--"), ("SignalConstraintSymbol", "<==")):
        nt = nts.get(ntn)
        ctx.check(R, "grammar/%s/present" % ntn, nt is not None and bool(nt["alts"]), "nonterminal missing", GR)
        if nt is not None and nt["alts"]:
            toks = [s["value"] for s in nt["alts"][0]["symbols"] if s["kind"] == "str"]
            ctx.check(R, "grammar/%s/token" % ntn, toks == [tok], "tokens %s" % toks, (GR, nt["alts"][0]["line"]))
    # AST -> IR
    f = None
    for q, fn in fns_in_file(IRL):
        if fn["name"] == "try_lift" and "ast::AssignOp" in q:
            f = fn
    if f is None:
        ctx.missing(R, "TryLift for ast::AssignOp")
    else:
        tab = {}
        for m in walk(f["body"]):
            if m["k"] == "Match":
                for a in m["arms"]:
                    for p in pat_paths(a["pat"]):
                        b_ = strip(a["body"])
                        if b_["k"] == "Call" and render(b_["func"]) == "Ok" and len(b_["args"]) == 1:
                            b_ = strip(b_["args"][0])  # `Ok(..)` around each arm or around the whole match
                        tab[last(p)] = last(render(b_))
        ctx.check(R, "lifting/AssignOp", tab == {"AssignSignal": "AssignSignal", "AssignConstraintSignal": "AssignConstraintSignal", "AssignVar": "AssignLocalOrComponent"}, str(tab), site(IRL, f))
    # the substitution's operator is lifted from the statement's own operator
    for q, fn in fns_in_file(IRL):
        if fn["name"] == "try_lift" and "ast::Statement" in q:
            t = render(fn["body"]).replace(" ", "")
            ctx.check(R, "lifting/Substitution/op-from-the-statement", "op:op.try_lift((),reports)?" in t, "", site(IRL, fn))
    # desugarer: every constructed Substitution's op
    allowed_const = {"AssignOp::AssignVar", "AssignOp::AssignConstraintSignal"}
    n = 0
    for fname in ("remove_anonymous_from_statement", "remove_anonymous_from_expression", "remove_tuples_from_statement"):
        fn = find_fn(SSR, fname)
        if fn is None:
            ctx.missing(R, fname)
            continue
        for s in walk(fn["body"]):
            op = None
            if s["k"] == "Struct" and last(s["path"]) in ("Substitution", "MultiSubstitution"):
                f = {x["name"]: render(strip(x["e"])).replace(" ", "") for x in s["fields"]}
                op = f.get("op")
            elif s["k"] == "Call" and s["func"]["k"] == "Path" and last(s["func"]["path"]) == "build_substitution":
                op = render(strip(s["args"][3])).replace(" ", "")
            if op is None:
                continue
            n += 1
            ok = op in ("op", "*new_operators.get(i).unwrap()", "new_operators.get(i).unwrap()") or op in allowed_const
            ctx.check(R, "%s/substitution-op[%s]" % (fname, op), ok and op != "AssignOp::AssignSignal", "a desugared substitution must take its operator from the source statement or the named-input list (constants only for the instantiation, counters and positional inputs)", site(SSR, s))
    ctx.floor(R, "desugared substitutions", n, 5)
    # new_operators for positional inputs is `<==`, for named inputs the written one (C18.4)
    # custom / parallel flags (a custom template is skipped by the pass)
    pd = nts.get("ParseDefinition")
    if pd is not None:
        for a in pd["alts"]:
            if any(s["kind"] == "str" and s["value"] == "template" for s in a["symbols"]):
                act = (a["action"] or "").replace(" ", "")
                names = [s["name"] for s in a["symbols"] if s["name"] in ("custom_gate", "parallel")]
                toks = {s["name"]: s["text"] for s in a["symbols"] if s["name"] in ("custom_gate", "parallel")}
                calls_ = re.findall(r"build_template\(([^;]*?)\)(?:,|$)", act)
                lt = grammar.leaf_texts(a) or []
                ok = toks.get("custom_gate", "").startswith('"custom"') and toks.get("parallel", "").startswith('"parallel"') and bool(lt) and all(x.startswith("build_template(") and x.endswith(",body,parallel.is_some(),custom_gate.is_some())") for x in lt)
                ctx.check(R, "grammar/template/parallel-and-custom-flags", ok, "flags %s; action %s" % (toks, act[:260]), (GR, a["line"]))
    bt = find_fn(EB, "build_template") or find_fn(SB, "build_template")
    for file in ("program_structure/src/abstract_syntax_tree/ast.rs", SB, EB):
        f = find_fn(file, "build_template")
        if f is not None:
            params = [i["pat"]["name"] for i in f["sig"]["inputs"] if not i.get("self")]
            t = render(f["body"]).replace(" ", "")
            ctx.check(R, "build_template/flag-order", params[-2:] == ["parallel", "is_custom_gate"] and "parallel" in t and "is_custom_gate" in t, "parameters %s" % params, site(file, f))


def rule_pass(ctx):
    R = "C08.2"
    ctx.rule(R, "the pass skips only functions and custom templates, visits every statement of every block, records every AssignSignal substitution unconditionally, and pushes exactly one report for every record (either kind), anchored at the assignment's own location")
    fn = find_fn(SA, "find_signal_assignments")
    if fn is None:
        return ctx.missing(R, "find_signal_assignments")
    import c08eval

    if c08eval.rule(ctx, R, "reports"):
        return
    import alpha
    from pathcond import enumerate_paths

    fn, _miss = alpha.canon(fn, [("assignment", "forvar", "__u.get_assignments()")])
    rets = [r for r in walk(fn["body"]) if r["k"] == "Return"]
    ok = len(rets) == 1 and [fact_str(c).replace(" ", "") for c in (conditions_to(fn["body"], rets[0]) or [])] == ["(letFunction|CustomTemplate=cfg.definition_type())"]
    ctx.check(R, "find_signal_assignments/only-functions-and-custom-templates-skipped", ok, "early returns: %s" % [facts_str(conditions_to(fn["body"], r) or []) for r in rets], site(SA, fn))
    loops = [l for l in walk(fn["body"]) if l["k"] == "For"]
    import sgrep

    # the early return of the skip test is the only exit allowed: check the traversal on the body without it
    import copy

    fn_nr = copy.deepcopy(fn)
    for n_ in walk(fn_nr["body"]):
        if n_["k"] == "If" and any(x["k"] == "Return" for x in walk(n_["then"])) and "definition_type" in render(n_["cond"]):
            n_["then"] = {"k": "Block", "line": 0, "stmts": []}
    okt, how = sgrep.visits_all_statements(fn_nr, "visit_statement")
    ctx.check(R, "find_signal_assignments/every-statement-of-every-block", okt, how, site(SA, fn))
    vis = list(calls(fn["body"], "visit_statement"))
    okv = len(vis) == 1 and all(c[0] in ("loop", "closure") or "definition_type" in fact_str(c) for c in (conditions_to(fn["body"], vis[0]) or []))
    ctx.check(R, "find_signal_assignments/visit-unconditional", okv, "", site(SA, fn))
    # reports: the code run once per recorded assignment builds exactly one report on every way through it, from that
    # record's own signal, access and location, and every one of them is kept
    from astlib import inline_helpers, simplify_body

    fni = inline_helpers(fn, SA, exclude=("visit_statement", "build_assignment_report", "build_unecessary_assignment_report", "get_assignments", "get_constraint_metas", "get_constraints", "add_assignment", "add_constraint"))
    recs = sgrep.per_record(fni["body"], "__u.get_assignments()")
    if len(recs) != 1:
        ctx.bad(R, "find_signal_assignments/report-loop", "expected one piece of code run per recorded assignment, found %d" % len(recs), site(SA, fn))
    else:
        var, rbody, how, produced = recs[0]
        rb = simplify_body(rbody) if rbody["k"] == "Block" else {"k": "Block", "line": 0, "stmts": [{"k": "ExprStmt", "line": 0, "e": rbody, "semi": False}]}
        is_builder = lambda x: x["k"] == "Call" and x["func"]["k"] == "Path" and last(x["func"]["path"]) in ("build_assignment_report", "build_unecessary_assignment_report")
        per_path = [sum(1 for a_ in atoms for x in walk(a_) if is_builder(x)) for _c, atoms, _e in enumerate_paths(rb)]
        builders = [x for x in walk(rb) if is_builder(x)]
        kept = produced or all(any(m_["k"] == "MethodCall" and m_["method"] == "push" and any(y is b_ for y in walk(m_)) for m_ in walk(rb)) for b_ in builders)
        ok = len(builders) >= 2 and bool(per_path) and all(n_ == 1 for n_ in per_path) and kept
        ctx.check(R, "find_signal_assignments/one-report-per-record", ok, "exactly one report on every way through the per-assignment code (%s); reports per path: %s; kept: %s" % (how, per_path, kept), site(SA, fn))
        ex = [x for x in walk(rb) if x["k"] in ("Continue", "Break", "Return")]
        ctx.check(R, "find_signal_assignments/no-record-skipped", not ex, "%d early exits in the per-assignment code" % len(ex), site(SA, fn))
        for p in builders:
            a = [render(strip(x)).replace(" ", "") for x in p["args"][:3]]
            ctx.check(R, "find_signal_assignments/report-anchored-at-the-assignment[%s]" % last(p["func"]["path"]), a == ["%s.signal" % var, "%s.access" % var, "%s.meta" % var], str(a), site(SA, p))
    for b, st in (("build_assignment_report", "SignalAssignmentWarning"), ("build_unecessary_assignment_report", "UnecessarySignalAssignmentWarning")):
        f = find_fn(SA, b)
        if f is not None:
            t = render(f["body"]).replace(" ", "")
            import sgrep
            pvb_ = sgrep.params(f)
            stc = [x for x in walk(f["body"]) if x["k"] == "Struct" and last(x["path"]) == st]
            okmp = len(stc) == 1 and len(pvb_) >= 3 and any(x["name"] == "assignment_meta" and render(strip(x["e"])) == pvb_[2] for x in stc[0]["fields"])
            ctx.check(R, b + "/meta-passed-through", okmp, t[:160], site(SA, f))
    for q, f in fns_in_file(SA):
        if f["name"] == "into_report" and "Assignment" in q:
            t = render(f["body"]).replace(" ", "")
            import sgrep
            ctx.check(R, "%s::into_report/primary-label-is-the-assignment" % q, sgrep.has(f["body"], "__r.add_primary(self.assignment_meta.location, __f, __m)") or sgrep.has(f["body"], "__r.add_primary(self.assignment_meta.file_location(), __f, __m)"), "", site(SA, f))
    # recording
    vs = find_fn(SA, "visit_statement")
    if vs is None:
        return ctx.missing(R, "signal_assignments::visit_statement")
    import alpha
    vs, _m = alpha.canon_fields(vs, [("meta", "Substitution", "meta"), ("var", "Substitution", "var"), ("op", "Substitution", "op"), ("rhe", "Substitution", "rhe")], [("stmt", "param", 0), ("signal_use", "param", 1)])
    adds = list(method_calls(vs["body"], "add_assignment"))
    if len(adds) != 1:
        ctx.bad(R, "visit_statement/record", "expected one add_assignment, found %d" % len(adds), site(SA, vs))
    else:
        cs = [fact_str(c).replace(" ", "") for c in (conditions_to(vs["body"], adds[0]) or [])]
        ok = len(cs) == 2 and cs[0].startswith("matchstmt=>Substitution{") and cs[1] == "matchop=>AssignOp::AssignSignal"
        ctx.check(R, "visit_statement/every-AssignSignal-recorded", ok, "recorded under %s" % cs, site(SA, adds[0]))
        a = [render(strip(x)).replace(" ", "") for x in adds[0]["args"]]
        import terms as _terms
        from pathcond import let_env as _le

        acc = strip(adds[0]["args"][1]) if len(adds[0]["args"]) > 1 else None
        lenv_ = _le(vs["body"], adds[0])
        if acc is not None and acc["k"] == "Path" and acc["path"] in lenv_:
            acc = lenv_[acc["path"]]
        acc_leaves = sorted({_terms.norm(x).replace(" ", "") for x in _terms.leaves(acc, {})}) if acc is not None else []
        # the access of the assigned element: the Update node's access, or none for a plain assignment
        ok_acc = acc_leaves == ["Vec::new()", "rhe.access"]
        ctx.check(R, "visit_statement/record-carries-statement-meta-and-access", len(a) >= 3 and a[0] == "var" and a[2] == "meta" and ok_acc, "%s; access is one of %s" % (a, acc_leaves), site(SA, adds[0]))
        le = let_env(vs["body"], adds[0])
        import sgrep
        acc_name = render(strip(adds[0]["args"][1]))
        init = le.get(acc_name)
        oka = init is not None and (sgrep.has(init, "if let Update { access: __a, .. } = __r { __a.clone() } else { Vec::new() }") or sgrep.has(init, "match __r { Update { access: __a, .. } => __a.clone(), _ => Vec::new() }"))
        ctx.check(R, "visit_statement/access-of-the-assigned-element", bool(oka), render(init)[:120] if init is not None else "?", site(SA, vs))


def rule_identity(ctx):
    R = "C08.3"
    ctx.rule(R, "assignment records live in a set; their equality and hash include the statement's location (meta), so two different `<--` statements are never merged; Meta's equality is location + file")
    it = find_item(SA, "StructDef", "Assignment")
    if it is None:
        return ctx.missing(R, "struct Assignment")
    fields = [f["name"] for f in it["fields"]]
    attrs = " ".join(it.get("attrs", []))
    derived = "Hash" in attrs and "PartialEq" in attrs and "Eq" in attrs
    manual = []
    items = facts.ast().get(SA)
    for _p, im in all_items(items):
        if im["k"] == "Impl" and im["self_ty"] == "Assignment" and im["trait"] and im["trait"].split("<")[0] in ("Hash", "PartialEq", "Eq", "std::hash::Hash"):
            manual.append(im["trait"])
    # the same for every other record kept in a set by this pass (the constraints that become secondary locations)
    src_t = facts.src(SA)
    for tn in sorted(set(re.findall(r"HashSet<\s*(\w+)\s*>", src_t)) - {"Assignment"}):
        it2 = find_item(SA, "StructDef", tn)
        if it2 is None:
            continue
        f2 = [f_["name"] for f_ in it2["fields"]]
        tys2 = [f_["ty"].replace(" ", "") for f_ in it2["fields"]]
        a2 = " ".join(it2.get("attrs", []))
        m2 = [im["trait"] for _p, im in all_items(items) if im["k"] == "Impl" and im["self_ty"] == tn and im["trait"] and im["trait"].split("<")[0] in ("Hash", "PartialEq", "Eq", "std::hash::Hash")]
        ok2 = "Meta" in tys2 and all(x in a2 for x in ("Hash", "PartialEq", "Eq")) and not m2
        if not ok2 and "Meta" in tys2 and "PartialEq" in m2:
            # a hand-written equality: it must compare the location-carrying field
            from astlib import result_expr as _re2
            from pathcond import split_cond as _sc2
            import sgrep as _sg2

            mf = f2[tys2.index("Meta")]
            for q_, fn_ in fns_in_file(SA):
                if fn_["name"] == "eq" and q_.replace(" ", "") == "PartialEqfor" + tn:
                    r2 = _re2(fn_)
                    pv2 = _sg2.params(fn_)
                    o2 = pv2[0] if pv2 else "other"
                    atoms2 = [render(a_[1]).replace(" ", "") for a_ in (_sc2(r2, True) if r2 is not None else []) if a_[0] == "if" and a_[2]]
                    ok2 = any(t_ in ("(self.%s==%s.%s)" % (mf, o2, mf), "(%s.%s==self.%s)" % (o2, mf, mf)) for t_ in atoms2)
        ctx.check(R, "%s/identity-includes-the-statement-location" % tn, ok2, "fields %s; derives `%s`; hand-written impls %s: records of two statements with the same text must stay two records (each is a location in a finding)" % (f2, a2, m2), site(SA, it2))
    ctx.check(R, "Assignment/identity-includes-the-statement-location", "meta" in fields and derived and not manual, "fields %s; derives `%s`; hand-written impls %s: with a hand-written Hash/Eq the location can be left out and two assignments to the same signal collapse into one record" % (fields, attrs, manual), site(SA, it))
    le_t = facts.src(SA)
    ctx.check(R, "AssignmentSet/is-a-set-of-records", re.search(r"type\s+AssignmentSet\s*=\s*HashSet<Assignment>", le_t) is not None, "")
    # Meta equality
    f = None
    for q, fn in fns_in_file(IR):
        if fn["name"] == "eq" and q.replace(" ", "") == "PartialEqforMeta":
            f = fn
    if f is None:
        ctx.missing(R, "PartialEq for ir::Meta")
    else:
        t = render(f["body"]).replace(" ", "")
        import sgrep
        pvq = sgrep.params(f)
        from astlib import result_expr
        from pathcond import split_cond

        # the result is the conjunction of exactly these two comparisons
        re_ = result_expr(f)
        atoms = split_cond(re_, True) if re_ is not None else []
        texts = sorted(render(a_[1]).replace(" ", "") for a_ in atoms if a_[0] == "if" and a_[2])
        o_ = pvq[0] if pvq else "other"
        want_eq = sorted(["(self.location==%s.location)" % o_, "(self.file_id==%s.file_id)" % o_])
        alt_eq = sorted(["(%s.location==self.location)" % o_, "(%s.file_id==self.file_id)" % o_])
        ctx.check(R, "ir::Meta/eq-compares-location-and-file", len(atoms) == 2 and texts in (want_eq, alt_eq), "eq is the conjunction of %s" % texts, site(IR, f))
    h = None
    for q, fn in fns_in_file(IR):
        if fn["name"] == "hash" and "for Meta" in q:
            h = fn
    if h is not None:
        from astlib import simplify_body

        hb = simplify_body(h["body"])  # `let Meta { location, .. } = self;` reads as projections of self
        t = render(hb).replace(" ", "")
        pvh = sgrep.params(h)
        hashed = sorted(render(strip(c["recv"])).replace(" ", "") for c in method_calls(hb, "hash") if pvh and render(strip(c["args"][0])) == pvh[0])
        ctx.check(R, "ir::Meta/hash-consistent-with-eq", hashed == ["self.file_id", "self.location"], "hashes %s" % hashed, site(IR, h))


def rule_anchor(ctx):
    R = "C08.4"
    ctx.rule(R, "the substitutions that assign the inputs of an anonymous component carry the location of the call (so the `<--` finding of a named input is anchored at the call)")
    fn = find_fn(SSR, "remove_anonymous_from_expression")
    if fn is None:
        return ctx.missing(R, "remove_anonymous_from_expression")
    n = 0
    for s in walk(fn["body"]):
        if s["k"] == "Struct" and last(s["path"]) == "Substitution":
            f = {x["name"]: render(strip(x["e"])).replace(" ", "") for x in s["fields"]}
            if "new_operators" in f.get("op", ""):
                n += 1
                ctx.check(R, "anonymous/input-substitution/meta-of-the-call", f.get("meta") == "meta", "meta: %s" % f.get("meta"), site(SSR, s))
    ctx.floor(R, "input substitutions", n, 1)
    # `meta` in that arm is the AnonymousComponent's own meta
    ms = [m for m in walk(fn["body"]) if m["k"] == "Match"]
    arm = [a for a in ms[0]["arms"] if "AnonymousComponent" in render(a["pat"])] if ms else []
    if arm:
        from a10 import pattern_bindings
        b, _ = pattern_bindings(arm[0]["pat"])
        ctx.check(R, "anonymous/meta-binding", b.get("meta") == "meta", str(b))
        shadows = [l for l in walk(arm[0]["body"]) if l["k"] == "Local" and l["pat"]["k"] == "PIdent" and l["pat"]["name"] == "meta"]
        ctx.check(R, "anonymous/meta-not-shadowed", not shadows, "`meta` is rebound inside the arm")


def rule_constraints(ctx):
    R = "C08.5"
    ctx.rule(R, "the secondary locations of a `signal assignment` finding are all constraints mentioning the signal: every `===` and every `<==` statement is recorded as a constraint over both of its sides, and the lookup scans both sides of every recorded constraint")
    import alpha
    import sgrep
    import c08eval

    if c08eval.rule(ctx, R, "constraints"):
        # decided by evaluating the whole pass on the table of rules/c08eval.py (`<==` and `===` constraints over scalars and two
        # elements of one array); the shape obligations below are the fallback
        return
    vs = find_fn(SA, "visit_statement")
    if vs is None:
        return ctx.missing(R, "signal_assignments::visit_statement")
    vs, _m = alpha.canon_fields(vs, [("meta", "Substitution", "meta"), ("var", "Substitution", "var"), ("op", "Substitution", "op"), ("rhe", "Substitution", "rhe"), ("meta", "ConstraintEquality", "meta"), ("lhe", "ConstraintEquality", "lhe"), ("rhe", "ConstraintEquality", "rhe")], [("stmt", "param", 0), ("signal_use", "param", 1)])
    adds = list(method_calls(vs["body"], "add_constraint"))
    lenv = sgrep.lets(vs["body"])
    seen = set()
    for a in adds:
        conds = conditions_to(vs["body"], a) or []
        cs = [fact_str(c).replace(" ", "") for c in conds]
        args = a["args"]
        in_sub = any("Substitution{" in c for c in cs)
        in_eq = any("ConstraintEquality{" in c for c in cs)
        if in_sub and len(args) == 3:
            # `var <== rhe`: the constraint var === rhe
            okop = any("AssignOp::AssignConstraintSignal" in c and not c.startswith("!") for c in cs) and len(conds) == 2
            lhs = sgrep.match(sgrep.pattern("Expression::Variable { meta: meta, name: var }"), args[0], {}, lenv) or sgrep.match(sgrep.pattern("Variable { meta: meta, name: var }"), args[0], {}, lenv)
            ok = okop and lhs and render(strip(args[1])) == "rhe" and render(strip(args[2])) == "meta"
            seen.add("<==")
            ctx.check(R, "visit_statement/constraint-assignment-recorded", bool(ok), "add_constraint(%s) under %s" % (render(args)[:120], cs), site(SA, a))
        elif in_eq and len(args) == 3:
            ok = len(conds) == 1 and [render(strip(x)) for x in args] == ["lhe", "rhe", "meta"]
            seen.add("===")
            ctx.check(R, "visit_statement/constraint-equality-recorded", ok, "add_constraint(%s) under %s" % (render(args)[:120], cs), site(SA, a))
        else:
            ctx.bad(R, "visit_statement/add_constraint/unexpected-site", "add_constraint under %s" % cs, site(SA, a))
    for k_ in ("<==", "==="):
        ctx.check(R, "visit_statement/records[%s]" % k_, k_ in seen, "no add_constraint for %s statements: the finding's secondary locations omit them" % k_, site(SA, vs))
    ac = find_fn(SA, "add_constraint", "SignalUse")
    if ac is not None:
        pv = sgrep.params(ac)
        ok = len(pv) == 3 and sgrep.has(ac["body"], "self.constraints.insert(Constraint::new(__m, __l, __r))", sgrep.lets(ac["body"]), {"__m": pv[2], "__l": pv[0], "__r": pv[1]}) and not [n for n in walk(ac["body"]) if n["k"] in ("If", "Match", "Return")]
        ctx.check(R, "SignalUse::add_constraint/stores-both-sides", ok, render(ac["body"])[:160], site(SA, ac))
    gc = find_fn(SA, "get_constraints", "SignalUse")
    if gc is not None:
        from astlib import inline_helpers, simplify_body

        gc = inline_helpers(gc, SA)
        t = render(simplify_body(gc["body"])).replace(" ", "")
        pv = sgrep.params(gc)
        both = "lhe.signals_read()" in t and "rhe.signals_read()" in t and "chain(" in t
        match_ = len(pv) == 2 and sgrep.has(gc["body"], "__u.name() == __s && __u.access() == __a", None, {"__s": pv[0], "__a": pv[1]})
        ctx.check(R, "SignalUse::get_constraints/both-sides-same-signal-and-access", both and match_, t[:200], site(SA, gc))


def rule_constraint_lookup(ctx, R="C08.7"):
    ctx.rule(R, "the constraints listed with a `<--` finding are all constraints that mention the assigned signal (same name and access) on either side - decided by evaluating the lookup on three recorded constraints")
    import c08eval

    c08eval.rule(ctx, R, "constraints")
    import passeval
    from finfun import Iter, S, Unsupported
    from passeval import O, Sink

    try:
        w = passeval.PassWorld([SA], SA)
    except Exception:
        return ctx.missing(R, "signal_assignments.rs")
    w.lenient_opaque = True
    fields = w.structs.get("SignalUse")
    cf = w.structs.get("Constraint")
    meth = [m for m in ("get_constraint_metas", "get_constraints") if ("SignalUse", m) in w.methods]
    if not fields or not cf or not meth:
        return ctx.missing(R, "SignalUse / Constraint / lookup method", "fields %s %s methods %s" % (fields, cf, meth))

    def use(nm, acc):
        return ("O", "use(%s)" % nm, (("name", nm), ("access", acc)))

    def side(*uses):
        return O("expr", signals_read=("L", tuple(uses)))

    e0, e1 = ("L", ()), ("L", ("i",))
    metas = [O("meta%d" % i) for i in range(4)]
    cons = [
        ("lhs", side(use("a", e0)), side(use("b", e0))),
        ("none", side(use("b", e0)), side(use("c", e0))),
        ("rhs", side(use("c", e0)), side(use("b", e0), use("a", e0))),
        ("other-access", side(use("a", e1)), side()),
    ]
    cvals = []
    for i, (_t, l, r) in enumerate(cons):
        vals = {"meta": metas[i], "lhe": l, "rhe": r}
        cvals.append(S("Constraint", *[vals.get(f, O(f)) for f in cf]))
    selfv = S("SignalUse", *[("L", tuple(cvals)) if f == "constraints" else ("L", ()) for f in fields])
    fn = w.methods[("SignalUse", meth[0])][0]
    try:
        res = w.call_fn(fn, [selfv, "a", e0])
    except Unsupported as u:
        return ctx.missing(R, "SignalUse::%s" % meth[0], "outside the evaluator's subset: %s" % u)
    got = res.items if isinstance(res, Sink) else (res.rest() if isinstance(res, Iter) else (list(res[1]) if isinstance(res, tuple) and res and res[0] == "L" else ([res[2][0]] if isinstance(res, tuple) and len(res) > 2 and res[1] == "Some" else ([] if res == ("E", "Option", "None") else None))))
    want = [0, 2]
    idx = None
    if got is not None:
        idx = sorted(i for i in range(4) if any(g is metas[i] or g is cvals[i] for g in got))
    ctx.check(R, "SignalUse::%s/all-constraints-on-the-signal" % meth[0], idx == want and got is not None and len(got) == 2, "for constraints mentioning `a` on the left, not at all, on the right, and with another access, the lookup of `a` returns those numbered %s (expected [0, 2])" % idx, SA)


def run(ctx):
    import c18

    ctx.include("C08.6", "prerequisite shared with C18.1: the desugaring passes every expression of a statement on (through the matching remover or unchanged) on every path - a statement whose right-hand side is an anonymous component call keeps its `<--` inputs", c18.rule_flow)
    import c12

    ctx.include("C08.9", "prerequisite shared with C18.4: the inputs of an anonymous component call are assigned with the operator written next to each name (`<--` stays `<--`), one assignment per declared input", c18.rule_binding, only=["anonymous/"])
    import c13

    ctx.include("C08.10", "a declaration with an initialiser assigns with the operator written (`signal x <-- e;`, `signal (q, r) <-- T()(..);`), not with one derived from the declared type (shared with C13.1)", lambda c: c13.eval_declaration_split(c, "C13.1"))
    import c04

    ctx.include("C08.11", "a `<--` statement the desugaring generates carries a location with its file: only the grammar builds spans, the fill pass gives every node its file id before the desugaring copies them (shared with C04.4/C04.5) - a finding without a file is dropped by the per-file filter", c04.rule_grammar_spans, c04.rule_fill, only=["ast::Meta::new/", "fill", "Fill"])
    ctx.include("C08.8", "prerequisite shared with C12.2/C13.3: the lifting keeps every statement of an initialisation block and of a block, in source order (the statements a `signal x <-- e` declaration desugars to are nested in such blocks)", c12.rule_lifting, only=["statements-in-source-order", "statement-kept", "every-statement-visited"])
    rule_constraints(ctx)
    rule_constraint_lookup(ctx)
    rule_operator_chain(ctx)
    rule_pass(ctx)
    rule_identity(ctx)
    rule_anchor(ctx)
