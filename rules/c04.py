"""C04 Every displayed location is valid and points at the construct it talks about."""
import re

import a10
import facts
import grammar
from astlib import calls, find_fn, fns_in_file, last, method_calls, pat_paths, render, site, strip, walk
from pathcond import conditions_to, fact_str, facts_str, let_env
import c03
import c05
import c04_units

import sgrep

TITLE = "Locations"
LEVEL_TEXT = (
    "the comment stripper preserves byte offsets (equivalence with the reference lexer, byte for byte, for all strings); its error"
    " location is built from byte offsets; the file library stores exactly the text the parser was given (before stripping);"
    " every span in the grammar is built from the production's own @L/@R markers in order; every node gets its file id;"
    " synthesised statements reuse a source span; explicit ranges come from LALRPOP tokens; SARIF regions use the renderer's"
    " lookup; one file table (only FileLibrary builds it, the terminal writer resolves labels against the library it is given). The statements a declaration with initialisers expands to carry the location of the declaration (evaluated)."
)
NOT_DECIDED = "that the text under a label is the construct the message is about (semantic); column units of third-party renderers."
ENGINE = "mirfacts+astq"
TRUSTED = ["rustc MIR (engines/mirfacts) for C04.11", "syn parser", "LALRPOP grammar reader", "LALRPOP @L/@R are byte offsets at token boundaries", "transducer extractor"]

PL = "parser/src/parser_logic.rs"
LIB = "parser/src/lib.rs"
ASTF = "program_structure/src/abstract_syntax_tree/ast.rs"
SIM = "program_structure/src/abstract_syntax_tree/statement_impl.rs"
EIM = "program_structure/src/abstract_syntax_tree/expression_impl.rs"
SSR = "parser/src/syntax_sugar_remover.rs"
SC = "program_structure/src/abstract_syntax_tree/ast_shortcuts.rs"
GR = grammar.GRAMMAR


def rule_units(ctx):
    R = "C04.2"
    ctx.rule(R, "positions that reach a report location in the stripper are byte offsets: they come from char_indices() (or are advanced by len_utf8()), never from a counter advanced by one per character")
    fn = find_fn(PL, "preprocess")
    if fn is None:
        return ctx.missing(R, "preprocess")
    t = render(fn["body"])
    # variables flowing into `location:`
    locs = [s for s in walk(fn["body"]) if s["k"] == "Struct" and any(f["name"] == "location" for f in s["fields"])]
    ctx.floor(R, "error locations", len(locs), 1)
    # unit of each variable
    units = {}
    uses_indices = ".char_indices()" in t.replace(" ", "")
    # bindings of the loop head
    for n in walk(fn["body"]):
        if n["k"] in ("While", "For"):
            pat = n["cond"]["pat"] if n["k"] == "While" and n["cond"]["k"] == "Let" else (n.get("pat") if n["k"] == "For" else None)
            if pat is None:
                continue
            pt = render(pat).replace(" ", "")
            m = re.fullmatch(r"(?:Some\()?\((\w+),(\w+)\)\)?", pt)
            if m and uses_indices:
                units[m.group(1)] = "bytes"
    changed = True
    for _ in range(5):
        for n in walk(fn["body"]):
            if n["k"] == "Binary" and n["op"] == "+=":
                v = render(n["l"])
                r = render(strip(n["r"])).replace(" ", "")
                if r.endswith(".len_utf8()"):
                    units.setdefault(v, "bytes")
                elif re.fullmatch(r"\d+", r):
                    # +1 per character
                    units[v] = "chars" if units.get(v) != "bytes" or True else units[v]
                    if units.get(v) == "bytes":
                        units[v] = "mixed"
            elif n["k"] == "Assign":
                v = render(n["l"])
                names = [p["path"] for p in walk(n["r"]) if p["k"] == "Path"]
                us = {units.get(x) for x in names if x in units}
                if us:
                    units[v] = "chars" if "chars" in us else ("mixed" if "mixed" in us else "bytes")
            elif n["k"] == "Local" and n["pat"]["k"] == "PIdent" and n["init"] is not None:
                names = [p["path"] for p in walk(n["init"]) if p["k"] == "Path"]
                us = {units.get(x) for x in names if x in units}
                if us:
                    units[n["pat"]["name"]] = "chars" if "chars" in us else ("mixed" if "mixed" in us else "bytes")
    # a `+= 1` counter in a chars() loop: chars
    for n in walk(fn["body"]):
        if n["k"] == "Binary" and n["op"] == "+=" and re.fullmatch(r"\d+", render(strip(n["r"]))):
            units[render(n["l"])] = "chars"
    for _ in range(3):
        for n in walk(fn["body"]):
            if n["k"] == "Assign":
                names = [p["path"] for p in walk(n["r"]) if p["k"] == "Path"]
                if any(units.get(x) == "chars" for x in names):
                    units[render(n["l"])] = "chars"
    ctx.table("position units", units)
    for s in locs:
        f = [x for x in s["fields"] if x["name"] == "location"][0]
        names = sorted({p["path"] for p in walk(f["e"]) if p["k"] == "Path"})
        us = {x: units.get(x, "?") for x in names}
        ok = bool(names) and all(u == "bytes" for u in us.values())
        ctx.check(R, "preprocess/%s/location-in-bytes" % last(s["path"]), ok, "location %s built from %s (a character count is not a byte offset once the text contains a multi-byte character)" % (render(f["e"]), us), site(PL, s))


def rule_original_text(ctx):
    R = "C04.3"
    ctx.rule(R, "the file library stores exactly the text that was read, and the parser is given that same text (stripped by the length-preserving stripper only), so offsets refer to the original file contents")
    pf = find_fn(LIB, "parse_file")
    if pf is None:
        return ctx.missing(R, "parser::parse_file")
    le = let_env(pf["body"])
    add = list(method_calls(pf["body"], "add_file"))
    par = [c for c in walk(pf["body"]) if c["k"] == "Call" and render(c["func"]).replace(" ", "") == "parser_logic::parse_file"]
    if len(add) != 1 or len(par) != 1:
        return ctx.bad(R, "parse_file/shape", "add_file x%d parser x%d" % (len(add), len(par)), site(LIB, pf))
    stored = render(strip(add[0]["args"][1]))
    parsed = render(strip(par[0]["args"][0]))
    ctx.check(R, "parse_file/parser-gets-the-stored-text", stored == parsed, "library stores `%s`, parser gets `%s`" % (stored, parsed), site(LIB, par[0]))
    # provenance: destructured from open_file(..)?
    okp = False
    for s in walk(pf["body"]):
        if s["k"] == "Local" and stored in [x["name"] for x in walk(s["pat"]) if x["k"] == "PIdent"] and s["init"] is not None:
            okp = "open_file(file_path)" in render(s["init"]).replace(" ", "")
    ctx.check(R, "parse_file/text-is-what-was-read", okp, "`%s` must be bound directly from open_file" % stored, site(LIB, pf))
    # no rebinding / transformation of that variable
    reb = [s for s in walk(pf["body"]) if s["k"] == "Local" and s["pat"]["k"] == "PIdent" and s["pat"]["name"] == stored]
    ctx.check(R, "parse_file/text-not-rebound", not reb, "`%s` is rebound (e.g. trimmed or with a BOM removed): offsets shift against the stored text" % stored, site(LIB, pf))
    same_id = render(strip(par[0]["args"][1])) == "file_id" and "file_id" in le and any(x is add[0] for x in walk(le["file_id"]))
    ctx.check(R, "parse_file/same-file-id", same_id, "the parser must label its nodes with the id add_file returned", site(LIB, pf))
    of = find_fn(LIB, "open_file")
    if of is not None:
        t = render(of["body"]).replace(" ", "")
        pvo = sgrep.params(of)
        oko = bool(pvo) and sgrep.has(of["body"], "read_to_string(__p).map(|__c| (__s, __c))", sgrep.lets(of["body"]), {"__p": pvo[0]})
        ctx.check(R, "open_file/contents-unmodified", oko, t[:200], site(LIB, of))
    # FileLibrary::add_file hands the text it is given to the table as it is (no normalisation of line ends, BOM, ..)
    FD = "program_structure/src/program_library/file_definition.rs"
    af = find_fn(FD, "add_file", "FileLibrary")
    if af is None:
        ctx.missing(R, "FileLibrary::add_file")
    else:
        pva = sgrep.params(af)
        adds = [m for m in method_calls(af["body"], "add") if len(m["args"]) == 2]
        reb = [s_ for s_ in walk(af["body"]) if s_["k"] == "Local" and len(pva) >= 2 and pva[1] in [x["name"] for x in walk(s_["pat"]) if x["k"] == "PIdent"]]
        from pathcond import _mutated_names

        muts = set()
        for st in af["body"]["stmts"]:
            muts |= _mutated_names(st)
        oka = len(adds) == 1 and len(pva) >= 2 and render(strip(adds[0]["args"][1])) == pva[1] and render(strip(adds[0]["args"][0])) == pva[0] and not reb and pva[1] not in muts and not (conditions_to(af["body"], adds[0]) or [])
        ctx.check(R, "FileLibrary::add_file/stores-the-given-text", oka, "files.add(%s): the source parameter must reach the table unchanged (a rewritten copy shifts every offset the parser computed on the original)" % (render(adds[0]["args"]) if adds else "?"), site(FD, af))
    # parser_logic::parse_file feeds preprocess(src, file_id) of the same src
    pl = find_fn(PL, "parse_file")
    if pl is not None:
        t = render(pl["body"]).replace(" ", "")
        pvl = sgrep.params(pl)
        okp = len(pvl) == 2 and sgrep.has(pl["body"], "__parser.parse(preprocess(__s, __f)?)", sgrep.lets(pl["body"]), {"__s": pvl[0], "__f": pvl[1]})
        ctx.check(R, "parser_logic::parse_file/strips-the-same-text", okp, t[:120], site(PL, pl))


def rule_grammar_spans(ctx):
    R = "C04.4"
    ctx.rule(R, "every Meta::new(a, b) in a grammar action takes `a` from the production's leading @L marker and `b` from its trailing @L/@R marker (so start <= end and both are token boundaries); Meta::new has no other caller in the front end")
    n = 0
    for name, idx, a in grammar.all_alts():
        if not a["action"] or "Meta::new" not in a["action"]:
            continue
        act = a["action"].replace(" ", "")
        syms = a["symbols"]
        n += 1  # one per alternative that builds a node: repeating the same span in two match arms adds nothing
        for m in re.finditer(r"Meta::new\((\w+),(\w+)\)", act):
            s, e = m.group(1), m.group(2)
            first = syms[0] if syms else None
            lastsym = syms[-1] if syms else None
            ok = first is not None and first["kind"] == "loc" and first["name"] == s and first["value"] == "@L" and lastsym is not None and lastsym["kind"] == "loc" and lastsym["name"] == e
            ctx.check(R, "grammar/%s#%d/span(%s,%s)" % (name, idx + 1, s, e), ok, "leading symbol %s, trailing symbol %s" % ((first["name"], first["text"]) if first else None, (lastsym["name"], lastsym["text"]) if lastsym else None), (GR, a["line"]))
        bad = re.findall(r"Meta::new\((?!\w+,\w+\))[^)]*\)", act)
        ctx.check(R, "grammar/%s#%d/span-arguments-are-markers" % (name, idx + 1), not bad, "Meta::new with computed arguments: %s" % bad, (GR, a["line"]))
    ctx.floor(R, "grammar alternatives with a span", n, 54)
    # every node a grammar action builds is located at the production's own span: the builders whose first parameter is
    # a Meta are given `Meta::new(<markers>)` there, not a location taken from a child node
    takes_meta = {}
    for f in facts.ast():
        if not f.startswith("program_structure/src/abstract_syntax_tree/"):
            continue
        for q, fn in fns_in_file(f):
            if fn["name"].startswith("build_") and fn["sig"]["inputs"]:
                takes_meta[fn["name"]] = fn["sig"]["inputs"][0]["ty"].replace(" ", "") == "Meta"
    nb = 0
    for name, idx, a in grammar.all_alts():
        act = a["action"] or ""
        for m in re.finditer(r"\b(build_\w+)\(\s*([^,()]*(?:\([^()]*\))?[^,()]*)", act):
            b_, arg = m.group(1), m.group(2).replace(" ", "")
            if not takes_meta.get(b_):
                continue
            nb += 1
            if not arg.startswith("Meta::new("):
                ctx.bad(R, "grammar/%s#%d/%s/located-at-the-production-span" % (name, idx + 1, b_), "`%s` is located at `%s`, not at the span of the production that builds it" % (b_, arg), (GR, a["line"]))
    ctx.floor(R, "nodes built by grammar actions", nb, 25)
    # arg ranges:  args..arge  bound to @L/@R
    for name, idx, a in grammar.all_alts():
        if a["action"] and "args..arge" in a["action"].replace(" ", ""):
            names = {s["name"]: s for s in a["symbols"] if s["kind"] == "loc"}
            order = [s.get("name") for s in a["symbols"]]
            ok = "args" in names and "arge" in names and order.index("args") < order.index("arge")
            # the range starts where the first parameter starts (@L in front of the list) and ends where the last one ends
            # (@R behind it): nothing but the list lies between the two markers, and neither is taken from a parenthesis
            if ok:
                ia, ie = order.index("args"), order.index("arge")
                ok = names["args"]["value"] == "@L" and names["arge"]["value"] == "@R" and ie == ia + 2 and a["symbols"][ia + 1]["kind"] != "loc" and not str(a["symbols"][ia + 1].get("text", "")).strip().startswith('"')
            ctx.check(R, "grammar/%s#%d/parameter-range" % (name, idx + 1), ok, "markers %s" % [(s.get("name"), s.get("value") or s.get("text")) for s in a["symbols"] if s.get("name") in ("args", "arge") or s["kind"] != "loc"][:8], (GR, a["line"]))
    # who may call ast::Meta::new (hand-written code)
    callers = []
    for f in facts.ast():
        if f.startswith("program_structure_tests") or "intermediate_representation" in f or "control_flow_graph" in f or f.startswith("program_analysis"):
            continue
        for q, fn in fns_in_file(f):
            for c in calls(fn["body"], "Meta::new"):
                if not (q == "Meta" and fn["name"] == "new"):
                    callers.append("%s::%s" % (f.rsplit("/", 1)[-1], fn["name"]))
    ctx.check(R, "ast::Meta::new/only-the-grammar-builds-spans", not callers, "hand-written callers: %s" % callers)
    mn = find_fn(ASTF, "new", "Meta")
    if mn is not None:
        t = render(mn["body"]).replace(" ", "")
        pvm = sgrep.params(mn)
        st_ = [x for x in walk(mn["body"]) if x["k"] == "Struct" and last(x["path"]) in ("Meta", "Self")]
        okm = False
        if len(st_) == 1 and len(pvm) == 2:
            fl = {x["name"]: render(strip(x["e"])).replace(" ", "") for x in st_[0]["fields"]}
            okm = fl.get("location") == "%s..%s" % (pvm[0], pvm[1]) and fl.get("file_id") in ("Option::None", "None")
        ctx.check(R, "ast::Meta::new/location-is-start..end", okm, t[:160], site(ASTF, mn))


def rule_fill(ctx):
    R = "C04.5"
    ctx.rule(R, "FillMeta::fill sets the file id of every statement and expression node and recurses into every child (so the `if let Some(file_id)` idiom of the report producers never drops a label)")
    n = 0
    for file, enum_name in ((SIM, "Statement"), (EIM, "Expression")):
        en = a10.enum_def(ASTF, enum_name)
        fn = None
        for q, f in fns_in_file(file):
            if f["name"] == "fill" and q.replace(" ", "") == "FillMetafor" + enum_name:
                fn = f
        if fn is None or en is None:
            ctx.missing(R, "FillMeta for " + enum_name)
            continue
        ms = [m for m in walk(fn["body"]) if m["k"] == "Match" and render(strip(m["scrut"])) == "self"]
        if not ms:
            ctx.missing(R, "FillMeta for %s/match" % enum_name)
            continue
        helpers = {f["name"]: f for q, f in fns_in_file(file) if not q}
        seen = set()
        for arm in ms[0]["arms"]:
            for p in (arm["pat"]["cases"] if arm["pat"]["k"] == "POr" else [arm["pat"]]):
                v = last(pat_paths(p)[0])
                if v not in en:
                    if v == "_":
                        ctx.bad(R, "%s::fill/catch-all" % enum_name, "a catch-all arm leaves node kinds without a file id", site(file, arm))
                    continue
                seen.add(v)
                binds, _ = a10.pattern_bindings(p)
                cs = [c for c in walk(arm["body"]) if c["k"] == "Call" and c["func"]["k"] == "Path" and c["func"]["path"] in helpers]
                if len(cs) != 1:
                    ctx.bad(R, "%s::fill/%s/helper" % (enum_name, v), "expected one helper call, found %d" % len(cs), site(file, arm))
                    continue
                h = helpers[cs[0]["func"]["path"]]
                args = [render(strip(a)) for a in cs[0]["args"]]
                params = [i["pat"]["name"] for i in h["sig"]["inputs"] if not i.get("self")]
                # meta
                mb = binds.get("meta") or binds.get("0")
                n += 1
                okm = mb in args and "meta.set_file_id(file_id)" in render(h["body"]).replace(" ", "") and not (conditions_to(h["body"], [m for m in method_calls(h["body"], "set_file_id")][0]) if list(method_calls(h["body"], "set_file_id")) else [1])
                ctx.check(R, "%s::fill/%s/file-id-set" % (enum_name, v), bool(okm), "helper %s(%s)" % (h["name"], args), site(file, arm))
                for f in a10.node_fields(en[v]):
                    n += 1
                    b = binds.get(f)
                    if not b or b not in args:
                        ctx.bad(R, "%s::fill/%s.%s/filled" % (enum_name, v, f), "child `%s` is not passed to %s: its nodes keep no file id" % (f, h["name"]), site(file, arm))
                        continue
                    pname = params[args.index(b)]
                    ok = a10.flows_to_visitor(h["body"], pname, {"fill"}, file)
                    ctx.check(R, "%s::fill/%s.%s/filled" % (enum_name, v, f), ok, "%s does not call fill on `%s`" % (h["name"], pname), site(file, h))
        for v in en:
            if v not in seen:
                ctx.bad(R, "%s::fill/%s/arm-missing" % (enum_name, v), "no arm")
    ctx.floor(R, "fill obligations", n, 45)
    # definitions are filled when stored (template_data / function_data)
    for file, nm in (("program_structure/src/program_library/template_data.rs", "TemplateData"), ("program_structure/src/program_library/function_data.rs", "FunctionData")):
        f = find_fn(file, "new", nm)
        if f is not None:
            t = render(f["body"]).replace(" ", "")
            fills = [m for m in method_calls(f["body"], "fill")]
            ctx.check(R, "%s::new/body-filled" % nm, len(fills) >= 1 and not (conditions_to(f["body"], fills[0]) or []), t[:200], site(file, f))


def rule_synth(ctx):
    R = "C04.6"
    ctx.rule(R, "statements and expressions synthesised by the desugarer and the shortcut expansions reuse a span of the source (a clone of a bound meta); no span arithmetic")
    n = 0
    for file, fnames in ((SSR, ("remove_anonymous_from_statement", "remove_anonymous_from_expression", "remove_tuples_from_statement", "remove_tuple_from_expression", "remove_syntactic_sugar", "separate_tuple_for_log_call")), (SC, ("assign_with_op_shortcut", "plusplus", "subsub", "for_into_while", "split_declaration_into_single_nodes", "split_declaration_into_single_nodes_and_multi_substitution"))):
        for fname in fnames:
            fn = find_fn(file, fname)
            if fn is None:
                ctx.missing(R, fname)
                continue
            for s in walk(fn["body"]):
                metas = []
                if s["k"] == "Struct":
                    for f in s["fields"]:
                        if f["name"] == "meta":
                            metas.append(f["e"])
                elif s["k"] == "Call" and s["func"]["k"] == "Path" and last(s["func"]["path"]).startswith("build_") and s["args"]:
                    import terms
                    first_is_meta = False
                    for bf in terms.BUILDER_FILES:
                        bfn = find_fn(bf, last(s["func"]["path"]))
                        if bfn is not None:
                            ins = [i for i in bfn["sig"]["inputs"] if not i.get("self")]
                            first_is_meta = bool(ins) and ins[0]["ty"].replace(" ", "") == "Meta"
                    if first_is_meta:
                        metas.append(s["args"][0])
                for m in metas:
                    n += 1
                    t = render(strip(m)).replace(" ", "")
                    ok = re.fullmatch(r"(\w+\.)?(\w*meta\w*|with_meta)(\(\))?", t) is not None or t in ("body.get_meta()",)
                    ctx.check(R, "%s/synthesised-node-meta[%s]" % (fname, t[:30]), ok, "meta expression `%s` is not a reused source span" % t, site(file, s))
            bad = [render(b)[:60] for b in walk(fn["body"]) if b["k"] == "Assign" and re.search(r"\.(start|end|location)\b", render(b["l"]))]
            ctx.check(R, fname + "/no-span-arithmetic", not bad, str(bad), site(file, fn))
    ctx.floor(R, "synthesised nodes", n, 40)


def eval_parse_error_ranges(ctx, R):
    """parser_logic::parse_file by evaluation: the generated parser answers with each kind of parse error, located at
    opaque token positions; the report returned must carry one primary label whose range runs from the start to the
    end position of the offending token (both ends the error position for an invalid token; 0..0 when the error has
    no position), in the file being parsed; and the parser must be given the stripped text."""
    import passeval
    from finfun import S, Unsupported
    from passeval import O, Panic, V

    ERR = "parser/src/errors.rs"
    try:
        w = passeval.PassWorld([ERR, PL], PL)
    except Exception:  # noqa: BLE001
        return False
    fn = w.free.get("parse_file")
    if fn is None or "preprocess" not in w.free:
        return False
    w.lenient_opaque = True
    bad = {}
    n = 0
    L_, R_, LOC = O("pos:token-start"), O("pos:token-end"), O("pos:error")
    tok = ("T", (L_, O("token-text"), R_))
    cases = [
        ("InvalidToken", V("ParseError", "InvalidToken", location=LOC), (LOC, LOC)),
        ("UnrecognizedToken", V("ParseError", "UnrecognizedToken", token=tok, expected=("L", ())), (L_, R_)),
        ("ExtraToken", V("ParseError", "ExtraToken", token=tok), (L_, R_)),
        ("UnrecognizedEof", V("ParseError", "UnrecognizedEof", location=LOC, expected=("L", ())), None),
        ("User", V("ParseError", "User", error=O("user-error")), None),
    ]
    w.stubs["format_expected"] = lambda args: ("K", "format_expected", tuple(args))
    for tag, err, want in cases:
        stripped, FID = O("stripped-text"), O("file-id")
        seen = {}
        w.stubs["preprocess"] = lambda args, stripped=stripped: S("Ok", stripped)

        def parse(x, seen=seen, err=err):
            seen["input"] = x
            return S("Err", err)

        labels = []

        def new_report(name, args, labels=labels):
            if name not in ("error", "warning", "info"):
                return ("K", "Report::" + name, tuple(args))
            me = []

            def add_primary(*a):
                labels.append(a)
                return ("T", ())

            me.append(("O", "report", (("add_primary", ("PY", add_primary)), ("add_secondary", ("PY", lambda *a: labels.append(("secondary",) + a))), ("add_note", ("PY", lambda *a: ("T", ()))))))
            return me[0]

        w.opaque = (("lang::", lambda name, args: ("O", "parser", (("parse", ("PY", parse)),)) if name == "ParseAstParser::new" else ("K", name, tuple(args))), ("Report::", new_report))
        try:
            res = w.call_fn(fn, [O("raw-text"), FID])
        except Unsupported as u:
            ctx.note("parser_logic::parse_file is outside the evaluator's subset (%s): shape obligations apply" % u)
            return False
        except Panic as p_:
            bad.setdefault(tag, "panics (%s)" % p_)
            continue
        n += 1
        if seen.get("input") is not stripped:
            bad.setdefault("input", "%s: the parser is given %r" % (tag, seen.get("input")))
        if not (isinstance(res, tuple) and len(res) > 2 and res[0] == "S" and res[1] == "Err"):
            bad.setdefault(tag, "returns %r" % (res,))
            continue
        payload = res[2][0]
        if not (isinstance(payload, tuple) and payload and payload[0] == "O" and payload[1] == "report"):
            ctx.note("parser_logic::parse_file: the error returned is not a report built here (%r): shape obligations apply" % (payload,))
            return False
        if len(labels) != 1 or len(labels[0]) < 2:
            bad.setdefault(tag, "%d primary label(s) on the report" % len(labels))
            continue
        rng, fid = labels[0][0], labels[0][1]
        if want is None:
            ok = rng == ("L", ()) or (isinstance(rng, tuple) and rng[0] == "V" and rng[1] == "Range" and rng[3]["start"] == 0 and rng[3]["end"] == 0)
            det = "expected the empty range 0..0"
        else:
            ok = isinstance(rng, tuple) and rng[0] == "V" and rng[1] == "Range" and rng[3]["start"] is want[0] and rng[3]["end"] is want[1]
            det = "expected %s..%s" % (want[0][1], want[1][1])
        if not ok:
            show = "%s..%s" % tuple((x[1] if isinstance(x, tuple) and len(x) > 1 else x) for x in (rng[3]["start"], rng[3]["end"])) if isinstance(rng, tuple) and rng[0] == "V" and rng[1] == "Range" else repr(rng)
            bad.setdefault(tag, "the label covers %s, %s" % (show, det))
        if fid is not FID:
            bad.setdefault(tag, "the label names file %r" % (fid,))
    ctx.floor(R, "parse error worlds evaluated", n, 5)
    for tag, _e, _w in cases:
        ctx.check(R, "parse_file/ParsingError/%s" % tag, tag not in bad, bad.get(tag, "located at the offending token's positions, in the file being parsed"), site(PL, fn))
    ctx.check(R, "parse_file/parser-reads-the-stripped-text", "input" not in bad, bad.get("input", "the generated parser is given the stripper's output"), site(PL, fn))
    return True


def rule_explicit_ranges(ctx):
    R = "C04.7"
    ctx.rule(R, "the explicit ranges built for parse errors are LALRPOP token positions (byte offsets) or the empty range at 0")
    fn = find_fn(PL, "parse_file")
    if fn is None:
        return ctx.missing(R, "parser_logic::parse_file")
    if eval_parse_error_ranges(ctx, R):
        return
    n = 0
    for s in walk(fn["body"]):
        if s["k"] == "Struct" and last(s["path"]) == "ParsingError":
            f = {x["name"]: render(strip(x["e"])).replace(" ", "") for x in s["fields"]}
            n += 1
            ok = f.get("location") in ("location..location", "token.0..token.2", "0..0")
            ctx.check(R, "parse_file/ParsingError/location[%s]" % f.get("location"), ok, "location: %s" % f.get("location"), site(PL, s))
    ctx.floor(R, "parse error ranges", n, 4)


def rule_foreign_locations(ctx):
    R = "C04.9"
    ctx.rule(R, "a label's location and its file id come from the same definition: data of another definition, obtained through the analysis context, never supplies a location unless it also supplies the file id")
    import a10

    n_sources = 0
    for f in sorted(facts.ast()):
        if not f.startswith("program_analysis/src/") or f.endswith(("analysis_runner.rs", "analysis_context.rs")):
            continue
        for q, fn in fns_in_file(f):
            if not fn.get("body"):
                continue
            # names bound from a lookup of another definition: `context.template(..)`, `context.function(..)`
            sources = set()
            for n in walk(fn["body"]):
                init, pat = (n.get("init"), n.get("pat")) if n["k"] == "Local" else ((n.get("e"), n.get("pat")) if n["k"] == "Let" else (None, None))
                if init is None or pat is None:
                    continue
                if any(m["k"] == "MethodCall" and m["method"] in ("template", "function", "underlying_template", "underlying_function") and render(strip(m["recv"])).endswith("context") for m in walk(init)):
                    for b in walk(pat):
                        if b["k"] == "PIdent" and not b["name"][:1].isupper():
                            sources.add(b["name"])
            if not sources:
                continue
            n_sources += len(sources)
            reach = set()
            for s0 in sources:
                reach |= a10.alias_closure(fn["body"], s0)
            locs = [m for m in walk(fn["body"]) if m["k"] == "MethodCall" and m["method"] in ("file_location", "location", "get_location") and ({p["path"] for p in walk(m["recv"]) if p["k"] == "Path"} & reach)]
            locs += [m for m in walk(fn["body"]) if m["k"] == "Field" and m["member"] in ("location", "file_location") and ({p["path"] for p in walk(m["base"]) if p["k"] == "Path"} & reach)]
            fids = [m for m in walk(fn["body"]) if ((m["k"] == "MethodCall" and m["method"] in ("file_id", "get_file_id")) or (m["k"] == "Field" and m["member"] == "file_id")) and ({p["path"] for p in walk(m.get("recv") or m.get("base")) if p["k"] == "Path"} & reach)]
            key = "%s::%s/foreign-location-has-its-file-id" % (f.rsplit("/", 1)[-1], fn["name"])
            ctx.check(R, key, not locs or bool(fids), "a location is read from another definition's data (%s via %s) but no file id is: a label built from it points into the wrong file when that definition lives in an included file" % ([render(x)[:50] for x in locs][:3], sorted(sources)), site(f, locs[0]) if locs else site(f, fn))
    ctx.floor(R, "lookups of other definitions in the passes", n_sources, 1)


FILE_TABLE_OWNERS = {
    # constructor / mutator of the file table -> the only functions that may call it
    r"codespan_reporting::files::SimpleFiles::<Name, Source>::(new|add|update)$|<codespan_reporting::files::SimpleFiles<Name, Source> as std::default::Default>::default$": (
        r"program_library::file_definition::FileLibrary",
        "the file table is built by FileLibrary only: ids handed out by add_file are the ids in every label",
    ),
    r"file_definition::FileLibrary::add_file$": (r"^parse_file$|AnalysisRunner::with_src$", "files enter the library when they are read by the parser (and in the string-source test helper)"),
    r"file_definition::FileLibrary::new$|<[\w:]*file_definition::FileLibrary as std::default::Default>::default$": (
        r"^parse_files$|FileLibrary::new$|AnalysisRunner as std::default::Default>::default$|AnalysisRunner::new$",
        "one library per run, created by parse_files and handed on; the runner's default is replaced by it",
    ),
}


def rule_declaration_lookup(ctx, R="C04.14"):
    ctx.rule(R, "a declaration is looked up under the variable's full source identity (name and shadowing suffix), only the SSA version is dropped: the labels that point at `the declaration of x` then point at the declaration in scope, not at an earlier one of the same spelling")
    DF = "program_structure/src/intermediate_representation/declarations.rs"
    from astlib import result_expr

    n_look = 0
    for q_, f in fns_in_file(DF):
        if "Declarations" not in q_ or not f.get("body") or "tests" in q_:
            continue
        nm = f["name"]
        pv = sgrep.params(f)
        keys = [m for m in walk(f["body"]) if m["k"] == "MethodCall" and m["method"] in ("get", "get_mut", "contains_key") and len(m["args"]) == 1 and render(strip(m["recv"])).replace(" ", "") in ("self.0", "self.declarations")]
        if not keys:
            continue
        n_look += 1
        ok = bool(pv) and len(keys) >= 1
        det = []
        for k_ in keys:
            a = render(strip(k_["args"][0])).replace(" ", "")
            lets_ = sgrep.lets(f["body"])
            if a in lets_:
                a = render(strip(lets_[a])).replace(" ", "")
            det.append(a)
            ok = ok and a in (pv[0], "%s.without_version()" % pv[0], "%s.clone().without_version()" % pv[0])
        ctx.check(R, "Declarations::%s/key-keeps-the-suffix" % nm, ok, "lookup key(s): %s" % det, site(DF, f))
    ctx.floor(R, "declaration lookups", n_look, 1)


def rule_labels_untouched(ctx, R="C04.13"):
    ctx.rule(R, "after a report has been converted for display its labels are not rewritten: outside report.rs no code assigns to the range, start, end or file id of a label or location")
    n = 0
    for f in sorted(facts.ast()):
        if not f.startswith(("program_structure/src/utils/", "cli/src/", "program_analysis/src/analysis_runner")):
            continue
        for q, fn in fns_in_file(f):
            if not fn.get("body") or "tests" in q:
                continue
            n += 1
            hits = []
            for x in walk(fn["body"]):
                if x["k"] in ("Assign", "AssignOp") or (x["k"] == "Binary" and x.get("op", "").endswith("=") and x["op"] not in ("==", "!=", "<=", ">=")):
                    lhs = render(x["l"]).replace(" ", "")
                    if re.search(r"\.(range|file_id)(\.|$)|\brange\.(start|end)$|\.labels\b", lhs):
                        hits.append(lhs[:50])
                if x["k"] == "MethodCall" and x["method"] in ("iter_mut", "retain", "truncate", "clear", "pop", "remove", "sort", "sort_by_key", "dedup") and re.search(r"\blabels\b", render(x["recv"])):
                    hits.append(render(x)[:50])
            ctx.check(R, "%s::%s/labels-as-converted" % (f.rsplit("/", 1)[-1][:-3], fn["name"]), not hits, "label data rewritten: %s" % hits[:3], site(f, fn))
    ctx.floor(R, "writer / conversion functions", n, 25)


POSITION_PRODUCERS = {
    # functions that turn lexer / grammar positions into ranges: the only places where a location may be computed
    ("parser/src/parser_logic.rs", "preprocess"): "the position of an unclosed comment opener, from the stripper's own byte counter (C05.1)",
    ("parser/src/parser_logic.rs", "parse_file"): "LALRPOP token positions of a parse error (C04.7)",
    ("program_structure/src/abstract_syntax_tree/ast.rs", "new"): "Meta::new(start, end): the grammar's @L / @R positions (C04.5)",
    ("program_structure/src/program_library/file_definition.rs", "generate_file_location"): "the constructor used by the grammar helpers",
}


def _carrier(a):
    """an expression that hands on a location it was given: names, fields, getters without arguments, borrows"""
    a = strip(a)
    if a["k"] == "Path":
        return True
    if a["k"] == "Field":
        return _carrier(a["base"])
    if a["k"] == "MethodCall" and not a["args"]:
        return _carrier(a["recv"])
    if a["k"] in ("Ref", "Unary", "Paren"):
        return _carrier(a["e"])
    if a["k"] == "Range":
        return render(a).replace(" ", "") == "0..0"  # `no location`: the empty range at the start of the file
    return False


def rule_locations_carried(ctx, R="C04.15"):
    ctx.rule(R, "locations are carried, not computed: outside the functions that turn lexer / grammar positions into ranges, the range given to a label or stored in a `..location` field is a name, a field or a getter of a node's meta (or the empty range 0..0) - never arithmetic on offsets or text lengths")
    n_lab = n_fld = 0
    for f in sorted(facts.ast()):
        if "tests" in f or f.startswith("program_structure_tests"):
            continue
        for q, fn in fns_in_file(f):
            if not fn.get("body") or "tests" in q or (f, fn["name"]) in POSITION_PRODUCERS or f == PL:
                continue  # (parser_logic.rs is the module that receives lexer positions: its ranges are decided by C04.7 / C05.1)
            sites = []
            for m in walk(fn["body"]):
                if m["k"] == "MethodCall" and m["method"] in ("add_primary", "add_secondary") and len(m["args"]) >= 2:
                    sites.append(("label", m, m["args"][0]))
                elif m["k"] == "Struct":
                    for x in m["fields"]:
                        if x["name"].endswith("location") and x.get("e") is not None:
                            sites.append(("field `%s` of %s" % (x["name"], last(m["path"])), m, x["e"]))
                elif m["k"] == "Call" and m["func"]["k"] == "Path" and re.fullmatch(r"(?:ir::)?Meta::new", m["func"]["path"]) and len(m["args"]) == 2 and not f.endswith("abstract_syntax_tree/ast.rs"):
                    # the IR's Meta::new(&location, &file_id): a node located somewhere
                    sites.append(("field `location` of a new Meta", m, m["args"][0]))
            for what, node, arg in sites:
                a = strip(arg)
                le = let_env(fn["body"], node)
                d = 0
                while a["k"] == "Path" and a["path"] in le and d < 6:
                    a = strip(le[a["path"]])
                    d += 1
                if what == "label":
                    n_lab += 1
                else:
                    n_fld += 1
                ok = _carrier(a)
                if not ok:
                    ctx.bad(R, "%s::%s/%s-location-carried" % (f.rsplit("/", 1)[-1][:-3], fn["name"], "label" if what == "label" else what.split("`")[1]), "the %s is located at `%s`, computed here" % (what, render(a)[:90]), site(f, node))
    ctx.floor(R, "label locations inspected", n_lab, 40)
    ctx.floor(R, "location fields inspected", n_fld, 30)
    ctx.check(R, "locations-carried/no-computed-location", True, "%d label locations and %d location fields are names, fields or getters" % (n_lab, n_fld))


def rule_less_than_anchor(ctx, R="C04.16"):
    """The `LessThan` finding by evaluation of its report builder: the value compared occurs twice, first as the input
    of a range check and then as the input of the comparison; the primary label must lie on the comparison's input
    (what the message is about), the secondary labels on the range checks."""
    ctx.rule(R, "the `inputs to LessThan` finding is anchored at the input of the comparison, also when the same value was first seen as the input of a range check; the range checks are secondary labels")
    import passeval
    from finfun import S, Unsupported
    from passeval import O, Panic, Sink

    LTF = "program_analysis/src/unconstrained_less_than.rs"
    try:
        w = passeval.PassWorld([LTF], LTF)
    except Exception as e:  # noqa: BLE001
        return ctx.missing(R, "less-than evaluator", str(e))
    fn = w.free.get("build_report")
    if fn is None or "ConstraintData" not in w.structs:
        return ctx.missing(R, "unconstrained_less_than::build_report")
    w.lenient_opaque = True

    def meta(tag):
        me = []
        me.append(("O", "meta@" + tag, (("file_id", S("Some", O("file-id"))), ("file_location", O("location@" + tag)), ("clone", ("PY", lambda: me[0])))))
        return me[0]

    m_first, m_lt, m_lt2, m_nb = meta("range-check-input"), meta("comparison-input"), meta("second-comparison-input"), meta("range-check")
    vh = []
    vh.append(("O", "value", (("meta", m_first), ("clone", ("PY", lambda: vh[0])))))
    lt, nb, bs = Sink(), Sink(), Sink()
    lt.items, nb.items, bs.items = [m_lt, m_lt2], [m_nb], [("O", "size", (("clone", ("PY", lambda: O("size"))),))]
    data = S("ConstraintData", *[{"less_than": lt, "num_2_bits": nb, "bit_sizes": bs}.get(f_, Sink()) for f_ in w.structs["ConstraintData"]])
    labels = []

    def new_report(name, args):
        if name not in ("error", "warning", "info"):
            return ("K", "Report::" + name, tuple(args))
        return ("O", "report", (("add_primary", ("PY", lambda *a: labels.append(("primary",) + a))), ("add_secondary", ("PY", lambda *a: labels.append(("secondary",) + a))), ("add_note", ("PY", lambda *a: None))))

    w.opaque = (("Report::", new_report),)
    try:
        w.call_fn(fn, [vh[0], data])
    except Unsupported as u:
        return ctx.missing(R, "unconstrained_less_than::build_report/evaluation", str(u))
    except Panic as p_:
        return ctx.bad(R, "UnconstrainedLessThanWarning/primary-label-at-the-comparison-input", "panics (%s)" % p_, site(LTF, fn))
    prim = [l_ for l_ in labels if l_[0] == "primary"]
    sec = [l_ for l_ in labels if l_[0] == "secondary"]
    where = prim[0][1][1] if prim and isinstance(prim[0][1], tuple) else None
    ctx.check(R, "UnconstrainedLessThanWarning/primary-label-at-the-comparison-input", len(prim) == 1 and where == "location@comparison-input", "the primary label lies at %s" % (where or "no location"), site(LTF, fn))
    ctx.check(R, "UnconstrainedLessThanWarning/range-checks-are-secondary-labels", len(sec) == 1 and isinstance(sec[0][1], tuple) and sec[0][1][1] == "location@range-check", "secondary labels at %s" % [l_[1][1] if isinstance(l_[1], tuple) else l_[1] for l_ in sec], site(LTF, fn))


def rule_file_table(ctx):
    R = "C04.11"
    ctx.rule(R, "there is one file table: only FileLibrary creates or extends a codespan SimpleFiles, only the parser adds files to the library, and the terminal writer resolves labels against the storage of the library it was given (so a label's file id means the same file for every consumer)")
    import os

    fn = None
    for q, f in fns_in_file("program_structure/src/utils/writers.rs"):
        if f["name"] == "write_reports" and f.get("body") and any(c["k"] == "Call" and c["func"]["k"] == "Path" and last(c["func"]["path"]) == "emit" for c in walk(f["body"])):
            fn = f
    if fn is None:
        ctx.missing(R, "the write_reports that calls term::emit")
    else:
        pv = sgrep.params(fn)
        ems = [c for c in walk(fn["body"]) if c["k"] == "Call" and c["func"]["k"] == "Path" and last(c["func"]["path"]) == "emit"]
        env = sgrep.lets(fn["body"])
        for c in ems:
            ok = len(c["args"]) == 4 and len(pv) >= 2 and (sgrep.match(sgrep.pattern("__l.to_storage()"), c["args"][2], {"__l": pv[-1]}, env) or sgrep.match(sgrep.pattern("&__l.to_storage()"), c["args"][2], {"__l": pv[-1]}, env))
            ctx.check(R, "write_reports/emit-resolves-against-the-given-library", bool(ok), "files argument: %s" % render(c["args"][2])[:80], site("program_structure/src/utils/writers.rs", c))
        ts = find_fn("program_structure/src/program_library/file_definition.rs", "to_storage", "FileLibrary")
        if ts is None:
            ctx.missing(R, "FileLibrary::to_storage")
        else:
            from astlib import result_expr

            t = result_expr(ts)
            ctx.check(R, "FileLibrary::to_storage/returns-the-stored-table", t is not None and render(strip(t)).replace(" ", "") in ("&self.files", "self.files"), render(t) if t else "?", site("program_structure/src/program_library/file_definition.rs", ts))
    if os.environ.get("VERIF_SKIP_MIR_RULES") == "1":
        return ctx.note("C04.11 who-may-call part skipped (VERIF_SKIP_MIR_RULES=1)")
    import mirlib
    import dropflow

    n = 0
    for fid, f in sorted(mirlib.index().items()):
        if f.get("gen") or dropflow._is_test(f):
            continue
        for _i, t in mirlib.calls_of(f):
            p = t.get("pretty") or ""
            for pat, (owners, why) in FILE_TABLE_OWNERS.items():
                if re.search(pat, p):
                    n += 1
                    ok = bool(re.search(owners, f["pretty"]))
                    ctx.check(R, "who-calls/%s<-%s" % (re.sub(r"<[^>]*>|^.*::(?=\w+::\w+$)", "", p), f["pretty"]), ok, why if ok else "%s is called from %s (%s)" % (p, f["pretty"], why), (f["file"], t["line"]))
    ctx.floor(R, "file table constructor / mutator call sites", n, 5)


def run(ctx):
    rule_foreign_locations(ctx)
    rule_file_table(ctx)
    rule_labels_untouched(ctx)
    rule_declaration_lookup(ctx)
    rule_locations_carried(ctx)
    rule_less_than_anchor(ctx)
    ctx.rule("C04.10", "Report::add_primary / add_secondary attach exactly the byte range and file id they are given (no widening, shifting or re-anchoring)")
    c03.rule_label_passthrough(ctx, "C04.10")
    ctx.include("C04.1", "the comment stripper is equivalent to the reference lexer for all strings - in particular every byte of the input corresponds to exactly one byte of the output (shared with C05.1)", lambda c: c05.run(c), only=["preprocess/"])
    rule_units(ctx)
    rule_original_text(ctx)
    rule_grammar_spans(ctx)
    rule_fill(ctx)
    rule_synth(ctx)
    rule_explicit_ranges(ctx)
    import c13

    ctx.include("C04.18", "the statements a declaration with initialisers expands to are located at the declaration statement (evaluation of the declaration shortcuts, shared with C13.1)", lambda c: c13.eval_declaration_split(c, "C13.1"), only=["ast_shortcuts::split_declaration/every-statement-located"])
    ctx.include("C04.12", "the statements synthesised for `x op= e`, `x++` and `x--` are located at the whole statement: the expansion is compared with the written-out form including the meta it is given (shared with C13.1)", c13.rule_expansions)
    import c17

    ctx.include("C04.17", "a definition is stored with the id of the file it was parsed from - also when an earlier file has an id but no contents (it failed to parse) - and a duplicate definition is reported at its own location in its own file (shared with C17.1): every later finding is displayed in the file that id names", lambda c: c17.eval_template_library(c, "C17.1"), only=["TemplateLibrary::new/evaluated/definition-keeps", "TemplateLibrary::new/evaluated/each-duplicate"])
    ctx.include("C04.8", "SARIF regions come from the renderer's own lookup of the label's byte offsets (shared with C03.8)", lambda c: c03.rule_region(c, "C03.8"))
