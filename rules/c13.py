"""C13 The CFG contains every source execution: decided for the expansions and the token tables."""
import re

import grammar
import terms
from astlib import render, site, strip, walk
import c12

TITLE = "CFG contains every execution (expansions)"
LEVEL_TEXT = (
    "`for`, compound assignments and `++`/`--` expand to exactly the stated trees (symbolic result terms of the shortcut functions,"
    " builders inlined); every compound-assignment token uses the opcode of its infix token; loop and branch productions pass"
    " their parts to the builders in the right positions; the lifting discipline of C12.2 (branch targets, fall-through sets, source order);"
    " the AST-to-IR operator and kind tables are the identity on names; the conversion of every node kind keeps each child in its place (evaluated with marker children)."
)
NOT_DECIDED = "the path correspondence between structured execution and CFG walks for every program and decision sequence (translation validation; a different family)."
TRUSTED = ["syn parser", "LALRPOP grammar reader (rules/grammar.py)", "term extractor (rules/terms.py)"]

SC = "program_structure/src/abstract_syntax_tree/ast_shortcuts.rs"
GR = grammar.GRAMMAR

EXPECT = {
    "for_into_while": "Block { meta: meta, stmts: vec![init, While { cond: cond, meta: meta, stmt: Block { meta: body.get_meta(), stmts: vec![body, step] } }] }",
    "assign_with_op_shortcut": "Substitution { access: variable.1, meta: meta, op: AssignOp::AssignVar, rhe: InfixOp { infix_op: op, lhe: Variable { access: variable.1, meta: meta, name: variable.0 }, meta: meta, rhe: rhe }, var: variable.0 }",
    "plusplus": "assign_with_op_shortcut(ExpressionInfixOpcode::Add, meta, variable, Number(meta, BigInt::from(1)))",
    "subsub": "assign_with_op_shortcut(ExpressionInfixOpcode::Sub, meta, variable, Number(meta, BigInt::from(1)))",
}

PARAMS = {"for_into_while": ["meta", "init", "cond", "step", "body"], "assign_with_op_shortcut": ["op", "meta", "variable", "rhe"], "plusplus": ["meta", "variable"], "subsub": ["meta", "variable"]}

INFIX_NTS = ("ParseBoolOr", "ParseBoolAnd", "ParseCmpOpCodes", "ParseBitOr", "ParseBitAnd", "ParseShift", "ParseAddAndSub", "ParseMulDiv", "ParseExp", "ParseBitXOR")


def infix_token_table(ctx, R):
    tab = {}
    for nt in INFIX_NTS:
        t = grammar.terminal_table(nt)
        if t is None:
            ctx.missing(R, "grammar/" + nt)
            continue
        for tok, path in t.items():
            tab[tok] = path
    return tab


def rule_expansions(ctx):
    R = "C13.1"
    ctx.rule(R, "for(init; cond; step) body = { init; while (cond) { body; step } } with the body kept as its own nested statement; v op= e is v = v op e; v++ / v-- add / subtract 1")
    for name, want in EXPECT.items():
        try:
            got = terms.fn_term(SC, name, params=PARAMS[name])
        except terms.TermError as e:
            ctx.missing(R, "ast_shortcuts::" + name, str(e))
            continue
        ctx.check(R, "ast_shortcuts::%s/expansion" % name, got == want, "result term: %s ; expected: %s" % (got, want), SC)


def rule_tokens(ctx):
    R = "C13.2"
    ctx.rule(R, "each compound assignment token `X=` expands with the opcode of the infix token `X`; `++`/`--` use the increment/decrement shortcuts; loop and branch productions hand their parts to the builders in source order")
    nts = grammar.parse()
    infix = infix_token_table(ctx, R)
    ctx.floor(R, "infix tokens", len(infix), 20)
    sub = nts.get("ParseSubstitution")
    if sub is None:
        return ctx.missing(R, "grammar/ParseSubstitution")
    n = 0
    for a in sub["alts"]:
        toks = [s["value"] for s in a["symbols"] if s["kind"] == "str"]
        if len(toks) != 1:
            continue
        tok = toks[0]
        act = (a["action"] or "").replace(" ", "")
        lt1 = (grammar.leaf_texts(a) or [None])
        act1 = lt1[0] if len(lt1) == 1 else act
        if tok.endswith("=") and tok not in ("=", "<==", "==", "<=", ">=", "!=") and len(tok) >= 2:
            n += 1
            base = tok[:-1]
            m = re.search(r"assign_with_op_shortcut\((ExpressionInfixOpcode::\w+),Meta::new\(s,e\),variable,rhe\)", act1)
            want = infix.get(base)
            ctx.check(R, "grammar/compound[%s]" % tok, m is not None and want is not None and m.group(1) == want, "action: %s ; infix token `%s` is %s" % (act[:100], base, want), (GR, a["line"]))
        elif tok in ("++", "--"):
            n += 1
            f = "plusplus" if tok == "++" else "subsub"
            ctx.check(R, "grammar/compound[%s]" % tok, act1 == "ast_shortcuts::%s(Meta::new(s,e),variable)" % f, "action: %s" % act, (GR, a["line"]))
    ctx.floor(R, "compound assignment productions", n, 14)
    # loops and branches
    st2 = nts.get("ParseStatement2")
    if st2 is None:
        return ctx.missing(R, "grammar/ParseStatement2")
    fors = [a for a in st2["alts"] if a["symbols"] and any(s["kind"] == "str" and s["value"] == "for" for s in a["symbols"])]
    ctx.floor(R, "for productions", len(fors), 2)
    for i, a in enumerate(fors):
        names = [s["name"] for s in a["symbols"] if s["name"] and s["kind"] == "nt"]
        act = (a["action"] or "").replace(" ", "")
        lt1 = (grammar.leaf_texts(a) or [None])
        act1 = lt1[0] if len(lt1) == 1 else act
        ok = names == ["init", "cond", "step", "body"] and act1 == "ast_shortcuts::for_into_while(Meta::new(s,e),init,cond,step,body)"
        # the header order in the source text: init ; cond ; step
        seq = [s["text"] if s["kind"] == "str" else s["name"] for s in a["symbols"] if s["kind"] in ("str", "nt")]
        ok = ok and seq == ['"for"', '"("', "init", '";"', "cond", '";"', "step", '")"', "body"]
        ctx.check(R, "grammar/for[%d]" % (i + 1), ok, "symbols %s ; action %s" % (seq, act), (GR, a["line"]))
    wh = [a for a in st2["alts"] if any(s["kind"] == "str" and s["value"] == "while" for s in a["symbols"])]
    for a in wh:
        act = (a["action"] or "").replace(" ", "")
        lt1 = (grammar.leaf_texts(a) or [None])
        act1 = lt1[0] if len(lt1) == 1 else act
        seq = [s["text"] if s["kind"] == "str" else s["name"] for s in a["symbols"] if s["kind"] in ("str", "nt")]
        ctx.check(R, "grammar/while", act1 == "build_while_block(Meta::new(s,e),cond,stmt)" and seq == ['"while"', '"("', "cond", '")"', "stmt"], "symbols %s ; action %s" % (seq, act), (GR, a["line"]))
    ctx.floor(R, "while productions", len(wh), 1)
    n = 0
    for ntn in ("ParseStmt0NB", "ParseStatement1"):
        nt = nts.get(ntn)
        if nt is None:
            ctx.missing(R, "grammar/" + ntn)
            continue
        for a in nt["alts"]:
            if not any(s["kind"] == "str" and s["value"] == "if" for s in a["symbols"]):
                continue
            n += 1
            act = (a["action"] or "").replace(" ", "")
            lt1 = (grammar.leaf_texts(a) or [None])
            act1 = lt1[0] if len(lt1) == 1 else act
            names = [s["name"] for s in a["symbols"] if s["name"] and s["kind"] == "nt"]
            if "else_case" in names:
                ok = names == ["cond", "if_case", "else_case"] and act1 == "build_conditional_block(Meta::new(s,e),cond,if_case,Some(else_case))"
            else:
                ok = names == ["cond", "if_case"] and act1 == "build_conditional_block(Meta::new(s,e),cond,if_case,None)"
            ctx.check(R, "grammar/if[%s#%d]" % (ntn, n), ok, "bindings %s ; action %s" % (names, act), (GR, a["line"]))
    ctx.floor(R, "if productions", n, 4)
    # the builders put the parts in the right fields
    for name, want in (("build_conditional_block", "IfThenElse { cond: cond, else_case: else_case, if_case: if_case, meta: meta }"), ("build_while_block", "While { cond: cond, meta: meta, stmt: stmt }"), ("build_block", "Block { meta: meta, stmts: stmts }")):
        b = terms.builders().get(name)
        got = terms.norm(b[1]) if b else None
        ctx.check(R, "builder/" + name, got == want, "%s ; expected %s" % (got, want))
    el = nts.get("ParseElse")
    if el is not None and el["alts"]:
        ctx.check(R, "grammar/else", (el["alts"][0]["action"] or "").replace(" ", "") == "else_case", el["alts"][0]["action"])


IRL = "program_structure/src/intermediate_representation/lifting.rs"
IRF = "program_structure/src/intermediate_representation/ir.rs"


def rule_kind_tables(ctx, R="C13.4"):
    ctx.rule(R, "the lifting keeps operators and kinds: every arm of the AST-to-IR tables for infix / prefix opcodes, assignment operators, signal and variable types maps a variant to the IR variant of the same name (or, where the IR renamed it, to a variant no other arm maps to), and every AST variant has an arm")
    import a10
    from astlib import fns_in_file, last, pat_paths

    n = 0
    for q, f in fns_in_file(IRL):
        m_ = re.search(r"TryLift<\(\)>\s*for\s*(?:ast::)?(\w+)", q)
        if not m_ or f["name"] != "try_lift" or not f.get("body"):
            continue
        en = m_.group(1)
        if en not in ("ExpressionInfixOpcode", "ExpressionPrefixOpcode", "AssignOp", "SignalType", "VariableType"):
            continue
        src = a10.enum_def("program_structure/src/abstract_syntax_tree/ast.rs", en)
        ms = [m for m in walk(f["body"]) if m["k"] == "Match"]
        if not ms or src is None:
            ctx.missing(R, "lifting/%s" % en)
            continue
        targets = {}
        for a in ms[0]["arms"]:
            b = strip(a["body"])
            tgt = None
            if b["k"] == "Call" and render(b["func"]) == "Ok" and strip(b["args"][0])["k"] == "Path":
                tgt = last(strip(b["args"][0])["path"])
            for pth in pat_paths(a["pat"]):
                targets[last(pth)] = (tgt, a)
        ir_en = None
        for cand in (en, {"VariableType": "VariableType"}.get(en, en)):
            ir_en = a10.enum_def(IRF, cand) or ir_en
        for v in src:
            n += 1
            if v not in targets:
                ctx.bad(R, "lifting/%s::%s/has-an-arm" % (en, v), "no arm for this variant", site(IRL, f))
                continue
            tgt, arm = targets[v]
            if tgt is None:
                ctx.ok(R, "lifting/%s::%s/kept" % (en, v), "compound arm (payload lifted)", site(IRL, arm))
                continue
            same = ir_en is not None and v in ir_en
            others = [o for o, (t2, _a) in targets.items() if o != v and t2 == tgt]
            ok = (tgt == v) if same else not others
            ctx.check(R, "lifting/%s::%s/kept" % (en, v), ok, "%s::%s is lifted to %s%s" % (en, v, tgt, (" (also the image of %s)" % others) if others else ""), site(IRL, arm))
    ctx.floor(R, "opcode / kind table rows", n, 30)


def eval_ir_lifting(ctx, R="C13.5"):
    """The AST-to-IR conversion of one node by evaluation: every child of the node is a marker whose own conversion
    yields a second marker; the IR node returned must hold, under the field of the same name and in the same order,
    the converted children - for every statement and expression kind the conversion handles, with children that are
    or are not number literals (so that no `canonical operand order` can slip in)."""
    import itertools

    import a10
    import passeval
    from finfun import E, S, Unsupported
    from passeval import O, Panic, Sink, V

    ASTF_ = "program_structure/src/abstract_syntax_tree/ast.rs"
    IRF_ = "program_structure/src/intermediate_representation/ir.rs"
    ctx.rule(R, "the conversion of a statement or expression to the intermediate representation keeps every child in its place: the converted left operand is the left operand, the converted condition the condition, list elements keep their order")
    try:
        w = passeval.PassWorld([ASTF_, IRF_, IRL], IRL)
    except Exception as e:  # noqa: BLE001
        return ctx.missing(R, "lifting evaluator", str(e))
    w.lenient_opaque = True
    n = 0
    decided = 0
    for enum in ("Expression", "Statement"):
        key = (enum, "try_lift")
        if key not in w.methods:
            ctx.missing(R, "TryLift for ast::" + enum)
            continue
        fn = w.methods[key][0]
        d = a10.enum_def(ASTF_, enum)
        for vname, vdef in d.items():
            kids = [(f["name"], f["ty"].replace(" ", "")) for f in vdef["fields"] if f["ty"].replace(" ", "") in ("Expression", "Box<Expression>", "Vec<Expression>")]
            if not kids:
                continue
            slots = []
            for nm, ty in kids:
                slots += [(nm, None)] if not ty.startswith("Vec") else [(nm, 0), (nm, 1)]
            problems, unsupported, worlds = [], None, 0
            for numeric in itertools.product((False, True), repeat=min(len(slots), 3)):
                for access_empty in ((True, False) if any(f["ty"].replace(" ", "") == "Vec<Access>" for f in vdef["fields"]) else (True,)):
                    lifted = {}

                    def leaf(tag, isnum, lifted=lifted):
                        out = ("O", "lifted:" + tag, ())
                        me = ("O", "child:" + tag, (("try_lift", ("PY", lambda *a, out=out: S("Ok", out))), ("is_number", isnum), ("is_empty", False)))
                        lifted[tag] = out
                        return me

                    fields = {}
                    si = 0
                    for f in vdef["fields"]:
                        nm, ty = f["name"], f["ty"].replace(" ", "")
                        if ty in ("Expression", "Box<Expression>"):
                            fields[nm] = leaf(nm, numeric[si] if si < len(numeric) else False)
                            si += 1
                        elif ty == "Vec<Expression>":
                            fields[nm] = ("L", (leaf(nm + "[0]", numeric[si] if si < len(numeric) else False), leaf(nm + "[1]", numeric[si + 1] if si + 1 < len(numeric) else False)))
                            si += 2
                        elif ty == "Meta":
                            fields[nm] = ("O", "meta", (("try_lift", ("PY", lambda *a: S("Ok", O("lifted-meta")))),))
                        elif ty == "String":
                            fields[nm] = ("O", "name", (("try_lift", ("PY", lambda *a: S("Ok", O("lifted-name")))),))
                        elif ty == "Vec<Access>":
                            fields[nm] = ("L", ()) if access_empty else ("L", (("O", "access0", (("try_lift", ("PY", lambda *a: S("Ok", O("lifted-access0")))),)),))
                        elif ty == "Vec<LogArgument>":
                            fields[nm] = ("L", (("O", "logarg", (("try_lift", ("PY", lambda *a: S("Ok", O("lifted-logarg")))),)),))
                        elif ty in ("ExpressionInfixOpcode", "ExpressionPrefixOpcode", "AssignOp", "VariableType"):
                            en_ = a10.enum_def(ASTF_, ty)
                            first = [k_ for k_, v_ in en_.items() if not v_["fields"]]
                            fields[nm] = E(ty, "Sub" if "Sub" in en_ else first[0])
                        else:
                            fields[nm] = O("%s.%s" % (vname, nm))
                    tuple_like = all((f.get("name") or "").isdigit() for f in vdef["fields"])
                    node = S(vname, *[fields[f["name"]] for f in vdef["fields"]]) if tuple_like else V(enum, vname, **fields)
                    try:
                        res = w.call_fn(fn, [node, ("T", ()), Sink()])
                    except Unsupported as u:
                        unsupported = str(u)
                        break
                    except Panic:
                        unsupported = "panics: handled by the caller"
                        break
                    worlds += 1
                    n += 1
                    if not (isinstance(res, tuple) and len(res) > 2 and res[0] == "S" and res[1] == "Ok"):
                        problems.append("returns %r" % (res,))
                        continue

                    def places(x, path=(), depth=0):
                        """(field path, position) of every converted child inside the IR node"""
                        if depth > 6:
                            return
                        if isinstance(x, tuple) and x and x[0] == "O" and x[1].startswith("lifted:"):
                            yield x, path
                        elif isinstance(x, tuple) and len(x) > 3 and x[0] == "V":
                            for k_, v_ in x[3].items():
                                yield from places(v_, path + (k_,), depth + 1)
                        elif isinstance(x, tuple) and x and x[0] == "L":
                            for i_, v_ in enumerate(x[1]):
                                yield from places(v_, path + (i_,), depth + 1)
                        elif isinstance(x, Sink):
                            for i_, v_ in enumerate(x.items):
                                yield from places(v_, path + (i_,), depth + 1)
                        elif isinstance(x, tuple) and len(x) > 2 and x[0] in ("S", "K") and isinstance(x[2], tuple):
                            for v_ in x[2]:
                                yield from places(v_, path, depth + 1)

                    found = {m_[1]: pth for m_, pth in places(res[2][0])}
                    for tag, out in lifted.items():
                        pth = found.get(out[1])
                        base, ix = (tag.split("[")[0], int(tag.split("[")[1][:-1])) if "[" in tag else (tag, None)
                        if pth == () and len(lifted) == 1:
                            continue  # a transparent wrapper: the node is converted to its only child
                        if pth is None:
                            problems.append("the converted `%s` is not part of the result" % tag)
                        elif ix is None and (not pth or pth[-1] != base):
                            problems.append("the converted `%s` ends up as `%s`%s" % (tag, ".".join(str(x) for x in pth), " (children that are numbers: %s)" % [s_[0] for s_, nu in zip(slots, numeric) if nu] if any(numeric) else ""))
                        elif ix is not None and (len(pth) < 2 or pth[-2] != base or pth[-1] != ix):
                            problems.append("the converted `%s` ends up at `%s`" % (tag, ".".join(str(x) for x in pth)))
                if unsupported:
                    break
            if unsupported:
                if not unsupported.startswith("panics"):
                    ctx.missing(R, "lifting/%s::%s/evaluation" % (enum, vname), "the conversion uses a construct the evaluator cannot interpret (fail closed): %s" % unsupported)
                continue
            decided += 1
            ctx.check(R, "lifting/%s::%s/children-keep-their-places" % (enum, vname), not problems, "; ".join(sorted(set(problems))[:2]) or "every child is converted into the field of the same name, lists in order (%d worlds)" % worlds, site(IRL, fn))
    ctx.floor(R, "node kinds whose conversion was evaluated", decided, 10)
    # one level deeper: an operator applied to an operator.  The conversion of `op1 (a op2 b)` and `(a op2 b) op1 c` is the
    # node of op1 over the node of op2 over the converted a, b - for every pair of operators (no rewriting of a negated
    # comparison into `the complementary one`, no re-association)
    fn = w.methods.get(("Expression", "try_lift"), (None,))[0]
    pre = a10.enum_def(ASTF_, "ExpressionPrefixOpcode")
    inf = a10.enum_def(ASTF_, "ExpressionInfixOpcode")
    if fn is not None and pre and inf:
        def marker(tag):
            out = ("O", "lifted:" + tag, ())
            return ("O", "child:" + tag, (("try_lift", ("PY", lambda *a, out=out: S("Ok", out))), ("is_number", False))), out

        def meta():
            return ("O", "meta", (("try_lift", ("PY", lambda *a: S("Ok", O("lifted-meta")))),))

        def ir_shape(x, depth=0):
            if isinstance(x, tuple) and x and x[0] == "O" and x[1].startswith("lifted:"):
                return x[1][7:]
            if isinstance(x, tuple) and len(x) > 3 and x[0] == "V" and depth < 5:
                ops = [v_[2] for k_, v_ in x[3].items() if isinstance(v_, tuple) and v_ and v_[0] == "E"]
                kids = [ir_shape(v_, depth + 1) for k_, v_ in sorted(x[3].items()) if k_ in ("lhe", "rhe")]
                return (x[2], tuple(ops), tuple(kids))
            return "?"

        wrong, nw, unsup = [], 0, None
        for o2 in inf:
            a_, la = marker("a")
            b_, lb = marker("b")
            inner = V("Expression", "InfixOp", meta=meta(), lhe=a_, infix_op=E("ExpressionInfixOpcode", o2), rhe=b_)
            want_inner = ("InfixOp", (o2,), ("a", "b"))
            tops = [("PrefixOp", o1, V("Expression", "PrefixOp", meta=meta(), prefix_op=E("ExpressionPrefixOpcode", o1), rhe=inner), ("PrefixOp", (o1,), (want_inner,))) for o1 in pre]
            for o1 in inf:
                c_, lc = marker("c")
                tops.append(("InfixOp", o1, V("Expression", "InfixOp", meta=meta(), lhe=inner, infix_op=E("ExpressionInfixOpcode", o1), rhe=c_), ("InfixOp", (o1,), (want_inner, "c"))))
                c2_, lc2 = marker("c")
                tops.append(("InfixOp", o1, V("Expression", "InfixOp", meta=meta(), lhe=c2_, infix_op=E("ExpressionInfixOpcode", o1), rhe=inner), ("InfixOp", (o1,), ("c", want_inner))))
            for kind, o1, node, want in tops:
                try:
                    res = w.call_fn(fn, [node, ("T", ()), Sink()])
                except Unsupported as u:
                    unsup = str(u)
                    break
                except Panic as p_:
                    wrong.append("%s %s over %s: panics (%s)" % (kind, o1, o2, p_))
                    continue
                nw += 1
                got = ir_shape(res[2][0]) if isinstance(res, tuple) and len(res) > 2 and res[1] == "Ok" else "error"
                if got != want and len(wrong) < 4:
                    wrong.append("`%s` over `a %s b` is converted to %s" % (o1, o2, got))
            if unsup:
                break
        if unsup:
            ctx.missing(R, "lifting/Expression/nested-operators/evaluation", "cannot be evaluated (fail closed): %s" % unsup)
        else:
            ctx.floor(R, "operator pairs whose conversion was evaluated", nw, 500)
            ctx.check(R, "lifting/Expression/nested-operators-kept", not wrong, "; ".join(wrong[:3]) or "every prefix / infix operator over every infix operator is converted node by node (%d pairs)" % nw, site(IRL, fn))


def eval_declaration_split(ctx, R="C13.1"):
    """`T a = e1, b, c = e3;` and `T (a, b) op e;` by evaluation of the two shortcut functions: each symbol is declared
    and - when it has an initialiser - assigned with the operator written, before the next symbol is declared (a later
    initialiser may read an earlier symbol, an earlier one must not see a later declaration); a tuple declaration
    declares every symbol and then makes one multi-assignment with the operator written."""
    import passeval
    from finfun import NONE, S, Unsupported
    from passeval import O, Panic, Sink, V

    SHF = "program_structure/src/abstract_syntax_tree/ast_shortcuts.rs"
    ASTF_ = "program_structure/src/abstract_syntax_tree/ast.rs"
    try:
        w = passeval.PassWorld([ASTF_, SHF], SHF)
    except Exception:  # noqa: BLE001
        return
    w.lenient_opaque = True
    f1 = w.free.get("split_declaration_into_single_nodes")
    f2 = w.free.get("split_declaration_into_single_nodes_and_multi_substitution")
    if f1 is None or f2 is None or "Symbol" not in w.structs:
        return ctx.missing(R, "ast_shortcuts::split_declaration_into_single_nodes")
    w.stubs = {
        "build_declaration": lambda a: V("Statement", "Declaration", meta=a[0], xtype=a[1], name=a[2], dimensions=a[3]),
        "build_substitution": lambda a: V("Statement", "Substitution", meta=a[0], var=a[1], access=a[2], op=a[3], rhe=a[4]),
        "build_multi_substitution": lambda a: V("Statement", "MultiSubstitution", meta=a[0], lhe=a[1], op=a[2], rhe=a[3]),
        "build_tuple": lambda a: V("Expression", "Tuple", meta=a[0], values=a[1]),
        "build_variable": lambda a: V("Expression", "Variable", meta=a[0], name=a[1], access=a[2]),
        "build_initialization_block": lambda a: V("Statement", "InitializationBlock", meta=a[0], xtype=a[1], initializations=a[2]),
    }
    mh = []
    mh.append(("O", "meta", (("clone", ("PY", lambda: mh[0])),)))
    xt = None
    OP, OP2 = O("operator-written"), O("tuple-operator-written")

    def sym(nm, init):
        vals = {"name": nm, "is_array": ("L", (O("dim-of-" + nm),)), "init": NONE if init is None else S("Some", init)}
        return S("Symbol", *[vals[f_] for f_ in w.structs["Symbol"]])

    def listed(x):
        return list(x.items) if isinstance(x, Sink) else (list(x[1]) if isinstance(x, tuple) and x and x[0] == "L" else None)

    def shape(st):
        if not (isinstance(st, tuple) and len(st) > 3 and st[0] == "V"):
            return ("?",)
        if st[2] == "Declaration":
            return ("declare", st[3].get("name"))
        if st[2] == "Substitution":
            return ("assign", st[3].get("var"), "op" if st[3].get("op") is OP else "other-op", st[3].get("rhe")[1] if isinstance(st[3].get("rhe"), tuple) else None)
        if st[2] == "MultiSubstitution":
            l_ = st[3].get("lhe")
            names = [(v_[3].get("name") if isinstance(v_, tuple) and len(v_) > 3 and v_[0] == "V" else None) for v_ in (listed(l_[3].get("values")) or [])] if isinstance(l_, tuple) and len(l_) > 3 else None
            return ("assign-tuple", tuple(names or ()), "op" if st[3].get("op") is OP2 else "other-op", st[3].get("rhe")[1] if isinstance(st[3].get("rhe"), tuple) else None)
        return (st[2],)

    from finfun import E

    ea, ec, et = O("init-a"), O("init-c"), O("tuple-init")

    def block(r):
        return [shape(x) for x in (listed(r[3].get("initializations")) or [])] if isinstance(r, tuple) and len(r) > 3 and r[0] == "V" and r[2] == "InitializationBlock" else None

    want1 = [("declare", "a"), ("assign", "a", "op", "init-a"), ("declare", "b"), ("declare", "c"), ("assign", "c", "op", "init-c")]
    want2 = [("declare", "a"), ("declare", "b"), ("assign-tuple", ("a", "b"), "op", "tuple-init")]
    bad1, bad2, badloc = [], [], []
    # for every declared type: the expansion does not depend on it
    for tname, xt in (("var", E("VariableType", "Var")), ("signal", S("Signal", E("SignalType", "Intermediate"), ("L", ()))), ("component", E("VariableType", "Component"))):
        try:
            r1 = w.call_fn(f1, [mh[0], xt, ("L", (sym("a", ea), sym("b", None), sym("c", ec))), OP])
            ti = S("TupleInit", ("T", (OP2, et))) if "TupleInit" in w.structs else None
            r2 = w.call_fn(f2, [mh[0], xt, ("L", (sym("a", None), sym("b", None))), S("Some", ti)])
            r3 = w.call_fn(f2, [mh[0], xt, ("L", (sym("a", None), sym("b", None))), NONE])
        except (Unsupported, Panic) as u:
            w.stubs = {}
            return ctx.missing(R, "ast_shortcuts::split_declaration/evaluation", "the declaration shortcuts use a construct the evaluator cannot interpret (fail closed): %s" % u)
        g1, g2, g3 = block(r1), block(r2), block(r3)
        for tag_, r_ in (("T a = e1, b, c = e3", r1), ("T (a, b) op e", r2)):
            for x in (listed(r_[3].get("initializations")) or []) if isinstance(r_, tuple) and len(r_) > 3 else []:
                if isinstance(x, tuple) and len(x) > 3 and x[0] == "V" and x[3].get("meta") is not mh[0]:
                    badloc.append("%s `%s`: the %s statement for `%s` is located at %s, not at the declaration" % (tname, tag_, x[2], x[3].get("var") or x[3].get("name") or "the tuple", x[3].get("meta")[1] if isinstance(x[3].get("meta"), tuple) and len(x[3].get("meta")) > 1 else x[3].get("meta")))
        if not (g1 == want1 and r1[3].get("xtype") == xt):
            bad1.append("%s a = e1, b, c = e3 expands to %s" % (tname, g1))
        if not (g2 == want2 and g3 == want2[:2]):
            bad2.append("%s (a, b) op e expands to %s, without initialiser to %s" % (tname, g2, g3))
    w.stubs = {}
    ctx.check(R, "ast_shortcuts::split_declaration_into_single_nodes/expansion", not bad1, "; ".join(bad1[:2]) or "`T a = e1, b, c = e3` expands to declare a, a op e1, declare b, declare c, c op e3 for every declared type (each initialiser directly after its own declaration, with the operator written)", site(SHF, f1))
    ctx.check(R, "ast_shortcuts::split_declaration/every-statement-located-at-the-declaration", not badloc, "; ".join(badloc[:2]) or "every declaration and assignment a declaration expands to carries the location of the declaration statement (a finding about `signal s <-- e;` points at the statement, not at `e`)", site(SHF, f1))
    ctx.check(R, "ast_shortcuts::split_declaration_into_single_nodes_and_multi_substitution/expansion", not bad2, "; ".join(bad2[:2]) or "`T (a, b) op e` expands to declare a, declare b, (a, b) op e with the operator written, for every declared type", site(SHF, f2))


def run(ctx):
    rule_expansions(ctx)
    eval_declaration_split(ctx)
    rule_tokens(ctx)
    rule_kind_tables(ctx)
    eval_ir_lifting(ctx)
    ctx.rules["C13.3"] = "the lifting turns while/if into header/branch blocks with the targets and fall-through sets of C12.2 (shared rule)"
    sub = type(ctx)(ctx.pid, ctx.tier)
    c12.rule_lifting(sub)
    c12.rule_complete(sub)
    for o in sub.obs:
        ctx._add("C13.3", o.key.split("/", 1)[1], o.ok, o.detail, o.site)
