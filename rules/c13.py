"""C13 The CFG contains every source execution: decided for the expansions and the token tables."""
import re

import grammar
import terms
from astlib import render, site, strip, walk
import c12

TITLE = "CFG contains every execution (expansions)"
LEVEL_TEXT = (
    "`for`, compound assignments and `++`/`--` expand to exactly the stated trees (symbolic result terms of the shortcut functions,"
    " builders inlined); every compound-assignment token uses the opcode of its infix token; loop and branch productions pass"
    " their parts to the builders in the right positions; the lifting discipline of C12.2 (branch targets, fall-through sets, source order);"
    " the AST-to-IR operator and kind tables are the identity on names."
)
NOT_DECIDED = "the path correspondence between structured execution and CFG walks for every program and decision sequence (translation validation; a different family)."
TRUSTED = ["syn parser", "LALRPOP grammar reader (rules/grammar.py)", "term extractor (rules/terms.py)"]

SC = "program_structure/src/abstract_syntax_tree/ast_shortcuts.rs"
GR = grammar.GRAMMAR

EXPECT = {
    "for_into_while": "Block { meta: meta, stmts: vec![init, While { cond: cond, meta: meta, stmt: Block { meta: body.get_meta(), stmts: vec![body, step] } }] }",
    "assign_with_op_shortcut": "Substitution { access: variable.1, meta: meta, op: AssignOp::AssignVar, rhe: InfixOp { infix_op: op, lhe: Variable { access: variable.1, meta: meta, name: variable.0 }, meta: meta, rhe: rhe }, var: variable.0 }",
    "plusplus": "assign_with_op_shortcut(ExpressionInfixOpcode::Add, meta, variable, Number(meta, BigInt::from(1)))",
    "subsub": "assign_with_op_shortcut(ExpressionInfixOpcode::Sub, meta, variable, Number(meta, BigInt::from(1)))",
}

PARAMS = {"for_into_while": ["meta", "init", "cond", "step", "body"], "assign_with_op_shortcut": ["op", "meta", "variable", "rhe"], "plusplus": ["meta", "variable"], "subsub": ["meta", "variable"]}

INFIX_NTS = ("ParseBoolOr", "ParseBoolAnd", "ParseCmpOpCodes", "ParseBitOr", "ParseBitAnd", "ParseShift", "ParseAddAndSub", "ParseMulDiv", "ParseExp", "ParseBitXOR")


def infix_token_table(ctx, R):
    tab = {}
    for nt in INFIX_NTS:
        t = grammar.terminal_table(nt)
        if t is None:
            ctx.missing(R, "grammar/" + nt)
            continue
        for tok, path in t.items():
            tab[tok] = path
    return tab


def rule_expansions(ctx):
    R = "C13.1"
    ctx.rule(R, "for(init; cond; step) body = { init; while (cond) { body; step } } with the body kept as its own nested statement; v op= e is v = v op e; v++ / v-- add / subtract 1")
    for name, want in EXPECT.items():
        try:
            got = terms.fn_term(SC, name, params=PARAMS[name])
        except terms.TermError as e:
            ctx.missing(R, "ast_shortcuts::" + name, str(e))
            continue
        ctx.check(R, "ast_shortcuts::%s/expansion" % name, got == want, "result term: %s ; expected: %s" % (got, want), SC)


def rule_tokens(ctx):
    R = "C13.2"
    ctx.rule(R, "each compound assignment token `X=` expands with the opcode of the infix token `X`; `++`/`--` use the increment/decrement shortcuts; loop and branch productions hand their parts to the builders in source order")
    nts = grammar.parse()
    infix = infix_token_table(ctx, R)
    ctx.floor(R, "infix tokens", len(infix), 20)
    sub = nts.get("ParseSubstitution")
    if sub is None:
        return ctx.missing(R, "grammar/ParseSubstitution")
    n = 0
    for a in sub["alts"]:
        toks = [s["value"] for s in a["symbols"] if s["kind"] == "str"]
        if len(toks) != 1:
            continue
        tok = toks[0]
        act = (a["action"] or "").replace(" ", "")
        lt1 = (grammar.leaf_texts(a) or [None])
        act1 = lt1[0] if len(lt1) == 1 else act
        if tok.endswith("=") and tok not in ("=", "<==", "==", "<=", ">=", "!=") and len(tok) >= 2:
            n += 1
            base = tok[:-1]
            m = re.search(r"assign_with_op_shortcut\((ExpressionInfixOpcode::\w+),Meta::new\(s,e\),variable,rhe\)", act1)
            want = infix.get(base)
            ctx.check(R, "grammar/compound[%s]" % tok, m is not None and want is not None and m.group(1) == want, "action: %s ; infix token `%s` is %s" % (act[:100], base, want), (GR, a["line"]))
        elif tok in ("++", "--"):
            n += 1
            f = "plusplus" if tok == "++" else "subsub"
            ctx.check(R, "grammar/compound[%s]" % tok, act1 == "ast_shortcuts::%s(Meta::new(s,e),variable)" % f, "action: %s" % act, (GR, a["line"]))
    ctx.floor(R, "compound assignment productions", n, 14)
    # loops and branches
    st2 = nts.get("ParseStatement2")
    if st2 is None:
        return ctx.missing(R, "grammar/ParseStatement2")
    fors = [a for a in st2["alts"] if a["symbols"] and any(s["kind"] == "str" and s["value"] == "for" for s in a["symbols"])]
    ctx.floor(R, "for productions", len(fors), 2)
    for i, a in enumerate(fors):
        names = [s["name"] for s in a["symbols"] if s["name"] and s["kind"] == "nt"]
        act = (a["action"] or "").replace(" ", "")
        lt1 = (grammar.leaf_texts(a) or [None])
        act1 = lt1[0] if len(lt1) == 1 else act
        ok = names == ["init", "cond", "step", "body"] and act1 == "ast_shortcuts::for_into_while(Meta::new(s,e),init,cond,step,body)"
        # the header order in the source text: init ; cond ; step
        seq = [s["text"] if s["kind"] == "str" else s["name"] for s in a["symbols"] if s["kind"] in ("str", "nt")]
        ok = ok and seq == ['"for"', '"("', "init", '";"', "cond", '";"', "step", '")"', "body"]
        ctx.check(R, "grammar/for[%d]" % (i + 1), ok, "symbols %s ; action %s" % (seq, act), (GR, a["line"]))
    wh = [a for a in st2["alts"] if any(s["kind"] == "str" and s["value"] == "while" for s in a["symbols"])]
    for a in wh:
        act = (a["action"] or "").replace(" ", "")
        lt1 = (grammar.leaf_texts(a) or [None])
        act1 = lt1[0] if len(lt1) == 1 else act
        seq = [s["text"] if s["kind"] == "str" else s["name"] for s in a["symbols"] if s["kind"] in ("str", "nt")]
        ctx.check(R, "grammar/while", act1 == "build_while_block(Meta::new(s,e),cond,stmt)" and seq == ['"while"', '"("', "cond", '")"', "stmt"], "symbols %s ; action %s" % (seq, act), (GR, a["line"]))
    ctx.floor(R, "while productions", len(wh), 1)
    n = 0
    for ntn in ("ParseStmt0NB", "ParseStatement1"):
        nt = nts.get(ntn)
        if nt is None:
            ctx.missing(R, "grammar/" + ntn)
            continue
        for a in nt["alts"]:
            if not any(s["kind"] == "str" and s["value"] == "if" for s in a["symbols"]):
                continue
            n += 1
            act = (a["action"] or "").replace(" ", "")
            lt1 = (grammar.leaf_texts(a) or [None])
            act1 = lt1[0] if len(lt1) == 1 else act
            names = [s["name"] for s in a["symbols"] if s["name"] and s["kind"] == "nt"]
            if "else_case" in names:
                ok = names == ["cond", "if_case", "else_case"] and act1 == "build_conditional_block(Meta::new(s,e),cond,if_case,Some(else_case))"
            else:
                ok = names == ["cond", "if_case"] and act1 == "build_conditional_block(Meta::new(s,e),cond,if_case,None)"
            ctx.check(R, "grammar/if[%s#%d]" % (ntn, n), ok, "bindings %s ; action %s" % (names, act), (GR, a["line"]))
    ctx.floor(R, "if productions", n, 4)
    # the builders put the parts in the right fields
    for name, want in (("build_conditional_block", "IfThenElse { cond: cond, else_case: else_case, if_case: if_case, meta: meta }"), ("build_while_block", "While { cond: cond, meta: meta, stmt: stmt }"), ("build_block", "Block { meta: meta, stmts: stmts }")):
        b = terms.builders().get(name)
        got = terms.norm(b[1]) if b else None
        ctx.check(R, "builder/" + name, got == want, "%s ; expected %s" % (got, want))
    el = nts.get("ParseElse")
    if el is not None and el["alts"]:
        ctx.check(R, "grammar/else", (el["alts"][0]["action"] or "").replace(" ", "") == "else_case", el["alts"][0]["action"])


IRL = "program_structure/src/intermediate_representation/lifting.rs"
IRF = "program_structure/src/intermediate_representation/ir.rs"


def rule_kind_tables(ctx, R="C13.4"):
    ctx.rule(R, "the lifting keeps operators and kinds: every arm of the AST-to-IR tables for infix / prefix opcodes, assignment operators, signal and variable types maps a variant to the IR variant of the same name (or, where the IR renamed it, to a variant no other arm maps to), and every AST variant has an arm")
    import a10
    from astlib import fns_in_file, last, pat_paths

    n = 0
    for q, f in fns_in_file(IRL):
        m_ = re.search(r"TryLift<\(\)>\s*for\s*(?:ast::)?(\w+)", q)
        if not m_ or f["name"] != "try_lift" or not f.get("body"):
            continue
        en = m_.group(1)
        if en not in ("ExpressionInfixOpcode", "ExpressionPrefixOpcode", "AssignOp", "SignalType", "VariableType"):
            continue
        src = a10.enum_def("program_structure/src/abstract_syntax_tree/ast.rs", en)
        ms = [m for m in walk(f["body"]) if m["k"] == "Match"]
        if not ms or src is None:
            ctx.missing(R, "lifting/%s" % en)
            continue
        targets = {}
        for a in ms[0]["arms"]:
            b = strip(a["body"])
            tgt = None
            if b["k"] == "Call" and render(b["func"]) == "Ok" and strip(b["args"][0])["k"] == "Path":
                tgt = last(strip(b["args"][0])["path"])
            for pth in pat_paths(a["pat"]):
                targets[last(pth)] = (tgt, a)
        ir_en = None
        for cand in (en, {"VariableType": "VariableType"}.get(en, en)):
            ir_en = a10.enum_def(IRF, cand) or ir_en
        for v in src:
            n += 1
            if v not in targets:
                ctx.bad(R, "lifting/%s::%s/has-an-arm" % (en, v), "no arm for this variant", site(IRL, f))
                continue
            tgt, arm = targets[v]
            if tgt is None:
                ctx.ok(R, "lifting/%s::%s/kept" % (en, v), "compound arm (payload lifted)", site(IRL, arm))
                continue
            same = ir_en is not None and v in ir_en
            others = [o for o, (t2, _a) in targets.items() if o != v and t2 == tgt]
            ok = (tgt == v) if same else not others
            ctx.check(R, "lifting/%s::%s/kept" % (en, v), ok, "%s::%s is lifted to %s%s" % (en, v, tgt, (" (also the image of %s)" % others) if others else ""), site(IRL, arm))
    ctx.floor(R, "opcode / kind table rows", n, 30)


def run(ctx):
    rule_expansions(ctx)
    rule_tokens(ctx)
    rule_kind_tables(ctx)
    ctx.rules["C13.3"] = "the lifting turns while/if into header/branch blocks with the targets and fall-through sets of C12.2 (shared rule)"
    sub = type(ctx)(ctx.pid, ctx.tier)
    c12.rule_lifting(sub)
    c12.rule_complete(sub)
    for o in sub.obs:
        ctx._add("C13.3", o.key.split("/", 1)[1], o.ok, o.detail, o.site)
