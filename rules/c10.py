"""C10 Names resolve by lexical scope, and every shadowing declaration is reported."""
import re

import a10
import c13
import c14
from astlib import calls, find_fn, fns_in_file, last, method_calls, pat_paths, render, site, strip, walk
from pathcond import conditions_to, fact_str, facts_str, let_env

TITLE = "Scopes and shadowing"
LEVEL_TEXT = (
    "scopes are opened and closed in pairs around every block and nowhere else; every occurrence of a name is renamed through the"
    " current scoped version and every child is visited; the `name.N` writer and its reader agree on a separator outside the"
    " identifier alphabet; the SSA version key is injective; a declaration is looked up before it is recorded and the shadowing"
    " report is pushed exactly on a hit; parameters are recorded as declarations and collisions are errors; the `for` body keeps"
    " its own scope.; the declaration environment (versions none, 0, 1, 2; parameters declared at the parameter list; a repeated parameter is the collision error) and Parameters::new (one entry per declared parameter) are evaluated. Parameters::contains is evaluated (a shadowing local of a parameter's base name is not the parameter); no return leaves a renaming arm before every child was visited."
)
NOT_DECIDED = "that every use resolves to the innermost preceding declaration for every program (follows from the discipline checked here, not decided separately)."
ENGINE = "mirfacts+astq"
TRUSTED = ["syn parser", "identifier alphabet read from the grammar", "rustc MIR (engines/mirfacts) for C10.10"]

UV = "program_structure/src/control_flow_graph/unique_vars.rs"
LI = "program_structure/src/intermediate_representation/lifting.rs"
AST = "program_structure/src/abstract_syntax_tree/ast.rs"
ENVF = "program_structure/src/utils/environment.rs"


def line_of(n):
    return n.get("mline", n.get("line", 0))


def rule_scopes(ctx):
    R = "C10.1"
    ctx.rule(R, "a variable block is opened before and closed after the statements of every Block, unconditionally, and no other statement kind opens or closes one; opening / closing a block applies to both the declaration and the version environment")
    fn = find_fn(UV, "visit_statement")
    if fn is None:
        return ctx.missing(R, "unique_vars::visit_statement")
    ms = [m for m in walk(fn["body"]) if m["k"] == "Match" and render(strip(m["scrut"])) == "stmt"]
    if not ms:
        return ctx.missing(R, "visit_statement/match")
    n = 0
    for arm in ms[0]["arms"]:
        variants = [last(p) for p in pat_paths(arm["pat"])]
        add = list(method_calls(arm["body"], "add_variable_block"))
        rem = list(method_calls(arm["body"], "remove_variable_block"))
        if "Block" in variants:
            n += 1
            ok = len(add) == 1 and len(rem) == 1
            ctx.check(R, "visit_statement/Block/paired", ok, "open x%d close x%d" % (len(add), len(rem)), site(UV, arm))
            if ok:
                ca = conditions_to(arm["body"], add[0]) or []
                cr = conditions_to(arm["body"], rem[0]) or []
                ctx.check(R, "visit_statement/Block/unconditional", not ca and not cr, "open under %s, close under %s" % (facts_str(ca), facts_str(cr)), site(UV, arm))
                vis = list(calls(arm["body"], "visit_statement"))
                okv = len(vis) == 1 and line_of(add[0]) < line_of(vis[0]) < line_of(rem[0])
                ctx.check(R, "visit_statement/Block/children-inside-the-scope", okv, "open < visit children < close", site(UV, arm))
                exits_ = [x for x in walk(arm["body"]) if x["k"] in ("Return", "Break", "Continue", "Try")]
                ctx.check(R, "visit_statement/Block/no-exit-between", not exits_, "an early exit would leave the scope open", site(UV, arm))
        else:
            ctx.check(R, "visit_statement/%s/no-scope-change" % "|".join(variants), not add and not rem, "open x%d close x%d" % (len(add), len(rem)), site(UV, arm))
    ctx.floor(R, "scope pairs", n, 1)
    for nm in ("add_variable_block", "remove_variable_block"):
        f = find_fn(UV, nm, "DeclarationEnvironment")
        if f is None:
            ctx.missing(R, "DeclarationEnvironment::" + nm)
            continue
        from astlib import simplify_body

        t = render(simplify_body(f["body"])).replace(" ", "")  # destructuring of self reads as projections
        ctx.check(R, "DeclarationEnvironment::%s/both-environments" % nm, ("self.declarations.%s()" % nm) in t and ("self.scoped_versions.%s()" % nm) in t and ("global_versions.%s" % nm) not in t, t, site(UV, f))


def eval_renaming(ctx, R):
    """The unique-variable renaming by evaluation: every statement and expression kind is built with variable leaves
    `x[y]` in each child position, the environment says `x` and `y` are currently version 7 and `z` has none; after the
    visit every occurrence of x / y in the node - assigned (whatever the assignment operator), read, indexed - reads
    `x.7` / `y.7`, exactly once, and `z` is left alone.  Returns True when decided."""
    import passeval
    from finfun import E, NONE, S, Unsupported
    from passeval import O, Panic, Sink, V

    try:
        w = passeval.PassWorld([AST, UV], UV)
    except Exception:  # noqa: BLE001
        return False
    w.lenient_opaque = True
    vs, ve = w.free.get("visit_statement"), w.free.get("visit_expression")
    if vs is None or ve is None:
        return False
    env = ("O", "environment", (("get_current_version", ("PY", lambda n_: S("Some", 7) if n_ in ("x", "y") else NONE)), ("get_declaration", ("PY", lambda n_: NONE)), ("add_declaration", ("PY", lambda *a: NONE)),
                                ("add_variable_block", ("PY", lambda: ("T", ()))), ("remove_variable_block", ("PY", lambda: ("T", ())))))

    def leaf(nm="x"):
        return V("Expression", "Variable", meta=O("m"), name=nm, access=("L", (S("ArrayAccess", V("Expression", "Variable", meta=O("m"), name="y", access=("L", ()))), S("ComponentAccess", "out"))))

    def names_in(x, out, depth=0):
        if depth > 12:
            return
        if isinstance(x, tuple) and len(x) > 3 and x[0] == "V" and isinstance(x[3], dict):
            if x[2] == "Variable":
                out.append(x[3].get("name"))
            if x[2] == "Substitution":
                out.append(x[3].get("var"))
            for v_ in x[3].values():
                names_in(v_, out, depth + 1)
        elif isinstance(x, Sink):
            for v_ in x.items:
                names_in(v_, out, depth + 1)
        elif isinstance(x, tuple) and x and x[0] in ("L",):
            for v_ in x[1]:
                names_in(v_, out, depth + 1)
        elif isinstance(x, tuple) and len(x) > 2 and x[0] == "S" and isinstance(x[2], tuple):
            for v_ in x[2]:
                names_in(v_, out, depth + 1)

    decided = 0
    all_decided = True
    for enum, fn in (("Statement", vs), ("Expression", ve)):
        d = a10.enum_def(AST, enum)
        for vname, vdef in d.items():
            if vname == "Declaration":
                continue  # the declaration arm creates versions; decided by C10.4
            variants = [None]
            if vname == "Substitution":
                variants = ["AssignVar", "AssignSignal", "AssignConstraintSignal"]
            problems, unsupported = [], None
            for opv in variants:
                fields = {}
                for f in vdef["fields"]:
                    nm, ty = f["name"], f["ty"].replace(" ", "")
                    if ty in ("Expression", "Box<Expression>"):
                        fields[nm] = leaf()
                    elif ty == "Vec<Expression>":
                        fields[nm] = ("L", (leaf(), leaf("z")))
                    elif ty in ("Statement", "Box<Statement>"):
                        fields[nm] = V("Statement", "Return", meta=O("m"), value=leaf())
                    elif ty == "Vec<Statement>":
                        fields[nm] = ("L", (V("Statement", "Return", meta=O("m"), value=leaf()), V("Statement", "Assert", meta=O("m"), arg=leaf("z"))))
                    elif ty == "Option<Box<Statement>>":
                        fields[nm] = S("Some", V("Statement", "Return", meta=O("m"), value=leaf()))
                    elif ty == "Vec<Access>":
                        fields[nm] = ("L", (S("ArrayAccess", leaf()), S("ComponentAccess", "in")))
                    elif ty == "Vec<LogArgument>":
                        fields[nm] = ("L", (S("LogStr", "text"), S("LogExp", leaf())))
                    elif ty == "AssignOp":
                        fields[nm] = E("AssignOp", opv or "AssignVar")
                    elif ty == "String":
                        fields[nm] = "x"
                    elif ty == "Option<Vec<(AssignOp,String)>>":
                        fields[nm] = S("Some", ("L", (("T", (E("AssignOp", "AssignSignal"), "in")),)))
                    elif ty == "bool":
                        fields[nm] = False
                    else:
                        fields[nm] = O("%s.%s" % (vname, nm))
                tuple_like = all((f.get("name") or "").isdigit() for f in vdef["fields"])
                node = S(vname, *[fields[f["name"]] for f in vdef["fields"]]) if tuple_like else V(enum, vname, **fields)
                try:
                    w.call_fn(fn, [node, env] + ([Sink()] if enum == "Statement" else []))
                except Unsupported as u:
                    unsupported = str(u)
                    break
                except Panic as p_:
                    problems.append("panics (%s)" % p_)
                    continue
                got = []
                names_in(node, got)
                for g in got:
                    if g in ("x", "y"):
                        problems.append("an occurrence of `%s` is left unrenamed%s" % (g, (" (assignment with %s)" % opv) if opv else ""))
                    elif isinstance(g, str) and g not in ("x.7", "y.7", "z"):
                        problems.append("an occurrence reads `%s`" % g)
            if unsupported:
                ctx.note("unique_vars %s::%s: outside the evaluator's subset (%s): shape obligations apply" % (enum, vname, unsupported))
                all_decided = False
                continue
            decided += 1
            ctx.check(R, "%s/%s/every-occurrence-renamed" % ("visit_statement" if enum == "Statement" else "visit_expression", vname), not problems, "; ".join(sorted(set(problems))[:2]) or "x / y read x.7 / y.7 everywhere below the node, once; z untouched", site(UV, fn))
    # the declaration arm: the declared name takes the version the environment hands out (none for a first declaration);
    # the dimensions are renamed like any other expression
    decl_ok = None
    if "Declaration" in a10.enum_def(AST, "Statement"):
        probs = []
        try:
            for handed in (None, 3):
                envd = ("O", "environment", (("get_current_version", ("PY", lambda n_: S("Some", 7) if n_ in ("x", "y") else NONE)), ("get_declaration", ("PY", lambda n_: NONE)),
                                             ("add_declaration", ("PY", lambda *a, handed=handed: NONE if handed is None else S("Some", handed))), ("add_variable_block", ("PY", lambda: ("T", ()))), ("remove_variable_block", ("PY", lambda: ("T", ())))))
                node = V("Statement", "Declaration", meta=O("m", file_id=NONE, file_location=O("loc")), xtype=O("xtype"), name="d", dimensions=("L", (leaf(),)), is_constant=False)
                w.call_fn(vs, [node, envd, Sink()])
                want = "d" if handed is None else "d.3"
                if node[3].get("name") != want:
                    probs.append("a declaration whose name %s is now called `%s`, expected `%s`" % ("is new" if handed is None else "gets version 3", node[3].get("name"), want))
                got = []
                names_in(node[3].get("dimensions"), got)
                if sorted(got) != ["x.7", "y.7"]:
                    probs.append("the names in the dimensions read %s" % sorted(got))
            decl_ok = not probs
            ctx.check(R, "visit_statement/Declaration/renamed-with-its-new-version", not probs, "; ".join(probs) or "the declared name takes the version handed out by the environment; dimensions are renamed", site(UV, vs))
        except Unsupported as u:
            ctx.note("unique_vars Statement::Declaration: outside the evaluator's subset (%s): shape obligations apply" % u)
        except Panic as p_:
            decl_ok = False
            ctx.bad(R, "visit_statement/Declaration/renamed-with-its-new-version", "panics (%s)" % p_, site(UV, vs))
    ctx.floor(R, "node kinds whose renaming was evaluated", decided, 15)
    eval_renaming.declaration_decided = decl_ok is not None
    return decided >= 15 and all_decided


def rule_renaming(ctx):
    R = "C10.2"
    ctx.rule(R, "every occurrence of a name (declared, assigned, read, named input) is renamed through the current scoped version, and the renaming visits every child of every statement and expression kind")
    n = a10.check(ctx, R, UV, "visit_statement", None, AST, "Statement", {"visit_statement", "visit_expression"}, scrutinee="stmt")
    n += a10.check(ctx, R, UV, "visit_expression", None, AST, "Expression", {"visit_expression"}, scrutinee="expr")
    ctx.floor(R, "children", n, 30)
    decided_ren = eval_renaming(ctx, R)
    # renaming sites, in either spelling:
    #   *x = match env.get_current_version(x) { Some(version) => format!("{x}.{version}"), None => x.clone() }
    #   if let Some(version) = env.get_current_version(x) { *x = format!("{x}.{version}") }
    sites = 0
    from astlib import block_tail

    def fmt_of(e, tgt, vb):
        fm = render(strip(e)).replace(" ", "")
        return re.fullmatch(r'format!\("\{%s\}\.\{%s\}"\)' % (re.escape(tgt), vb), fm) is not None or re.fullmatch(r'format!\("\{\}\.\{\}",%s,%s\)' % (re.escape(tgt), vb), fm) is not None

    for fname in (("visit_statement", "visit_expression") if not decided_ren else ()):
        fn = find_fn(UV, fname)
        if fn is None:
            continue
        for a in walk(fn["body"]):
            if a["k"] != "Assign" or a["l"]["k"] != "Unary" or a["l"].get("op") != "*":
                continue
            tgt = render(a["l"]["e"])
            if a["r"]["k"] == "Match":
                scr = render(a["r"]["scrut"]).replace(" ", "")
                sites += 1
                arms = {render(x["pat"]).replace(" ", ""): (strip(block_tail(x["body"]) if x["body"]["k"] == "Block" and block_tail(x["body"]) is not None else x["body"])) for x in a["r"]["arms"]}
                some_arm = [k for k in arms if re.fullmatch(r"Some\((\w+)\)", k)]
                vb = re.fullmatch(r"Some\((\w+)\)", some_arm[0]).group(1) if len(some_arm) == 1 else "?"
                fmt_ok = bool(some_arm) and fmt_of(arms[some_arm[0]], tgt, vb)
                none_ = render(arms["None"]).replace(" ", "") if "None" in arms else None
                ok = scr == "env.get_current_version(%s)" % tgt and fmt_ok and none_ in ("%s.to_string()" % tgt, "%s.clone()" % tgt, tgt)
                ctx.check(R, "%s/rename[%s]" % (fname, tgt), ok, "%s = match %s { %s }" % (tgt, scr, {k: render(v) for k, v in arms.items()}), site(UV, a))
            elif a["r"]["k"] == "If" and a["r"]["cond"]["k"] == "Let" and a["r"].get("else") is not None:
                c_ = a["r"]["cond"]
                mm_ = re.fullmatch(r"Some\((\w+)\)", render(c_["pat"]).replace(" ", ""))
                scr = render(strip(c_["e"])).replace(" ", "")
                if not mm_ or scr != "env.get_current_version(%s)" % tgt:
                    continue
                sites += 1
                th = strip(block_tail(a["r"]["then"]) if a["r"]["then"]["k"] == "Block" and block_tail(a["r"]["then"]) is not None else a["r"]["then"])
                el = strip(block_tail(a["r"]["else"]) if a["r"]["else"]["k"] == "Block" and block_tail(a["r"]["else"]) is not None else a["r"]["else"])
                ok = fmt_of(th, tgt, mm_.group(1)) and render(el).replace(" ", "") in ("%s.to_string()" % tgt, "%s.clone()" % tgt, tgt)
                ctx.check(R, "%s/rename[%s]" % (fname, tgt), ok, "%s = if let Some(%s) = %s { %s } else { %s }" % (tgt, mm_.group(1), scr, render(th)[:60], render(el)[:40]), site(UV, a))
            elif a["r"]["k"] == "Macro":
                cs = conditions_to(fn["body"], a) or []
                vbs = [re.fullmatch(r"Some\((\w+)\)", render(c[1]).replace(" ", "")) for c in cs if c[0] == "iflet" and c[3] and render(strip(c[2])).replace(" ", "") == "env.get_current_version(%s)" % tgt]
                vbs = [m_.group(1) for m_ in vbs if m_]
                if not vbs:
                    continue  # not a renaming through the scoped version (the Declaration arm is checked below)
                sites += 1
                ctx.check(R, "%s/rename[%s]" % (fname, tgt), fmt_of(a["r"], tgt, vbs[-1]), "if let Some(%s) = env.get_current_version(%s) { %s }" % (vbs[-1], tgt, render(a)[:80]), site(UV, a))
    if not decided_ren:
        ctx.floor(R, "renaming sites", sites, 3)
    # Declaration: name replaced by name.version on Some(version)
    fn = find_fn(UV, "visit_statement")
    if fn is not None and not getattr(eval_renaming, "declaration_decided", False):
        asg = [a for a in walk(fn["body"]) if a["k"] == "Assign" and render(a["l"]).replace(" ", "") == "*name" and a["r"]["k"] == "Macro"]
        ok = len(asg) == 1 and asg[0]["r"]["raw"].replace(" ", "") == '"{name}.{version}"'
        ctx.check(R, "visit_statement/Declaration/renamed-with-its-new-version", ok, render(asg[0])[:100] if asg else "no renaming", site(UV, fn))


def rule_separator(ctx):
    R = "C10.3"
    ctx.rule(R, "the renaming writes `name.N` and the lifting splits at the same separator, which cannot occur in an identifier; the SSA version key is injective in (name, suffix)")
    alpha = c14.identifier_alphabet()
    if alpha is None:
        return ctx.missing(R, "grammar/IDENTIFIER")
    rx, chars = alpha
    ctx.table("identifier alphabet", {"regex": rx, "size": len(chars)})
    # writer separators
    seps = set()
    for fname in ("visit_statement", "visit_expression"):
        fn = find_fn(UV, fname)
        if fn is None:
            continue
        for m in walk(fn["body"]):
            if m["k"] == "Macro" and m["name"] == "format":
                mm = re.fullmatch(r'"\{(\w+)\}(.)\{version\}"', m["raw"].replace(" ", ""))
                if mm:
                    seps.add(mm.group(2))
    ctx.check(R, "unique_vars/writer-separator", len(seps) == 1, "separators used by the renaming: %s" % sorted(seps), UV)
    # reader: String::try_lift in ir/lifting.rs splits
    rd = None
    for q, f in fns_in_file(LI):
        if f["name"] == "try_lift" and re.search(r"for\s+String|for\s+&?str", q):
            rd = f
    rsep = None
    if rd is None:
        ctx.missing(R, "String::try_lift (reader of the suffix)")
    else:
        for m in method_calls(rd["body"]):
            if m["method"] in ("split", "split_once", "rsplit_once", "splitn", "rsplit") and m["args"]:
                a = strip(m["args"][-1])
                if a["k"] == "Lit":
                    rsep = a["value"]
        ctx.check(R, "lifting/reader-separator", rsep is not None and seps == {rsep}, "reader splits at %r, writer uses %s" % (rsep, sorted(seps)), site(LI, rd))
    # the reader is the only place of the lifting that turns a source string into a name
    nfs = 0
    for q, f in fns_in_file(LI):
        if not f.get("body") or "tests" in q:
            continue
        for c in walk(f["body"]):
            if c["k"] == "Call" and c["func"]["k"] == "Path" and re.search(r"(^|::)VariableName::from_string$", c["func"]["path"]):
                nfs += 1
                inside = rd is not None and f is rd
                ctx.check(R, "lifting/%s/name-built-by-the-suffix-reader" % (q.replace(" ", "") + "::" + f["name"]), inside, "VariableName::from_string(..) in the lifting %s: a renamed variable (`n.0`) must go through String::try_lift, which splits the suffix off - otherwise the use refers to a variable nobody declared" % ("(the reader itself)" if inside else "outside String::try_lift"), site(LI, c))
            if c["k"] == "Path" and re.search(r"(^|::)VariableName::from_string$", c["path"]) and not any(x is c for cc in walk(f["body"]) if cc["k"] == "Call" for x in [cc["func"]]):
                nfs += 1
                ctx.bad(R, "lifting/%s/name-built-by-the-suffix-reader" % (q.replace(" ", "") + "::" + f["name"]), "VariableName::from_string used as a function value in the lifting", site(LI, c))
    ctx.floor(R, "from_string sites in the lifting", nfs, 1)
    for s in seps:
        ctx.check(R, "unique_vars/separator-outside-identifier-alphabet", s not in chars, "separator %r, identifier regex %s" % (s, rx), UV)
    c14.rule_keys(ctx, R)


def rule_shadowing(ctx):
    R = "C10.4"
    ctx.rule(R, "a declaration is looked up before it is recorded and the shadowing report is pushed exactly when the lookup hits; parameters are recorded as declarations (so locals redeclaring them are reported) and a repeated parameter is an error")
    fn = find_fn(UV, "visit_statement")
    if fn is None:
        return ctx.missing(R, "unique_vars::visit_statement")
    ms = [m for m in walk(fn["body"]) if m["k"] == "Match" and render(strip(m["scrut"])) == "stmt"]
    arm = [a for a in ms[0]["arms"] if "Declaration" in [last(p) for p in pat_paths(a["pat"])]] if ms else []
    if len(arm) != 1:
        return ctx.missing(R, "visit_statement/Declaration")
    body = arm[0]["body"]
    get = list(method_calls(body, "get_declaration"))
    add = list(method_calls(body, "add_declaration"))
    push = [p for p in method_calls(body, "push") if render(strip(p["recv"])) == "reports"]
    ok = len(get) == 1 and len(add) == 1 and len(push) == 1
    ctx.check(R, "Declaration/shape", ok, "lookup x%d record x%d report x%d" % (len(get), len(add), len(push)), site(UV, arm[0]))
    if ok:
        ctx.check(R, "Declaration/lookup-before-record", line_of(get[0]) < line_of(add[0]), "the previous declaration must be looked up before the new one replaces it", site(UV, arm[0]))
        cs = [fact_str(c).replace(" ", "") for c in (conditions_to(body, push[0]) or [])]
        mdecl = re.fullmatch(r"\(letSome\((\w+)\)=env\.get_declaration\(name\)\)", cs[0]) if len(cs) == 1 else None
        dname = mdecl.group(1) if mdecl else "declaration"
        ctx.check(R, "Declaration/report-iff-visible-declaration", mdecl is not None, "report under %s" % cs, site(UV, push[0]))
        ctx.check(R, "Declaration/report-names-both-declarations", render(push[0]["args"][0]).replace(" ", "") == "build_report(name,meta,%s)" % dname, render(push[0])[:100], site(UV, push[0]))
        ca = [fact_str(c) for c in (conditions_to(body, add[0]) or []) if c[0] != "arm"]
        ctx.check(R, "Declaration/always-recorded", not ca, "add_declaration under %s" % ca, site(UV, add[0]))
        ctx.check(R, "Declaration/recorded-under-the-source-name", render(strip(add[0]["args"][0])) == "name" and line_of(add[0]) <= min([line_of(a) for a in walk(body) if a["k"] == "Assign" and render(a["l"]).replace(" ", "") == "*name"] or [10 ** 9]), "the declaration is recorded under the name as written, before the renaming", site(UV, add[0]))
        # the size expressions of `var n[n]` still see the outer `n`: they are renamed before the new name is recorded
        binds, _rest = a10.pattern_bindings(arm[0]["pat"])
        dn = binds.get("dimensions")
        if not dn or dn == "<pattern>":
            ctx.bad(R, "Declaration/sizes-renamed-before-the-name-is-recorded", "the dimensions are not bound in the Declaration arm", site(UV, arm[0]))
        else:
            reach = a10.alias_closure(body, dn)
            vis = [c for c in calls(body, "visit_expression") if {p_["path"] for p_ in walk(c["args"][0]) if p_["k"] == "Path"} & reach] if True else []
            vis += [m for m in walk(body) if m["k"] == "MethodCall" and m["method"] in ("for_each", "map") and {p_["path"] for p_ in walk(m["recv"]) if p_["k"] == "Path"} & reach and "visit_expression" in render(m)]
            late = [v for v in vis if line_of(v) >= line_of(add[0])]
            ctx.check(R, "Declaration/sizes-renamed-before-the-name-is-recorded", bool(vis) and not late, "size expressions visited at %s, name recorded at line %s: a size that mentions the declared name (`var n[n]`) would resolve to the variable being declared" % ([line_of(v) for v in vis], line_of(add[0])), site(UV, arm[0]))
    # build_report: primary = new declaration, secondary = shadowed one
    br = find_fn(UV, "build_report")
    if br is not None:
        t = render(br["body"]).replace(" ", "")
        import sgrep
        from astlib import struct_literal_fields

        pvr = sgrep.params(br)
        lits = [l_ for l_ in struct_literal_fields(br, "ShadowingVariableWarning")]
        ok = False
        if len(lits) == 1 and len(pvr) == 3:
            f_ = lits[0]
            nm_, pm_, sd_ = pvr
            ok = f_.get("primary_file_id") == "%s.file_id" % pm_ and f_.get("primary_location") == "%s.file_location()" % pm_ and f_.get("secondary_file_id") == "%s.file_id()" % sd_ and f_.get("secondary_location") == "%s.file_location()" % sd_ and f_.get("name", "").startswith(nm_)
        ctx.check(R, "build_report/locations", ok, t[:200], site(UV, br))
    # add_declaration records + versions
    ad = find_fn(UV, "add_declaration", "DeclarationEnvironment")
    if ad is not None:
        t = render(ad["body"]).replace(" ", "")
        import sgrep
        pva = sgrep.params(ad)
        from astlib import block_tail
        tl_ = block_tail(ad["body"])
        oka = len(pva) == 3 and sgrep.has(ad["body"], "self.declarations.add_variable(__n, Declaration::new(__f, __l))", sgrep.lets(ad["body"]), {"__n": pva[0], "__f": pva[1], "__l": pva[2]}) and tl_ is not None and sgrep.match(sgrep.pattern("self.get_next_version(__n)"), tl_, {"__n": pva[0]})
        ctx.check(R, "DeclarationEnvironment::add_declaration/records-and-versions", oka, t[:200], site(UV, ad))
        # the innermost declaration replaces what was visible: recorded on every call, whatever is already there
        recs = [m_ for m_ in method_calls(ad["body"], "add_variable") if "declarations" in render(m_["recv"])]
        cs_ = facts_str(conditions_to(ad["body"], recs[0]) or []) if len(recs) == 1 else ["?"]
        ctx.check(R, "DeclarationEnvironment::add_declaration/recorded-unconditionally", len(recs) == 1 and not cs_, "declarations.add_variable under %s: an inner redeclaration would be reported against (and resolve to) an outer declaration" % cs_, site(UV, ad))
    gd = find_fn(UV, "get_declaration", "DeclarationEnvironment")
    if gd is not None:
        t = render(gd["body"]).replace(" ", "")
        import sgrep
        pvg = sgrep.params(gd)
        ctx.check(R, "DeclarationEnvironment::get_declaration", bool(pvg) and sgrep.has(gd["body"], "self.declarations.get_variable(__n)", sgrep.lets(gd["body"]), {"__n": pvg[0]}), t, site(UV, gd))
    decl_decided = eval_declaration_env(ctx, R)  # the shape obligations on get_next_version / try_from are its fallback
    gn = find_fn(UV, "get_next_version", "DeclarationEnvironment") if not decl_decided else None
    if gn is not None:
        ms2 = [m for m in walk(gn["body"]) if m["k"] == "Match" and "global_versions" in render(m["scrut"])]
        import alpha

        tab = alpha.arm_table(ms2[0]) if ms2 else {}
        ctx.check(R, "DeclarationEnvironment::get_next_version/table", tab == {"None": "None", "Some(None)": "Some(0)", "Some(Some(b1))": "Some((b1+1))"}, str(tab), site(UV, gn))
        t = render(gn["body"]).replace(" ", "")
        import sgrep
        pvn_ = sgrep.params(gn)
        okgs = bool(pvn_) and sgrep.has(gn["body"], "self.global_versions.add_variable(__n, __v)", None, {"__n": pvn_[0]}) and sgrep.has(gn["body"], "self.scoped_versions.add_variable(__n, __w)", None, {"__n": pvn_[0]})
        ctx.check(R, "DeclarationEnvironment::get_next_version/global-then-scoped", okgs, "", site(UV, gn))
        # the scoped version is *added to the current block* (so that it disappears with the block), exactly when there is one
        sc = [m_ for m_ in method_calls(gn["body"], "add_variable") if "scoped_versions" in render(m_["recv"])]
        inplace = [render(m_)[:60] for m_ in walk(gn["body"]) if m_["k"] == "MethodCall" and m_["method"] in ("get_mut_variable", "get_mut", "insert", "entry") and "scoped_versions" in render(m_["recv"])]
        conds_ = (conditions_to(gn["body"], sc[0]) or []) if len(sc) == 1 else None
        only_some = conds_ is not None and len(conds_) == 1 and ((conds_[0][0] == "iflet" and conds_[0][3] and render(conds_[0][1]).replace(" ", "").startswith("Some(")) or (conds_[0][0] == "arm" and render(conds_[0][2]).replace(" ", "").startswith("Some(")))
        ctx.check(R, "DeclarationEnvironment::get_next_version/scoped-version-added-to-the-current-block", bool(only_some) and not inplace, "scoped add under %s; in-place updates of outer scopes: %s" % (facts_str(conds_) if conds_ is not None else "?", inplace), site(UV, gn))
    # parameters
    tf = None
    for q, f in fns_in_file(UV):
        if f["name"] == "try_from" and "DeclarationEnvironment" in q:
            tf = f
    if decl_decided:
        pass
    elif tf is None:
        ctx.missing(R, "TryFrom<&Parameters> for DeclarationEnvironment")
    else:
        import sgrep

        add = list(method_calls(tf["body"], "add_declaration"))
        lenv = sgrep.lets(tf["body"])
        pv = sgrep.params(tf)
        from astlib import block_tail

        tail = block_tail(tf["body"])
        bt = {}
        returned = sgrep.match(sgrep.pattern("Ok(__r)"), tail, bt) if tail is not None else False
        ok = len(add) == 1 and returned and render(strip(add[0]["recv"])) == bt.get("__r")
        conds = (conditions_to(tf["body"], add[0]) or []) if add else []
        cs = [fact_str(c).replace(" ", "") for c in conds]
        # the only condition is the loop over the parameter list, and the declared name is the loop variable
        loop_ok = len(conds) == 1 and conds[0][0] == "loop" and conds[0][1] == "for" and pv and render(strip(conds[0][3])).replace(" ", "") in (pv[0], pv[0] + ".iter()")
        if loop_ok:
            lv = render(conds[0][2]).replace("&", "").strip()
            loop_ok = sgrep.match(sgrep.pattern("%s.to_string()" % lv), add[0]["args"][0], {}, lenv) or render(strip(add[0]["args"][0])) == lv
        ctx.check(R, "parameters/recorded-as-declarations", bool(ok and loop_ok), "add_declaration on the returned environment for every parameter, under %s" % cs, site(UV, tf))
        rets = [r for r in walk(tf["body"]) if r["k"] == "Return"]
        okr = False
        if len(rets) == 1 and "ParameterNameCollisionError" in render(rets[0]):
            for c in conditions_to(tf["body"], rets[0]) or []:
                if c[0] == "if" and c[2] and sgrep.match(sgrep.pattern("__e.add_declaration(__a, __b, __c).is_some()"), c[1], {}, lenv):
                    okr = True
                if c[0] == "iflet" and c[3] and render(c[1]).startswith("Some(") and sgrep.match(sgrep.pattern("__e.add_declaration(__a, __b, __c)"), c[2], {}, lenv):
                    okr = True
        ctx.check(R, "parameters/collision-is-an-error", okr, render(rets[0])[:120] if rets else "no error return", site(UV, tf))
    eval_parameter_list(ctx, R)
    eu = find_fn(UV, "ensure_unique_variables")
    if eu is not None:
        t = render(eu["body"]).replace(" ", "")
        import sgrep
        pve = sgrep.params(eu)
        envn = [k for k, v in sgrep.lets(eu["body"]).items() if len(pve) == 3 and (sgrep.match(sgrep.pattern("__p.try_into()?"), v, {"__p": pve[1]}) or sgrep.match(sgrep.pattern("DeclarationEnvironment::try_from(__p)?"), v, {"__p": pve[1]}) or sgrep.match(sgrep.pattern("TryFrom::try_from(__p)?"), v, {"__p": pve[1]}))]
        oke = len(envn) == 1 and sgrep.has(eu["body"], "visit_statement(__s, __e, __r)", None, {"__s": pve[0], "__e": envn[0], "__r": pve[2]})
        ctx.check(R, "ensure_unique_variables/parameters-outermost", oke, t[:200], site(UV, eu))


def eval_declaration_env(ctx, R):
    """`DeclarationEnvironment` by evaluation (its scoped maps modelled): the versions handed out for repeated declarations
    of one name are none, 0, 1, 2 .. and the scoped version follows them inside the current block only; building the
    environment from a parameter list declares every parameter at the parameter list's location and is the collision
    error exactly when a name repeats.  Returns True when decided."""
    import passeval
    from finfun import NONE, S, Unsupported
    from passeval import O, Panic

    PF = "program_structure/src/control_flow_graph/parameters.rs"
    ER = "program_structure/src/control_flow_graph/errors.rs"
    try:
        w = passeval.PassWorld([ER, PF, UV], UV)
    except Exception:  # noqa: BLE001
        return False
    w.lenient_opaque = True
    if ("DeclarationEnvironment", "try_from") not in w.methods or ("DeclarationEnvironment", "add_declaration") not in w.methods or "Parameters" not in w.structs:
        return False
    envs = []

    def var_env(_n, _a):
        scopes = [{}]
        log = []

        def add(name, v):
            scopes[-1][name] = v
            log.append((len(scopes), name, v))
            return ("T", ())

        def get(name):
            for sc in reversed(scopes):
                if name in sc:
                    return S("Some", sc[name])
            return NONE

        o = ("O", "var-environment", (("add_variable", ("PY", add)), ("get_variable", ("PY", get)), ("add_variable_block", ("PY", lambda: (scopes.append({}), ("T", ()))[1])), ("remove_variable_block", ("PY", lambda: (scopes.pop(), ("T", ()))[1]))))
        envs.append((o, scopes, log))
        return o

    w.opaque = (("VarEnvironment::new", var_env),)
    bad = {}
    try:
        # the version table
        newf = w.methods[("DeclarationEnvironment", "new")][0]
        addf = w.methods[("DeclarationEnvironment", "add_declaration")][0]
        del envs[:]
        env = w.call_fn(newf, [])
        got = [w.call_fn(addf, [env, "x", NONE, O("loc%d" % i)]) for i in range(4)]
        want = [NONE, S("Some", 0), S("Some", 1), S("Some", 2)]
        if got != want:
            bad["versions"] = "four declarations of `x` are given the versions %s, expected none, 0, 1, 2" % [g[2][0] if isinstance(g, tuple) and len(g) > 2 and g[1] == "Some" else None for g in got]
        fields = w.structs["DeclarationEnvironment"]
        sv = [e_ for e_ in envs if e_[0] is env[2][fields.index("scoped_versions")]] if "scoped_versions" in fields else []
        if sv and [v_ for _d, n_, v_ in sv[0][2] if n_ == "x"] != [0, 1, 2]:
            bad["versions"] = bad.get("versions") or "the scoped version of `x` is set to %s, expected 0, 1, 2 (never for the unversioned first declaration)" % [v_ for _d, n_, v_ in sv[0][2] if n_ == "x"]
        # parameters
        tryf = w.methods[("DeclarationEnvironment", "try_from")][0]
        site_loc = O("location-of-the-parameter-list")
        for names in (("a", "b", "c"), ("a",), (), ("a", "b", "a"), ("n", "n")):
            del envs[:]
            params = S("Parameters", *[{"param_names": ("L", names), "file_id": S("Some", 3), "file_location": site_loc}[f_] for f_ in w.structs["Parameters"]])
            res = w.call_fn(tryf, [params])
            dup = len(set(names)) != len(names)
            is_err = isinstance(res, tuple) and len(res) > 2 and res[1] == "Err"
            if dup != is_err:
                bad["collision"] = "parameters (%s): %s" % (", ".join(names), "accepted although a name repeats" if dup else "rejected")
                continue
            if dup:
                first_dup = [n_ for i_, n_ in enumerate(names) if n_ in names[:i_]][0]
                er = res[2][0]
                if not (isinstance(er, tuple) and er[0] == "V" and er[2] == "ParameterNameCollisionError" and er[3].get("name") == first_dup and er[3].get("file_location") is site_loc):
                    bad["collision"] = "parameters (%s): the error is %s" % (", ".join(names), (er[2], er[3].get("name")) if isinstance(er, tuple) and er[0] == "V" else er)
                continue
            envv = res[2][0]
            decl = [e_ for e_ in envs if e_[0] is envv[2][w.structs["DeclarationEnvironment"].index("declarations")]]
            recorded = [n_ for _d, n_, _v in decl[0][2]] if decl else None
            if recorded != list(names):
                bad["recorded"] = "parameters (%s): the declarations recorded are %s" % (", ".join(names), recorded)
            elif any(not (isinstance(v_, tuple) and (v_[0] in ("S", "K")) and site_loc in (v_[2] if len(v_) > 2 else ())) for _d, _n, v_ in decl[0][2]):
                bad["recorded"] = "parameters (%s): a parameter is not declared at the location of the parameter list" % ", ".join(names)
    except Unsupported as u:
        ctx.note("DeclarationEnvironment is outside the evaluator's subset (%s): shape obligations apply" % u)
        return False
    except Panic as p_:
        ctx.bad(R, "DeclarationEnvironment/evaluated/no-panic", "panics: %s" % p_, UV)
        return True
    finally:
        w.opaque = ()
    ctx.check(R, "DeclarationEnvironment/evaluated/versions-none-0-1-2", "versions" not in bad, bad.get("versions") or "repeated declarations of a name get no version, then 0, 1, 2; the scoped version follows", UV)
    ctx.check(R, "parameters/evaluated/recorded-as-declarations", "recorded" not in bad, bad.get("recorded") or "every parameter is declared, in order, at the location of the parameter list", UV)
    ctx.check(R, "parameters/evaluated/collision-is-an-error", "collision" not in bad, bad.get("collision") or "a repeated parameter name is the collision error naming that parameter, anything else is accepted", UV)
    return True


def eval_parameter_list(ctx, R):
    """`Parameters::new` by evaluation: the parameter list handed to the uniqueness pass holds one name per declared
    parameter, in order - a name that is declared twice is there twice (that is what the collision error is raised
    from)."""
    import passeval
    from finfun import NONE, S, Unsupported
    from passeval import Panic, Sink

    PF = "program_structure/src/control_flow_graph/parameters.rs"
    try:
        w = passeval.PassWorld([PF], PF)
    except Exception as ex:  # noqa: BLE001
        return ctx.missing(R, "control_flow_graph/parameters.rs", str(ex))
    w.lenient_opaque = True
    key = ("Parameters", "new")
    if key not in w.methods or "Parameters" not in w.structs:
        return ctx.missing(R, "Parameters::new")
    fn = w.methods[key][0]
    w.stubs = {"from_string": lambda a: ("K", "variable-name", (a[0],))}
    bad = None
    n = 0
    for names in ((), ("a",), ("a", "b", "c"), ("a", "a", "b"), ("n", "m", "m"), ("c", "d", "c"), ("b", "a"), ("x", "x", "x", "y", "x")):
        try:
            res = w.call_fn(fn, [("L", names), NONE, ("O", "location", ())])
        except (Unsupported, Panic) as u:
            return ctx.missing(R, "Parameters::new/evaluation", "cannot be evaluated (fail closed): %s" % u)
        n += 1
        got = None
        if isinstance(res, tuple) and len(res) > 2 and res[0] == "S" and res[1] == "Parameters":
            for f_, v_ in zip(w.structs["Parameters"], res[2]):
                if isinstance(v_, Sink) or (isinstance(v_, tuple) and v_ and v_[0] == "L"):
                    items = list(v_.items) if isinstance(v_, Sink) else list(v_[1])
                    got = [x[2][0] if isinstance(x, tuple) and len(x) > 2 and x[0] == "K" and x[2] else x for x in items]
        if got != list(names):
            bad = bad or "declared (%s): the list holds %s" % (", ".join(names), got)
    ctx.check(R, "parameters/one-entry-per-declared-parameter", bad is None, bad or "%d parameter lists: one name per declared parameter, in order, repetitions included" % n, site(PF, fn))


def rule_for_scope(ctx):
    R = "C10.5"
    ctx.rule(R, "the body of a `for` keeps its own block (scope) and the step stands outside it, next to it")
    sub = type(ctx)(ctx.pid, ctx.tier)
    c13.rule_expansions(sub)
    for o in sub.obs:
        if "for_into_while" in o.key:
            ctx._add(R, o.key.split("/", 1)[1], o.ok, o.detail, o.site)


def rule_suffix_kept(ctx, R="C10.9"):
    ctx.rule(R, "the shadowing suffix is part of a variable's identity everywhere after the renaming: no code outside the definition of VariableName drops it (`without_suffix`), and the SSA environment asks for the kind of the name it is given")
    import facts as _facts

    n = 0
    for f in sorted(_facts.ast()):
        if not f.startswith(("program_structure/src/", "program_analysis/src/")) or f.startswith("program_structure_tests"):
            continue
        for q, fn in fns_in_file(f):
            if not fn.get("body") or "tests" in q:
                continue
            n += 1
            if f.endswith("intermediate_representation/ir.rs") and "VariableName" in q:
                continue
            hits = [m for m in walk(fn["body"]) if m["k"] == "MethodCall" and m["method"] == "without_suffix"]
            if hits:
                ctx.bad(R, "%s::%s/drops-the-suffix" % (f.rsplit("/", 1)[-1][:-3], fn["name"]), "`%s`: a renamed declaration (`n.0`) is then taken for the declaration it shadows" % render(hits[0])[:60], site(f, hits[0]))
    ctx.floor(R, "functions scanned for without_suffix", n, 400)
    isl = find_fn("program_structure/src/control_flow_graph/ssa_impl.rs", "is_local", "Environment")
    if isl is None:
        ctx.missing(R, "ssa Environment::is_local")
    else:
        import sgrep

        pv = sgrep.params(isl)
        gt = [m for m in walk(isl["body"]) if m["k"] == "MethodCall" and m["method"] in ("get_type", "get_declaration") and len(m["args"]) == 1]
        if not gt:
            gt = [m for x in walk(isl["body"]) if x["k"] == "Macro" and x.get("parsed") for a_ in x.get("args", []) for m in walk(a_) if m["k"] == "MethodCall" and m["method"] in ("get_type", "get_declaration") and len(m["args"]) == 1]
        ok = bool(pv) and len(gt) == 1 and render(strip(gt[0]["args"][0])).replace(" ", "").lstrip("&") == pv[0]
        ctx.check(R, "ssa Environment::is_local/kind-of-the-given-name", ok, "kind looked up for `%s`" % (render(gt[0]["args"][0]) if gt else "?"), site("program_structure/src/control_flow_graph/ssa_impl.rs", isl))


def eval_parameters_contains(ctx):
    """`Parameters::contains` by evaluation: a variable is a parameter only under its whole identity - a local that
    redeclares a parameter's name in an inner scope carries a shadowing suffix and is another variable."""
    R = "C10.12"
    ctx.rule(R, "`Parameters::contains` tells a parameter from a local of the same base name: evaluated on the parameter itself, on the same name with a shadowing suffix and on another name")
    import passeval
    from finfun import NONE, S, Unsupported

    PF = "program_structure/src/control_flow_graph/parameters.rs"
    IRF = "program_structure/src/intermediate_representation/ir.rs"
    try:
        w = passeval.PassWorld([IRF, PF], PF)
    except Exception:  # noqa: BLE001
        return ctx.missing(R, "Parameters::contains")
    if ("Parameters", "contains") not in w.methods or "VariableName" not in w.structs or "Parameters" not in w.structs or not {"name", "suffix"} <= set(w.structs["VariableName"]):
        return ctx.missing(R, "Parameters::contains")
    fn = w.methods[("Parameters", "contains")][0]

    def name(base, suf):
        vals = {"name": base, "suffix": NONE if suf is None else S("Some", suf)}
        return S("VariableName", *[vals.get(f, NONE) for f in w.structs["VariableName"]])

    X = name("x", None)
    got = {}
    try:
        for tag, q in (("the parameter `x`", X), ("the local `x` of an inner scope (`x_0`)", name("x", "0")), ("another variable `y`", name("y", None))):
            pv = {"param_names": ("L", (X, name("n", None)))}
            me = S("Parameters", *[pv.get(f, ("O", f, ())) for f in w.structs["Parameters"]])
            got[tag] = w.call_fn(fn, [me, q])
    except (Unsupported, passeval.Panic) as u:
        return ctx.missing(R, "Parameters::contains/evaluation", "cannot be evaluated (fail closed): %s" % u)
    want = {"the parameter `x`": True, "the local `x` of an inner scope (`x_0`)": False, "another variable `y`": False}
    wrong = ["%s: %s" % (k, got[k]) for k in want if got[k] is not want[k]]
    ctx.check(R, "Parameters::contains/whole-identity", not wrong, "; ".join(wrong) or "with parameters (x, n): x is a parameter, the shadowing local x_0 and y are not", site(PF, fn))


def run(ctx):
    import c04

    rule_suffix_kept(ctx)

    ctx.include("C10.8", "uses resolve to the declaration in scope: declarations are looked up under name and shadowing suffix (shared with C04.14)", c04.rule_declaration_lookup)
    rule_scopes(ctx)
    rule_renaming(ctx)
    rule_separator(ctx)
    rule_shadowing(ctx)
    rule_for_scope(ctx)
    eval_parameters_contains(ctx)
    import c03

    ctx.include("C10.7", "every shadowing warning produced while the CFG is built reaches the display: the per-definition cache takes every report, is drained after it was filled and written unconditionally (shared with C03.1)", c03.rule_drain)
    ctx.include("C10.11", "a declaration is visible from its own position on: `var y = x, x = 2;` declares and initialises symbol by symbol, so that an initialiser sees the declarations before it and none after it (shared with C13.1)", lambda c: c13.eval_declaration_split(c, "C13.1"))
    import dropflow

    ctx.include("C10.10", "the warnings gathered while a definition is lifted are handed to the per-definition cache on every path, also when a later stage of the same definition fails (shared with C02.10)", lambda c: dropflow.rule_consumed(c, "C02.10"), only=["generate_cfg", "AnalysisRunner::cache_", "IntoCfg", "into_cfg", "floor"])
    ctx.include("C10.6", "SSA keeps same-named variables apart: phi statements are matched by the full (name, suffix) identity and only locals are versioned (shared with C14.3)", c14.rule_phis_and_locals)
