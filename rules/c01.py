"""C01 Totality: no input makes the analyzer panic, abort or hang."""
import collections
import re

import facts
import grammar
import mirlib
from astlib import calls, find_fn, fns_in_file, last, method_calls, render, site, strip, walk
from pathcond import conditions_to, fact_str, facts_str, let_env, split_cond
import c04
import c06
import c11
import c16
import c18
import c20

TITLE = "Totality"
LEVEL_TEXT = (
    "obligation ledgers over the type-checked program: every unwrap/expect of a repository error type and every explicit panic"
    " (panic!/assert!/unreachable!) reachable from main must be a reviewed ledger entry whose discharging rule holds; the time box"
    " is on every propagation iteration; grammar terminals can only produce text their action converts without failing; byte cuts"
    " of user text are boundary-safe; arithmetic preconditions (C16) and desugaring completeness (C18) are shared; program-wide"
    " ledgers of fallible indexing and of std calls documented to panic (unwrap/expect with any payload, positional Vec/slice/str methods).; the directory walk lists a directory once (descent guarded by the set of canonical directories listed so far). The include walk queues and marks files under canonical paths (termination of the walk, shared with C19.1)."
)
NOT_DECIDED = "stack depth on deeply nested input, memory use, implicit bounds / overflow checks and the internals of the generated parser; a ledger entry records a review, it does not prove the site cannot fail."
TRUSTED = ["rustc MIR and trait resolution (engines/mirfacts)", "call-graph over-approximation: unresolved trait calls widened to every workspace impl, external-trait impls and grammar actions are roots", "reviewed ledger (DESIGN App. A)"]
ENGINE = "mirfacts+astq"
TECHNIQUE = "static analysis: panic/unwrap obligation ledger over rustc MIR call graph + grammar/regex domain rules + shared syntax-tree rules"

SB = "program_structure/src/abstract_syntax_tree/statement_builders.rs"
PA = "program_structure/src/program_library/program_archive.rs"
GR = grammar.GRAMMAR

REPO_ERRORS = ("ArithmeticError", "Report", "IRError", "CFGError", "SSAError", "AnalysisError", "SarifError", "anyhow::Error", "io::Error", "codespan_reporting::files::Error", "ParseError")

# (function pretty name, macro) -> discharging rule
PANIC_LEDGER = {
    ("<abstract_syntax_tree::ast::Expression as intermediate_representation::lifting::TryLift<()>>::try_lift", "panic"): "C18.1/C18.2: tuples and anonymous components are eliminated (templates) or rejected (functions) before lifting",
    ("<abstract_syntax_tree::ast::Statement as intermediate_representation::lifting::TryLift<()>>::try_lift", "panic"): "C18.2: statement kinds the CFG lifting does not handle itself are eliminated / rejected",
    ("<codespan_reporting::diagnostic::Label<usize> as utils::sarif_conversion::ToSarif>::to_sarif", "assert"): "C04.4: spans are built from @L/@R markers in order, start <= end",
    ("abstract_syntax_tree::ast::Meta::get_file_id", "panic"): "C04.5 + C01.7: every node of a parsed definition and the main component expression are filled",
    ("abstract_syntax_tree::ast_shortcuts::split_declaration_into_single_nodes_and_multi_substitution", "debug_assert"): "grammar: the tuple declaration productions only take SimpleSymbol (no initialiser)",
    ("control_flow_graph::cfg::Cfg::get_false_branch", "panic"): "C09.1: only called for the block of an IfThenElse statement; C12.2: a branch ends its block",
    ("control_flow_graph::cfg::Cfg::get_true_branch", "panic"): "C09.1 / C12.2 as above",
    ("control_flow_graph::lifting::build_basic_blocks", "assert"): "grammar: ParseBlock is the only body production; both removers map Block to Block",
    ("control_flow_graph::lifting::visit_statement", "assert"): "initialisation blocks only contain declarations and substitutions, which return no pending predecessors (C12.2 other/Declaration arms)",
    ("control_flow_graph::ssa_impl::<impl static_single_assignment::traits::SSAStatement<control_flow_graph::ssa_impl::Config> for intermediate_representation::ir::Statement>::ensure_phi_argument", "panic"): "C14.1: only called under is_phi_statement()",
    ("control_flow_graph::ssa_impl::<impl static_single_assignment::traits::SSAStatement<control_flow_graph::ssa_impl::Config> for intermediate_representation::ir::Statement>::insert_ssa_variables", "assert"): "C14.2: into_ssa consumes the CFG, renaming runs once",
    ("control_flow_graph::ssa_impl::update_declarations", "assert"): "declarations are lifted one name at a time (NonEmptyVec::new); renaming runs once",
    ("control_flow_graph::ssa_impl::visit_expression", "assert"): "C14.2: renaming runs once per CFG",
    ("control_flow_graph::unique_vars::ensure_unique_variables", "assert"): "grammar: ParseBlock is the only body production",
    ("intermediate_representation::declarations::Declarations::add_declaration", "assert"): "C10.1/C10.2: names are unique after renaming; parameter collisions are rejected first (C10.4)",
    ("intermediate_representation::degree_meta::DegreeRange::iter_inf", "panic"): "C07.1: only reached through iter_opt under !is_empty()",
    ("intermediate_representation::value_meta::ValueEnvironment::add_variable", "assert_eq"): "C06.4: only versioned (single-assignment) names are published",
    ("static_single_assignment::dominator_tree::DominatorTree::<T>::new", "assert"): "trusted: dominator algorithms (C15 not applicable)",
    ("static_single_assignment::dominator_tree::compute_immediate_dominators", "assert"): "trusted: dominator algorithms (C15 not applicable)",
    ("syntax_sugar_remover::remove_syntactic_sugar", "unreachable"): "C18.1: remove_anonymous_from_statement maps a Block to a Block",
    ("syntax_sugar_remover::remove_tuple_from_expression", "unreachable"): "C18.2: the anonymous-component remover runs first",
    ("syntax_sugar_remover::separate_declarations_in_comp_var_subs", "unreachable"): "the declarations collected by the anonymous remover are built only with build_declaration(Var|Component|AnonymousComponent) and build_substitution",
    ("utils::environment::RawEnvironment::<T, CC, SC, VC>::add_variable", "assert"): "C10.1 / C14.1: scopes are balanced, the base block is never popped",
    ("utils::environment::RawEnvironment::<T, CC, SC, VC>::remove_variable_block", "assert"): "C10.1 / C14.1: scopes are balanced",
    ("utils::environment::VariableBlock::<VC>::get_variable", "assert"): "only called after the lookup found the symbol in that block",
}
# per (method, error type), program-wide count: moving the call into a closure or another function changes nothing
RESULT_LEDGER = {
    ("expect", "std::io::Error"): (1, "StdoutWriter::write_messages: environment fault (stdout closed), outside the property's quantifier"),
    ("expect", "codespan_reporting::files::Error"): (1, "StdoutWriter::write_reports: only for an invalid label: C04 (labels in range, file ids from the library)"),
    ("expect", "anyhow::Error"): (1, "update_declarations: NonEmptyVec from a version range that is never empty (unwrap_or(0..1))"),
}

# C01.11: indexing that can go out of bounds (`v[i]`, `v[a..]`, `map[&k]`), hand-written code reachable from main, counted
# per (container type, index type) over the whole program - not per function, so that moving code between functions or
# renaming them changes nothing.  `[..]` cannot fail and is not counted.
INDEX_LEDGER = {
    ("[T; N]", "std::ops::RangeFrom<usize>"): (1, "NonEmptyVec::try_from: `[1..]` after the emptiness test"),
    ("[T]", "std::ops::RangeFrom<usize>"): (1, "NonEmptyVec::try_from: `[1..]` after the emptiness test"),
    ("std::vec::Vec<T>", "std::ops::RangeFrom<usize>"): (1, "NonEmptyVec::try_from: `[1..]` after the emptiness test"),
    ("std::vec::Vec<T>", "usize"): (4, "NonEmptyVec index/index_mut: index 0 is the head, i-1 into the tail; callers pass block indices (C12.4: index = position)"),
    ("std::collections::HashMap<usize, std::vec::Vec<abstract_syntax_tree::ast::Definition>>", "usize"): (1, "ProgramArchive::new: key taken from the same map's key set"),
    ("std::vec::Vec<&str>", "usize"): (3, "String::try_lift: tokens[0], tokens[1] under the arm for that length (C10.3)"),
    ("std::vec::Vec<(std::string::String, usize)>", "usize"): (1, "remove_anonymous_from_expression: inputs[i] with i < inputs.len() checked by the arity test (C18.4)"),
    ("std::vec::Vec<circomspect_program_structure::intermediate_representation::Expression>", "usize"): (3, "args[0] of Num2Bits/LessThan after name and arity were tested (C01.10 / C11.3)"),
    ("std::vec::Vec<control_flow_graph::basic_block::BasicBlock>", "usize"): (1, "Cfg::get_dominance_frontier: indices produced by the dominator tree of the same block vector"),
    ("std::vec::Vec<std::collections::HashSet<usize>>", "usize"): (10, "dominator tree: vectors sized by the number of blocks, indices are block indices (C12.4)"),
    ("std::vec::Vec<std::option::Option<usize>>", "usize"): (4, "dominator tree: immediate-dominator vector sized by the number of blocks"),
    ("std::vec::Vec<utils::environment::VariableBlock<VC>>", "usize"): (2, "environment: index found by position() on the same vector"),
    ("utils::nonempty_vec::NonEmptyVec<control_flow_graph::basic_block::BasicBlock>", "usize"): (5, "complete_basic_block: predecessor indices are indices of existing blocks (C12.1), by value or by reference; the block just pushed and frontier indices"),
}
# C01.12: calls of std functions documented to panic (unwrap/expect of Option and of Result with ANY error type, and the
# position-taking Vec/slice/str methods), hand-written code reachable from main, counted per (function, payload type)
# over the whole program - not per enclosing function, so that moving or renaming code changes nothing.
API_RE = re.compile(
    r"(?:std|core)::(option::Option::<T>::(?:unwrap|expect)|result::Result::<T, E>::(?:unwrap|expect|unwrap_err|expect_err))$"
    r"|(?:std|alloc)::vec::Vec::<T, A>::(insert|remove|swap_remove|drain|split_off|splice)$"
    r"|(?:std|alloc)::collections::VecDeque::<T, A>::(insert|remove|swap|drain|split_off)$"
    r"|(?:std|alloc)::string::String::(insert|insert_str|remove|drain|replace_range|split_off)$"
    r"|(?:core|std)::slice::<impl \[T\]>::(split_at|split_at_mut|swap|copy_from_slice|clone_from_slice|copy_within|chunks|chunks_exact|chunks_mut|rchunks|windows|rotate_left|rotate_right|select_nth_unstable)$"
    r"|(?:core|std)::str::<impl str>::(split_at|split_at_mut)$"
    r"|(?:core|std)::cell::RefCell::<T>::(borrow|borrow_mut)$"
    r"|(?:core|std)::iter::Iterator::step_by$"
)
API_LEDGER = {
    ("Result::expect", "std::io::Error"): (1, "StdoutWriter::write_messages: environment fault (stdout closed)"),
    ("Result::expect", "codespan_reporting::files::Error"): (1, "StdoutWriter::write_reports: only for an invalid label (C04)"),
    ("Result::expect", "anyhow::Error"): (1, "update_declarations: NonEmptyVec from a version range that is never empty"),
    ("Option::expect", "&control_flow_graph::basic_block::BasicBlock"): (7, "Cfg successors / branches / intervals: block indices stored in a block are indices of the same vector (C12.1/C12.4)"),
    ("Option::expect", "&mut <generic>"): (2, "insert_ssa_variables_impl: frontier / dominator indices of the same block vector"),
    ("Option::expect", "&std::collections::HashSet<intermediate_representation::variable_meta::VariableUse>"): (6, "VariableKnowledge getters: documented precondition `cache_variable_use ran`; C09 checks every consumer runs after the cache pass"),
    ("Option::expect", "&std::ffi::OsStr"): (1, "include_library: library paths are built from file names"),
    ("Option::expect", "num_bigint::BigInt"): (1, "Curve::prime: parse of a decimal literal (C11.1 checks the literals)"),
    ("Option::expect", "std::ops::Range<usize>"): (1, "update_declarations: unwrap_or(0..1) precedes"),
    ("Option::expect", "std::path::PathBuf"): (1, "FileStack::add_include: current_location is set by take_next before any include is added (C19)"),
    ("Option::unwrap", "&&intermediate_representation::value_meta::ValueReduction"): (1, "phi propagation: next() of a set whose length was tested to be 1 (C06.3)"),
    ("Option::unwrap", "&<generic>"): (1, "VariableBlock::get_variable: only after the lookup found the symbol"),
    ("Option::unwrap", "&circomspect_program_structure::ast::AssignOp"): (2, "remove_anonymous_from_expression: positions found in the same name list (C18.4)"),
    ("Option::unwrap", "&circomspect_program_structure::ast::Expression"): (7, "remove_anonymous_from_expression: var_access is Some for the whole anonymous-component arm; signal positions from the same list (C18.4)"),
    ("Option::unwrap", "&circomspect_program_structure::control_flow_graph::Cfg"): (2, "AnalysisRunner::get_*: the entry was inserted on the line above (C03.5 cache rule)"),
    ("Option::unwrap", "&circomspect_program_structure::template_data::TemplateData"): (2, "remove_anonymous_from_expression: after the `template not found` error return (C18.4 template lookup)"),
    ("Option::unwrap", "&mut utils::environment::VariableBlock<VC>"): (1, "RawEnvironment::add_variable: last_mut after the non-empty assertion"),
    ("Option::unwrap", "&str"): (1, "FileID::to_uri: the path comes from a UTF-8 string"),
    ("Option::unwrap", "circomspect_program_structure::control_flow_graph::Cfg"): (2, "AnalysisRunner::take_*: after cache_* returned Ok"),
    ("Option::unwrap", "num_bigint::BigInt"): (1, "complement_256: from_radix_le of digits < 2"),
    ("Option::unwrap", "usize"): (3, "syntax sugar remover: get_line of a position inside the file (C04); position() of a name taken from the same list"),
    ("Vec::insert", "intermediate_representation::ir::Statement"): (1, "BasicBlock::prepend_statement: insert(0, ..) cannot be out of range"),
    ("Vec::remove", "circomspect_program_structure::ast::Expression"): (2, "remove_tuples_from_statement: remove(0) in a loop bounded by the tested common length (C18.3)"),
    ("str::split_at", "?"): (1, "split_string: C01.6 checks the index is moved to a character boundary <= len"),
}

INDEX_RE = re.compile(r"ops::Index(Mut)?<[^>]*>>::index(_mut)?$|impl std::ops::Index(Mut)?<I> for [^>]*>::index(_mut)?$")

PANIC_RE = re.compile(r"(core|std)::panicking::(panic|panic_fmt|assert_failed|panic_explicit|unreachable_display|panic_display|panic_str)|core::panicking::panic_const")


def reachable_from_main():
    idx = mirlib.index()
    impls = collections.defaultdict(list)
    for fid, fn in idx.items():
        if fn.get("trait_item"):
            impls[fn["trait_item"]].append(fid)

    def edges(fn):
        out = set()
        for _i, t in mirlib.calls_of(fn):
            c = t.get("callee")
            if c:
                out.add(c)
                if t["res"] in ("trait", "virtual"):
                    out.update(impls.get(c, []))
                    out.update(impls.get(t.get("decl"), []))
        out.update(fn.get("closures", []))
        return out

    roots = [fid for fid, fn in idx.items() if fn["pretty"] == "main" and fn["crate"] == "circomspect"]
    if not roots:
        return None
    for fid, fn in idx.items():
        tr = fn.get("trait")
        if tr and not tr.startswith("circomspect"):
            roots.append(fid)
        if "__action" in fn["pretty"] or "__reduce" in fn["pretty"]:
            roots.append(fid)
    seen = set()
    st = list(roots)
    while st:
        f = st.pop()
        if f in seen:
            continue
        seen.add(f)
        fn = idx.get(f)
        if fn is not None:
            st.extend(edges(fn))
    return seen


def rule_ledger(ctx):
    R1, R2 = "C01.1", "C01.2"
    ctx.rule(R1, "no Result carrying one of the repository's error types (the encoding of `this input is bad`) is unwrapped or expected in code reachable from main, except the reviewed ledger entries")
    ctx.rule(R2, "every explicit panic (panic!, assert!, assert_eq!, unreachable!, debug_assert!) in hand-written code reachable from main is a reviewed ledger entry naming the rule that discharges it; a new panic site is new control flow that ends the process")
    idx = mirlib.index()
    seen = reachable_from_main()
    if seen is None:
        return ctx.missing(R2, "circomspect::main")
    hw = [f for f in seen if f in idx and not idx[f].get("gen")]
    ctx.floor(R2, "hand-written functions reachable from main", len(hw), 900)
    psites = collections.Counter()
    rsites = collections.Counter()
    where = {}
    for f in hw:
        fn = idx[f]
        for _i, t in mirlib.calls_of(fn):
            p = t.get("pretty") or ""
            if PANIC_RE.search(p):
                mac = (t.get("mac") or ["?"])
                mname = [m for m in mac if m in ("panic", "assert", "assert_eq", "assert_ne", "unreachable", "debug_assert", "debug_assert_eq", "unimplemented", "todo")]
                k = (fn["pretty"], mname[-1] if mname else mac[-1])
                psites[k] += 1
                where[k] = (fn["file"], t["line"])
            m = re.match(r"(?:std|core)::result::Result::<T, E>::(unwrap|expect|unwrap_err|expect_err)$", p)
            if m:
                et = t["gargs"][1] if len(t["gargs"]) > 1 else "?"
                if any(e in et for e in REPO_ERRORS):
                    k = (m.group(1), et)
                    rsites[k] += 1
                    where[k] = (fn["file"], t["line"])
                    where[("fn",) + k] = fn["pretty"]
    ctx.table("panic sites", ["%dx %s [%s]" % (v, k[0], k[1]) for k, v in sorted(psites.items())])
    def module_of(pretty):
        """the module part of a function's path: leading lower-case segments"""
        m_ = re.match(r"<.* as ([\w:]+?)(?:<.*>)?>::\w+$", pretty)
        if m_:
            pretty = m_.group(1) + "::x"  # a trait method: the module of the trait (impls live next to it here)
        segs = []
        for sg in re.sub(r"<[^<>]*(?:<[^<>]*>[^<>]*)*>", "", pretty).split("::"):
            if sg and (sg[0].islower() or sg[0] == "_"):
                segs.append(sg)
            else:
                break
        return "::".join(segs[:-1]) if len(segs) > 1 and len(segs) == len([x for x in pretty.split("::")]) else "::".join(segs)

    stale = [k for k in PANIC_LEDGER if k not in psites]
    moved_from = {}
    free_stale = list(stale)
    for k, v in sorted(psites.items()):
        if k in PANIC_LEDGER or v != 1:
            continue
        # a reviewed site that left its function for another one of the same module (a helper was extracted, or inlined)
        for k0 in free_stale:
            if k0[1] == k[1] and module_of(k0[0]) == module_of(k[0]) and module_of(k[0]):
                moved_from[k] = k0
                free_stale.remove(k0)
                break
    for k, v in sorted(psites.items()):
        ent = PANIC_LEDGER.get(k) or (("moved within the module from %s; " % moved_from[k][0] + PANIC_LEDGER[moved_from[k]]) if k in moved_from else None)
        ctx.check(R2, "%s/%s!" % k, ent is not None, ("discharged by: " + ent) if ent else "explicit panic reachable from main without a ledger entry (%d site(s)): if an input can reach it the tool aborts instead of reporting" % v, where[k])
    ctx.note("ledger entries without a site on this tree (code removed or renamed): %s" % stale)
    ctx.floor(R2, "ledgered panic sites present", len(PANIC_LEDGER) - len(stale), 20)
    for k, v in sorted(rsites.items()):
        ent = RESULT_LEDGER.get(k)
        ok1 = ent is not None and v <= ent[0]
        ctx.check(R1, "Result::%s<%s>" % k, ok1, ("%d site(s), reviewed %d: %s" % (v, ent[0], ent[1])) if ok1 else "a Result carrying the repository's error type %s is unwrapped (found %d, reviewed %d; last in %s): the error that says `bad input` becomes a panic" % (k[1], v, ent[0] if ent else 0, where[("fn",) + k]), where[k])
    ctx.floor(R1, "ledgered unwrap sites present", sum(1 for k in RESULT_LEDGER if k in rsites), 3)
    # every function that returns a repo Result: is it consumed somewhere by unwrap in generated code? (grammar handled by C01.4)


def rule_index_ledger(ctx):
    R = "C01.11"
    ctx.rule(R, "every indexing operation that can go out of bounds in hand-written code reachable from main is a reviewed ledger entry (per container and index type, program-wide count); a new one is a new way for an input to end the process with a panic")
    idx = mirlib.index()
    seen = reachable_from_main()
    if seen is None:
        return ctx.missing(R, "circomspect::main")
    cnt = collections.Counter()
    where = {}
    for f in seen:
        fn = idx.get(f)
        if fn is None or fn.get("gen"):
            continue
        for _i, t in mirlib.calls_of(fn):
            p = t.get("pretty") or ""
            if t.get("exp") or not INDEX_RE.search(p):
                continue
            g = t.get("gargs") or []
            if len(g) > 1 and "RangeFull" in g[1]:
                continue
            # indexing by `&usize` and by `usize` is the same operation with the same failure condition
            k = (g[0] if g else "?", (g[1] if len(g) > 1 else "?").lstrip("&"))
            cnt[k] += 1
            where.setdefault(k, []).append("%s (%s:%s)" % (fn["pretty"], fn["file"], t["line"]))
    ctx.table("index sites", ["%dx %s[%s]" % (v, k[0], k[1]) for k, v in sorted(cnt.items())])
    for k, v in sorted(cnt.items()):
        ent = INDEX_LEDGER.get(k)
        ok = ent is not None and v <= ent[0]
        ctx.check(R, "index/%s[%s]" % k, ok, ("%d site(s), ledger %d: %s" % (v, ent[0], ent[1])) if ok else "indexing without a ledger entry (found %d, reviewed %d): %s" % (v, ent[0] if ent else 0, where[k][-3:]))
    ctx.floor(R, "ledgered index kinds present", sum(1 for k in INDEX_LEDGER if k in cnt), 10)


def _api_key(p, t):
    m = re.search(r"(Option|Result|Vec|VecDeque|String|RefCell)::(?:<[^>]*>::)?(\w+)$", p)
    if m:
        name = "%s::%s" % (m.group(1), m.group(2))
    else:
        m = re.search(r"<impl (\[T\]|str)>::(\w+)$", p)
        name = "%s::%s" % ("slice" if m and m.group(1) == "[T]" else "str", m.group(2)) if m else p
    g = t.get("gargs") or []
    ty = g[1] if name.startswith("Result::") and len(g) > 1 else (g[0] if g else "?")
    return (name, _generic_payload(ty))


def _generic_payload(ty):
    """a payload that is a type parameter or an associated type of one (`&VC`, `&mut <Cfg as SSAConfig>::BasicBlock`,
    `&mut Block`) is spelled after the enclosing function's generics, which a refactoring is free to rename: one class"""
    m = re.match(r"^((?:&(?:mut )?)*)(.*)$", ty)
    ref, core = m.group(1), m.group(2)
    if re.match(r"^[A-Z]\w*$", core) or re.match(r"^<\w+ as [\w:]+>::\w+$", core):
        return ref + "<generic>"
    return ty


def _guarded_lookup(file, line):
    """is the unwrap / expect at file:line applied to `M.get(K)` (get_mut, remove) on a path on which `M.contains_key(K)`
    holds?  Then it cannot fail and needs no ledger entry."""
    import facts as _facts

    def norm(e):
        return render(strip(e)).replace(" ", "").lstrip("&")

    for q, fn in fns_in_file(file):
        if not fn.get("body"):
            continue
        for n in walk(fn["body"]):
            if n["k"] == "MethodCall" and n["method"] in ("unwrap", "expect") and n.get("line") == line:
                r = strip(n["recv"])
                if r["k"] != "MethodCall" or r["method"] not in ("get", "get_mut", "remove") or len(r["args"]) != 1:
                    continue
                m, key = norm(r["recv"]), norm(r["args"][0])
                for fc in conditions_to(fn["body"], n) or []:
                    if fc[0] == "if" and fc[2]:
                        c = strip(fc[1])
                        if c["k"] == "MethodCall" and c["method"] == "contains_key" and len(c["args"]) == 1 and norm(c["recv"]) == m and norm(c["args"][0]) == key:
                            return True
    return False


_SHRINKS = ("clear", "pop", "remove", "swap_remove", "truncate", "drain", "retain", "split_off", "dedup", "pop_front", "pop_back")


def _guarded_position(file, line):
    """is the `X.remove(L)` / `X.swap_remove(L)` at file:line (L an integer literal, X a local) the first thing done to X in the
    branch of an `if` whose condition says X holds more than L elements (`X.len() == n`, n > L; `X.len() > m`, m >= L;
    `X.len() >= m`, m > L; `!X.is_empty()` for L = 0)?  Then the position exists and the call needs no ledger entry."""

    def lit(e):
        e = strip(e)
        if e["k"] == "Lit" and e.get("lit") == "int" and str(e.get("value", "")).isdigit():
            return int(e["value"])
        return None

    def local(e):
        e = strip(e)
        return e["path"] if e["k"] == "Path" and "::" not in e["path"] else None

    def enough(c, pol, x, L):
        c = strip(c)
        if c["k"] == "MethodCall" and c["method"] == "is_empty" and local(c["recv"]) == x:
            return (not pol) and L == 0
        if c["k"] == "Unary" and c.get("op") == "!":
            return enough(c["e"], not pol, x, L)
        if c["k"] != "Binary" or not pol:
            return False
        l, r, op = strip(c["l"]), strip(c["r"]), c["op"]
        if lit(l) is not None and lit(r) is None:
            l, r, op = r, l, {"<": ">", ">": "<", "<=": ">=", ">=": "<="}.get(op, op)
        n = lit(r)
        if n is None or l["k"] != "MethodCall" or l["method"] != "len" or local(l["recv"]) != x:
            return False
        return (op == "==" and n > L) or (op == ">" and n >= L) or (op == ">=" and n > L)

    for q, fn in fns_in_file(file):
        if not fn.get("body"):
            continue
        for n in walk(fn["body"]):
            if n["k"] == "MethodCall" and n["method"] in ("remove", "swap_remove") and n.get("line") == line and len(n["args"]) == 1:
                x, L = local(n["recv"]), lit(n["args"][0])
                if x is None or L is None:
                    continue
                for iff in walk(fn["body"]):
                    if iff["k"] != "If" or not iff.get("then"):
                        continue
                    inside = [m for m in walk(iff["then"])]
                    if not any(m is n for m in inside):
                        continue
                    if not any(enough(c[1], c[2], x, L) for c in split_cond(iff["cond"], True) if c[0] == "if"):
                        continue
                    # nothing else in the branch may shrink or replace X before the call (conservatively: anywhere in it)
                    other = [m for m in inside if m is not n and ((m["k"] == "MethodCall" and m["method"] in _SHRINKS and local(m["recv"]) == x) or (m["k"] == "Assign" and local(m["l"]) == x) or (m["k"] == "Ref" and m.get("mut") and local(m["e"]) == x))]
                    if not other:
                        return True
    return False


def rule_api_ledger(ctx):
    R = "C01.12"
    ctx.rule(R, "every call of a std function that is documented to panic on a bad argument or an absent value (Option/Result unwrap and expect with any payload, Vec/slice/str methods that take a position, RefCell borrows) in hand-written code reachable from main is a reviewed ledger entry (per function and payload type, program-wide count)")
    idx = mirlib.index()
    seen = reachable_from_main()
    if seen is None:
        return ctx.missing(R, "circomspect::main")
    cnt = collections.Counter()
    where = {}
    discharged = []
    discharged_pos = []
    for f in seen:
        fn = idx.get(f)
        if fn is None or fn.get("gen"):
            continue
        for _i, t in mirlib.calls_of(fn):
            p = t.get("pretty") or ""
            if t.get("exp") or not API_RE.search(p):
                continue
            k = _api_key(p, t)
            if k[0] in ("Option::unwrap", "Option::expect") and _guarded_lookup(fn["file"], t["line"]):
                discharged.append("%s:%s" % (fn["file"], t["line"]))
                continue
            if k[0] in ("Vec::remove", "Vec::swap_remove") and _guarded_position(fn["file"], t["line"]):
                discharged_pos.append("%s:%s" % (fn["file"], t["line"]))
                continue
            cnt[k] += 1
            where.setdefault(k, []).append("%s (%s:%s)" % (fn["pretty"], fn["file"], t["line"]))
    ctx.table("unwraps of a map lookup under a membership test of the same map and key (discharged locally)", discharged)
    ctx.table("positional removals under a length test of the same vector (discharged locally)", discharged_pos)
    ctx.table("panicking std calls", ["%dx %s<%s>" % (v, k[0], k[1]) for k, v in sorted(cnt.items())])
    for k, v in sorted(cnt.items()):
        ent = API_LEDGER.get(k)
        ok = ent is not None and v <= ent[0]
        ctx.check(R, "api/%s<%s>" % k, ok, ("%d site(s), ledger %d: %s" % (v, ent[0], ent[1])) if ok else "call that panics on an absent value / bad position without a ledger entry (found %d, reviewed %d): %s" % (v, ent[0] if ent else 0, where[k][-3:]))
    ctx.floor(R, "ledgered std call kinds present", sum(1 for k in API_LEDGER if k in cnt), 20)


def rule_division_asserts(ctx, R="C01.14", only_file=None):
    ctx.rule(R, "no integer division or remainder whose divisor can be zero: rustc emits a `DivisionByZero` / `RemainderByZero` check (a panic) for every `/` and `%` on machine integers whose divisor is not a non-zero constant; hand-written code reachable from main contains none (big-integer division goes through the zero-tested helpers of C16.1)")
    idx = mirlib.index()
    seen = reachable_from_main()
    if seen is None:
        return ctx.missing(R, "circomspect::main")
    n = 0
    scanned = 0
    for f in sorted(seen):
        fn = idx.get(f)
        if fn is None or fn.get("gen"):
            continue
        if only_file and not fn["file"].endswith(only_file):
            continue
        scanned += 1
        for b in fn["blocks"]:
            t = b["term"]
            if b.get("cleanup") or t["k"] != "assert" or t.get("exp"):
                continue
            if str(t.get("msg")).startswith(("DivisionByZero", "RemainderByZero")):
                n += 1
                ctx.bad(R, "%s/%s" % (fn["pretty"], str(t.get("msg"))[:16]), "an integer division by a value that can be zero (%s:%s): the process panics instead of finishing" % (fn["file"], t.get("line")), (fn["file"], t.get("line")))
    ctx.floor(R, "functions scanned for division checks", scanned, 5 if only_file else 900)
    if not n:
        ctx.ok(R, "no-division-by-a-possibly-zero-integer", "no DivisionByZero / RemainderByZero check in %d functions" % scanned)


def regex_lang(rx):
    """tiny classifier for the terminal regexes: returns dict(min_len, alphabet(set) or None, prefix)"""
    import sre_parse
    try:
        p = sre_parse.parse(rx)
    except Exception:
        return None
    lo, hi = p.getwidth()
    return {"min": lo, "max": hi}


def rule_terminals(ctx):
    R = "C01.4"
    ctx.rule(R, "a grammar terminal whose action can fail (expect / unwrap / slicing) only matches text in the domain of that conversion: digit strings are non-empty where a number is parsed, sizes that must fit a machine word have a fallback, string slices stay inside the quotes")
    nts = grammar.parse()
    n = 0
    for name, nt in sorted(nts.items()):
        for a in nt["alts"]:
            if len(a["symbols"]) != 1 or a["symbols"][0]["kind"] != "regex" or not a["action"]:
                continue
            rx = a["symbols"][0]["value"]
            act = a["action"].replace(" ", "")
            lang = regex_lang(rx)
            fallible = any(x in act for x in (".expect(", ".unwrap()", "[1..", "[2.."))
            n += 1
            key = "grammar/%s" % name
            if lang is None:
                ctx.bad(R, key + "/regex", "cannot analyse regex %r" % rx, (GR, a["line"]))
                continue
            if "BigInt::parse_bytes(" in act:
                # parse_bytes(digits, radix) fails on an empty digit string
                m = re.search(r"as_bytes\(\)(?:\[(\d+)\.\.\])?\),(\d+)\)", act)
                skip = int(m.group(1)) if m and m.group(1) else 0
                radix = int(m.group(2)) if m else None
                digits_min = lang["min"] - skip
                cls = re.findall(r"\[([^\]]+)\]", rx)
                okc = True
                if radix == 10:
                    okc = cls[-1:] == ["0-9"]
                elif radix == 16:
                    okc = cls[-1:] == ["0-9A-Fa-f"] and rx.startswith("0x")
                ctx.check(R, key + "/digits-non-empty", digits_min >= 1 and okc, "regex %r leaves at least %d digit(s) for parse_bytes(.., %s) (an empty digit string makes it return None and the action panics)" % (rx, digits_min, radix), (GR, a["line"]))
            elif "usize::from_str(" in act:
                ok = ".expect(" not in act and ".unwrap()" not in act
                ctx.check(R, key + "/machine-word-has-fallback", ok, "regex %r matches arbitrarily long digit strings but the action is `%s`: a number that does not fit in a usize panics" % (rx, act[:80]), (GR, a["line"]))
            elif re.search(r"&s\[1\.\.s\.len\(\)-1\]", act):
                ok = lang["min"] >= 2 and rx.startswith('"') and rx.endswith('"')
                ctx.check(R, key + "/slice-inside-quotes", ok, "regex %r (min length %d) vs slice [1..len-1]" % (rx, lang["min"]), (GR, a["line"]))
            elif fallible:
                ctx.bad(R, key + "/unreviewed-fallible-action", "action `%s` can fail and is not one of the reviewed conversions" % act[:100], (GR, a["line"]))
            else:
                ctx.ok(R, key + "/infallible", act[:60], (GR, a["line"]))
    ctx.floor(R, "regex terminals", n, 5)
    # non-terminal actions must not unwrap / expect / index either
    bad = []
    for name, idx_, a in grammar.all_alts():
        if a["action"] and len(a["symbols"]) >= 1 and not (len(a["symbols"]) == 1 and a["symbols"][0]["kind"] == "regex"):
            act = a["action"].replace(" ", "")
            if re.search(r"\.expect\(|\.unwrap\(\)|\bpanic!|unreachable!", act):
                bad.append("%s: %s" % (name, act[:60]))
    ctx.check(R, "grammar/no-fallible-production-actions", not bad, str(bad))


def rule_byte_cuts(ctx):
    R = "C01.6"
    ctx.rule(R, "user-controlled text is only cut at character boundaries: every split_at / truncate / range slice of a string in hand-written code reachable from main is on a boundary by construction")
    idx = mirlib.index()
    seen = reachable_from_main() or set()
    sites = []
    for f in seen:
        fn = idx.get(f)
        if fn is None or fn.get("gen"):
            continue
        for _i, t in mirlib.calls_of(fn):
            p = t.get("pretty") or ""
            if re.search(r"core::str::<impl str>::split_at$|std::string::String::truncate$|core::str::<impl str>::split_at_mut$", p) or (re.search(r"ops::Index<.*>>::index$|as std::ops::Index<I>>::index$|SliceIndex<str>>::index$", p) and t.get("gargs") and t["gargs"][0] in ("str", "std::string::String") and "Range" in (t["gargs"][1] if len(t["gargs"]) > 1 else "")):
                sites.append((fn["pretty"], p.split("::")[-1], fn["file"], t["line"], t["gargs"]))
    ctx.table("string cut sites", ["%s %s %s" % (s[0], s[1], s[4]) for s in sites])
    reviewed = {
        "abstract_syntax_tree::statement_builders::split_string": "split_string",
        "<analysis_runner::AnalysisRunner as analysis_context::AnalysisContext>::underlying_str": "label range (C04: labels are token boundaries)",
        "<utils::constants::Curve as std::str::FromStr>::from_str": "full range [..]",
    }
    for s in sites:
        key = "%s/%s" % (s[0], s[1])
        if s[0].endswith("split_string"):
            fn = find_fn(SB, "split_string")
            ok = False
            det = ""
            if fn is not None:
                sp = list(method_calls(fn["body"], "split_at"))
                t = render(fn["body"]).replace(" ", "")
                import sgrep
                idx_name = render(strip(sp[0]["args"][0])) if len(sp) == 1 else "?"
                recv_name = render(strip(sp[0]["recv"])) if len(sp) == 1 else "?"
                ok = len(sp) == 1 and (sgrep.has(fn["body"], "while !__s.is_char_boundary(__i) { __i -= 1; }", None, {"__s": recv_name, "__i": idx_name}) or sgrep.has(fn["body"], "__s.floor_char_boundary(__n)", sgrep.lets(fn["body"]), {"__s": recv_name}))
                det = "split index moved back to a character boundary before split_at"
                # progress: nothing else moves the index (a character boundary within 4 bytes below a positive limit is
                # positive, so each round removes at least one byte; any other decrement can reach 0 and loop forever)
                moves = [x for x in walk(fn["body"]) if (x["k"] in ("Assign", "AssignOp") or (x["k"] == "Binary" and x.get("op", "").endswith("=") and x["op"] not in ("==", "!=", "<=", ">="))) and render(strip(x["l"])).replace(" ", "") == idx_name]
                inside = 0
                for w_ in walk(fn["body"]):
                    if w_["k"] == "While" and "is_char_boundary" in render(w_["cond"]):
                        inside += sum(1 for x in walk(w_["body"]) if any(x is m_ for m_ in moves))
                if ok and len(moves) != inside:
                    ok = False
                    det = "the split index is also moved outside the character-boundary loop (%d assignment(s)): it can reach 0, then no byte is consumed and the loop never ends" % (len(moves) - inside)
            ctx.check(R, key, ok, det or "split_string not found", (s[2], s[3]))
        elif len(s[4]) > 1 and "RangeFull" in s[4][1]:
            ctx.ok(R, key, "full range: no cut", (s[2], s[3]))
        elif s[0] in reviewed:
            ctx.ok(R, key, "reviewed: " + reviewed[s[0]], (s[2], s[3]))
        else:
            ctx.bad(R, key, "string cut at an index that is not known to be a character boundary", (s[2], s[3]))
    ctx.floor(R, "string cut sites", len(sites), 1)


def rule_main_component_filled(ctx):
    R = "C01.7"
    ctx.rule(R, "the main component expression gets its file id and element ids when the program archive is built (its meta is read with the panicking accessor when errors about it are reported)")
    fn = find_fn(PA, "new", "ProgramArchive")
    if fn is None:
        return ctx.missing(R, "ProgramArchive::new")
    import sgrep
    pvn = sgrep.params(fn)
    fills = [m for m in method_calls(fn["body"], "fill")]
    ok = len(fills) == 1 and not (conditions_to(fn["body"], fills[0]) or []) and len(pvn) >= 2 and render(strip(fills[0]["args"][0])) == pvn[1]
    ctx.check(R, "ProgramArchive::new/main-expression-filled", ok, "initial_template_call.fill(file_id_main, ..) must run unconditionally", site(PA, fn))
    t = render(fn["body"]).replace(" ", "")
    st_ = [x for x in walk(fn["body"]) if x["k"] == "Struct" and last(x["path"]) == "ProgramArchive"]
    stored = bool(st_) and any(x["name"] == "initial_template_call" and fills and render(strip(x["e"])) == render(strip(fills[0]["recv"])) for x in st_[0]["fields"])
    ctx.check(R, "ProgramArchive::new/filled-expression-is-stored", stored, "the expression that was filled is the one stored as initial_template_call", site(PA, fn))


def rule_directory_once(ctx, R="C01.19"):
    ctx.rule(R, "the walk over a directory named on the command line ends: a directory that is reached again through a link is not listed again (the set of canonical paths of the directories listed so far guards the descent), or links are not followed at all")
    """the walk over a directory named on the command line is finite only if a directory that is reached again through a
    link is not listed again: two links that point upwards (`ln -s . d/self; ln -s .. d/sub/up`) otherwise give 2^40
    different paths before the operating system's link limit ends each of them"""
    from astlib import inline_helpers

    INC_ = "parser/src/include_logic.rs"
    fn0 = find_fn(INC_, "add_files")
    if fn0 is None:
        return ctx.missing(R, "FileStack::add_files")
    fn = inline_helpers(fn0, INC_)
    rec = [c for c in walk(fn["body"]) if c["k"] == "MethodCall" and c["method"] == "add_files"] + [c for c in walk(fn["body"]) if c["k"] == "Call" and c["func"]["k"] == "Path" and last(c["func"]["path"]) == "add_files"]
    if not rec:
        # no recursion: a work list - the same question is asked of the place where directories are pushed onto it
        rec = [c for c in walk(fn["body"]) if c["k"] == "MethodCall" and c["method"] in ("push", "push_back", "extend") and any(x["k"] in ("Call", "MethodCall") and "read_dir" in render(x) for x in walk(fn["body"]))][:0]
        if not rec:
            return ctx.missing(R, "add_files/descent", "the place where add_files descends into a directory was not found")
    sets_ = set()
    from astlib import all_items

    for _p, it in all_items(facts.ast().get(INC_) or []):
        if it.get("k") == "StructDef" and it.get("name") == "FileStack":
            for f_ in it.get("fields", []):
                if re.match(r"^(std::collections::)?(HashSet|BTreeSet)<", f_["ty"].replace(" ", "")):
                    sets_.add(f_["name"])
    for c in rec:
        conds = conditions_to(fn["body"], c) or []
        le = let_env(fn["body"], c)
        guard = None
        for f in conds:
            if f[0] not in ("if", "iflet", "arm", "notall"):
                continue
            nodes = [f[1]] if f[0] in ("if",) else ([f[2]] if f[0] in ("iflet",) else ([f[1]] if f[0] == "arm" else [g[1] for g in f[1] if g[0] == "if"]))
            for nd in nodes:
                for m in walk(nd):
                    if m["k"] == "MethodCall" and m["method"] in ("insert", "contains") and render(strip(m["recv"])).replace("&mut ", "").replace("&", "") in ["self.%s" % x for x in sets_]:
                        txt = render(nd) + " ".join(render(v_) for k_, v_ in le.items())
                        if "canonicalize" in txt:
                            guard = "`%s` on the resolved path" % render(m)[:60]
                    if m["k"] == "MethodCall" and m["method"] == "is_symlink":
                        guard = guard or "links are not followed (`%s`)" % render(m)[:40]
        ctx.check(R, "add_files/each-directory-listed-once", guard is not None, guard or "add_files descends into every directory it meets, also one it has listed before (reached again through a link): with two links that point upwards the walk does not end in practice (2^40 paths)", site(INC_, c))


def run(ctx):
    rule_directory_once(ctx)
    rule_ledger(ctx)
    ctx.include("C01.3", "the time box is checked on every propagation iteration and the cut only stops the loop (shared with C20.1)", c20.rule_cut)
    rule_terminals(ctx)
    ctx.include("C01.5", "arithmetic preconditions: zero-tested divisors, bounded exponents (shared with C16.1/C16.2); the constant evaluator takes fallible results only on Ok and never shortcuts them (C06.1); only versioned names enter the value environment (C06.4)", c16.rule_divisors, c16.rule_exponents, c16.rule_shift_recursion, c06.rule_operator_table, c06.rule_environment)
    rule_byte_cuts(ctx)
    rule_index_ledger(ctx)
    rule_api_ledger(ctx)
    rule_division_asserts(ctx)
    rule_main_component_filled(ctx)
    ctx.include("C01.8", "discharges the lifting panics: desugaring forgets no position and eliminates / rejects the node kinds the lifting cannot handle (shared with C18.1/C18.2/C18.3)", c18.rule_flow, c18.rule_elimination, c18.rule_contains)
    ctx.include("C01.13", "discharges the indexing and unwraps of the anonymous-component expansion: the argument list is matched against the declared inputs by the same list the expansion walks (shared with C18.4)", c18.rule_binding)
    import c14

    ctx.include("C01.15", "discharges `NonEmptyVec from a version range that is never empty` (update_declarations): the versions declared for a local are the whole range, or 0..1 when there is none (shared with C14.6)", c14.rule_declarations, only=["local-versions", "locals-all-versions", "declares-every-version", "statement-lists-the-versions"])
    import c02

    import c19

    ctx.include("C01.20", "the include walk terminates: files are queued and marked as visited under their canonical path, so a file reached again under another spelling (`s/../b.circom`) is not read again (shared with C19.1)", c19.rule_canonical)
    ctx.include("C01.18", "the pragma's version is compared component by component (an ordering computed by arithmetic on the components overflows for large numbers; shared with C02.8)", c02.rule_version_gate)
    import c03

    ctx.include("C01.17", "the run ends in the summary line with status 0 or 1: main has no other way out once the inputs are being read (shared with C03.2)", lambda c: c03.rule_exit_status(c, "C03.2"), only=["main/"])
    import c10

    ctx.include("C01.16", "discharges `variable already tracked by declaration map` (Declarations::add_declaration, reached while lifting): every declaration of every type - variable, signal, component - is recorded and renamed apart from a visible one of the same name before the lifting sees it (shared with C10.4)", c10.rule_shadowing)
    ctx.include("C01.9", "discharges Meta::get_file_id and the renderer's label assertion: every node gets its file id, spans are ordered token boundaries (shared with C04.4/C04.5)", c04.rule_grammar_spans, c04.rule_fill)
    ctx.include("C01.10", "discharges indexing of template arguments: an instantiation is inspected only after its name and arity were tested (shared with C11.3)", lambda c: c11.rule_thresholds(c, c11.rule_primes(c) or {}), only=["name-and-arity", "update_components", "size-is-first-argument", "table/no-panic", "table/nothing-else-flagged"])
